"""Implementation side of the correspondence: real arrays, real decorators, canonical outcomes.

Everything goes through dltype's public API; programs are synthesised as source text and exec'd so that
typing.get_type_hints, inspect.signature, @dataclass, NamedTuple and pydantic do what they really do.
"""

from __future__ import annotations

import re
import warnings

warnings.simplefilter("ignore")

import numpy as np  # noqa: E402

try:
    import jax

    jax.config.update("jax_enable_x64", True)
    import jax.numpy as jnp
except Exception:  # noqa: BLE001
    jax = None
    jnp = None
try:
    import torch
except Exception:  # noqa: BLE001
    torch = None

import dltype  # noqa: E402

from harness.common import sx_bool, sx_int, sx_scope, sx_str, unbin, unhex  # noqa: E402

# dtype tokens shared with the model (Dtypes.v / driver.ml)
NP_DT = {
    "bool": "bool_", "i8": "int8", "i16": "int16", "i32": "int32", "i64": "int64",
    "u8": "uint8", "u16": "uint16", "u32": "uint32", "u64": "uint64",
    "f16": "float16", "f32": "float32", "f64": "float64", "longdouble": "longdouble",
    "c64": "complex64", "c128": "complex128",
}
TORCH_DT = {
    "bool": "bool", "i8": "int8", "i16": "int16", "i32": "int32", "i64": "int64",
    "u8": "uint8", "u16": "uint16", "u32": "uint32", "u64": "uint64",
    "f16": "float16", "bf16": "bfloat16", "f32": "float32", "f64": "float64",
    "c64": "complex64", "c128": "complex128", "f8e4m3": "float8_e4m3fn", "f8e5m2": "float8_e5m2",
}
JAX_DT = {
    "bool": "bool_", "i8": "int8", "i16": "int16", "i32": "int32", "i64": "int64",
    "u8": "uint8", "u16": "uint16", "u32": "uint32", "u64": "uint64",
    "f16": "float16", "bf16": "bfloat16", "f32": "float32", "f64": "float64",
    "c64": "complex64", "c128": "complex128", "f8e4m3": "float8_e4m3fn", "f8e5m2": "float8_e5m2",
}
SHARED_DT = ["bool", "i8", "i16", "i32", "i64", "u8", "u16", "u32", "u64", "f16", "f32", "f64"]
LIBS = ["np", "torch", "jax"]
BASE_SRC = {"np": "np.ndarray", "torch": "torch.Tensor", "jax": "jax.Array"}


def available(lib: str, dt: str) -> bool:
    if lib == "np":
        return dt in NP_DT or dt == "other"
    if lib == "torch":
        return torch is not None and dt in TORCH_DT
    return jnp is not None and dt in JAX_DT


HOWS = {
    "np": ["plain", "fortran", "strided", "readonly", "transposed", "broadcast", "nonzero", "masked", "memmap_like"],
    "torch": ["plain", "noncontig", "expanded", "requires_grad", "parameter", "meta", "nonzero"],
    "jax": ["plain", "jit", "nonzero"],
}


def mk_variant(lib: str, dt: str, shape, how: str):
    """The same (shape, dtype) produced another way: memory layout, strides, flags, contents, subclass, device."""
    shape = tuple(int(s) for s in shape)
    base = mk_array(lib, dt, shape)
    if how in ("plain", "jit") or dt == "other":
        return base
    if lib == "np":
        if not shape and how in ("fortran", "strided", "transposed"):
            return base   # numpy turns these into scalars / 1-d arrays for rank 0: not the same shape any more
        if how == "fortran":
            return np.asfortranarray(base)
        if how == "strided":
            big = np.zeros(tuple(2 * s for s in shape), dtype=base.dtype)
            return big[tuple(slice(None, None, 2) for _ in shape)]
        if how == "readonly":
            base.setflags(write=False)
            return base
        if how == "transposed":
            return np.zeros(shape[::-1], dtype=base.dtype).T
        if how == "broadcast":
            return np.broadcast_to(np.zeros((), dtype=base.dtype), shape)
        if how == "nonzero":
            return np.ones(shape, dtype=base.dtype)
        if how == "masked":
            return np.ma.MaskedArray(base)
        if how == "memmap_like":
            return base.view(type("ArrSub", (np.ndarray,), {}))
    if lib == "torch":
        if how == "noncontig":
            return torch.zeros(shape[::-1], dtype=base.dtype).permute(*reversed(range(len(shape)))) if shape else base
        if how == "expanded":
            return torch.zeros((), dtype=base.dtype).expand(shape) if shape else base
        if how == "requires_grad":
            return base.requires_grad_() if base.dtype.is_floating_point else base
        if how == "parameter":
            return torch.nn.Parameter(base, requires_grad=False)
        if how == "meta":
            return torch.zeros(shape, dtype=base.dtype, device="meta")
        if how == "nonzero":
            return torch.ones(shape, dtype=base.dtype)
    if lib == "jax" and how == "nonzero":
        return jnp.ones(shape, dtype=base.dtype)
    return base


def _same_shape(x, shape) -> bool:
    return tuple(int(t) for t in x.shape) == tuple(shape)


def mk_array(lib: str, dt: str, shape):
    shape = tuple(int(s) for s in shape)
    if lib == "np":
        if dt == "other":
            return np.zeros(shape, dtype="U3")
        return np.zeros(shape, dtype=getattr(np, NP_DT[dt]))
    if lib == "torch":
        return torch.zeros(shape, dtype=getattr(torch, TORCH_DT[dt]))
    return jnp.zeros(shape, dtype=getattr(jnp, JAX_DT[dt]))


# ------------------------------------------------------------------------------------------------
# reflection of the DTYPES tuples into model tokens


def dtok_of_entry(e) -> str:
    if torch is not None and isinstance(e, torch.dtype):
        for k, v in TORCH_DT.items():
            if getattr(torch, v) is e:
                return "T:" + k
        return "T:other"
    try:
        d = np.dtype(e)
    except Exception:  # noqa: BLE001
        return "N:other"
    for k, v in NP_DT.items():
        if d == np.dtype(getattr(np, v)):
            return "N:" + k
    return "N:other"


TENSOR_CLASSES = [
    "TensorTypeBase", "FloatTensor", "Float16Tensor", "IEEE754HalfFloatTensor", "BFloat16Tensor", "Float32Tensor",
    "Float64Tensor", "DoubleTensor", "IntTensor", "SignedIntTensor", "UnsignedIntTensor", "Int8Tensor",
    "Int16Tensor", "Int32Tensor", "Int64Tensor", "UInt8Tensor", "UInt16Tensor", "UInt32Tensor", "UInt64Tensor",
    "BoolTensor",
]
_dtoks_cache: dict[str, list[str]] = {}


def class_dtoks(cls: str) -> list[str]:
    if cls not in _dtoks_cache:
        c = getattr(dltype, cls)
        _dtoks_cache[cls] = [dtok_of_entry(e) for e in c.DTYPES]
    return _dtoks_cache[cls]


# ------------------------------------------------------------------------------------------------
# canonical outcomes

_RX = {
    "Shape": re.compile(r"^Invalid tensor shape, tensor=(.*) dim=(-?\d+) expected=(-?\d+) actual=(-?\d+)$", re.S),
    "NDims": re.compile(r"^Invalid number of dimensions, tensor=(.*) expected ndims=(-?\d+) actual=(-?\d+)$", re.S),
    "Dtype": re.compile(r"^Invalid dtype, tensor=(.*) expected one of \((.*)\) got=(.*)$", re.S),
    "Duplicate": re.compile(r"^Invalid duplicate tensor, tensor=(.*)$", re.S),
    "InvalidRef": re.compile(
        r"^Invalid axis referenced before assignment tensor=(.*) missing_ref=(.*) valid_refs=(.*)$", re.S
    ),
}


def ann_text(t) -> str:
    """A canonical rendering of an annotation built from its attributes (expected_shape, identifier, parsed_expression, is_literal,
    is_anonymous) in the layout today's __repr__ happens to have; only if one of them is missing, repr() itself."""
    try:
        dims = []
        for d in t.expected_shape:
            toks = []
            for x in d.parsed_expression:
                if isinstance(x, bool) or not isinstance(x, (int, str)):
                    toks.append(str(getattr(x, "value", x)))     # an operator: its symbol
                elif isinstance(x, int):
                    toks.append(str(x))
                else:
                    toks.append(repr(x))
            lst = "[" + ", ".join(toks) + "]"
            if d.is_anonymous:
                dims.append(f"Anonymous<{d.identifier}>")
            elif d.is_literal:
                dims.append(f"Literal<{d.identifier}={lst}>")
            else:
                dims.append(f"Identifier<{d.identifier}={lst}>")
        tup = "(" + ", ".join(dims) + ("," if len(dims) == 1 else "") + ")"
        return f"{type(t).__name__}[{tup}]"
    except AttributeError:
        return repr(t)


def canon_exc(e: BaseException) -> dict:
    """Exception -> canonical dict (class, parsed fields); no message text, addresses or context prefix."""
    if isinstance(e, dltype.DLTypeError):
        s = str(e)
        if not isinstance(e, TypeError):
            return {"v": "crash", "exn": "DLTypeError-not-TypeError"}
        if isinstance(e, dltype.DLTypeShapeError):
            m = _RX["Shape"].match(s)
            if m:
                return {"v": "reject", "kind": "Shape", "name": m[1], "idx": int(m[2]), "expected": int(m[3]), "actual": int(m[4])}
        elif isinstance(e, dltype.DLTypeNDimsError):
            m = _RX["NDims"].match(s)
            if m:
                return {"v": "reject", "kind": "NDims", "name": m[1], "expected": int(m[2]), "actual": int(m[3])}
        elif isinstance(e, dltype.DLTypeDtypeError):
            m = _RX["Dtype"].match(s)
            if m:
                return {"v": "reject", "kind": "Dtype", "name": m[1]}
        elif isinstance(e, dltype.DLTypeDuplicateError):
            m = _RX["Duplicate"].match(s)
            if m:
                return {"v": "reject", "kind": "Duplicate", "name": m[1]}
        elif isinstance(e, dltype.DLTypeInvalidReferenceError):
            m = _RX["InvalidRef"].match(s)
            if m:
                valid = sorted(x for x in m[3].split(", ") if x != "")   # the order of the listed names is not part of the report
                return {"v": "reject", "kind": "InvalidRef", "name": m[1], "missing": m[2], "valid": valid}
        elif isinstance(e, dltype.DLTypeUnsupportedTensorTypeError):
            return {"v": "reject", "kind": "Unsupported"}
        elif isinstance(e, dltype.DLTypeScopeProviderError):
            return {"v": "reject", "kind": "ScopeProvider"}
        return {"v": "reject", "kind": "Unparsed:" + type(e).__name__, "text": s[:200]}
    name = type(e).__name__
    if isinstance(e, KeyError):
        return {"v": "crash", "exn": "KeyError"}
    return {"v": "crash", "exn": name}


def parse_dlerr(words: list[str]) -> dict:
    kind = words[0]
    kv = dict(w.split("=", 1) for w in words[1:])
    if kind == "Shape":
        return {"v": "reject", "kind": "Shape", "name": unhex(kv["name"]), "idx": int(kv["idx"]), "expected": unbin(kv["expected"]), "actual": unbin(kv["actual"])}
    if kind == "NDims":
        return {"v": "reject", "kind": "NDims", "name": unhex(kv["name"]), "expected": int(kv["expected"]), "actual": int(kv["actual"])}
    if kind == "Dtype":
        return {"v": "reject", "kind": "Dtype", "name": unhex(kv["name"])}
    if kind == "Duplicate":
        return {"v": "reject", "kind": "Duplicate", "name": unhex(kv["name"])}
    if kind == "InvalidRef":
        valid = sorted(unhex(x) for x in kv["valid"].split(",") if x)
        return {"v": "reject", "kind": "InvalidRef", "name": unhex(kv["name"]), "missing": unhex(kv["missing"]), "valid": valid}
    if kind in ("Unsupported", "ScopeProvider"):
        return {"v": "reject", "kind": kind}
    raise ValueError(words)


def parse_model_outcome(line: str) -> dict:
    """ACCEPT.. | REJECT <dlerr> | CRASH <exn> | called=b <...> | IDENTITY | DEC_ERR exn | ANNOT_ERR exn."""
    w = line.split()
    out: dict = {}
    if w and w[0].startswith("called="):
        out["called"] = w[0] == "called=1"
        w = w[1:]
    if not w:
        raise ValueError(line)
    if w[0].startswith("ACCEPT") or w[0] == "RETURNED":
        out["v"] = "accept"
    elif w[0] == "REJECT":
        out.update(parse_dlerr(w[1:]))
    elif w[0] == "CRASH":
        ex = w[1]
        out.update({"v": "crash", "exn": "KeyError" if ex.startswith("KeyError") else ex})
    elif w[0] == "BODYRAISED":
        out["v"] = "bodyraised"
    elif w[0] == "IDENTITY":
        out["v"] = "identity"
    elif w[0] in ("DEC_ERR", "ANNOT_ERR"):
        out.update({"v": "decerr", "exn": w[1]})
    else:
        raise ValueError(line)
    return out


# ------------------------------------------------------------------------------------------------
# hints and values: one JSON-able description rendered for both sides


def H_ann(cls: str, shape, lib: str = "np", call: bool = False) -> dict:
    return {"k": "ann", "cls": cls, "shape": shape, "lib": lib, "call": call}


def H_opt(h: dict) -> dict:
    return {"k": "opt", "of": h}


def H_tuple(elts: list[dict]) -> dict:
    return {"k": "tuple", "elts": elts}


H_PLAIN = {"k": "plain"}


# while fn_source renders a case with `share_aliases`, every distinct annotated-tensor hint is written once, as a module-level
# alias `_A<i> = Annotated[...]`, and referred to by that name wherever it occurs (bare, under `| None`, inside tuple[...]):
# the ordinary way to write such signatures.  All occurrences then share ONE annotation object (and compare equal).
_ALIASES: dict | None = None


def hint_src(h: dict) -> str:
    k = h["k"]
    if k == "plain":
        return h.get("src", "int")
    if k == "ann":
        shape = "None" if h["shape"] is None else repr(h["shape"])
        ann = f"dltype.{h['cls']}({shape})" if h.get("call") else f"dltype.{h['cls']}[{shape}]"
        full = f"Annotated[{BASE_SRC[h['lib']]}, {ann}]"
        if _ALIASES is not None:
            return _ALIASES.setdefault(full, f"_A{len(_ALIASES)}")
        return full
    if k == "annother":
        return "Annotated[int, 'meta']"
    if k == "annbad":  # dltype annotation on an unsupported base type
        return f"Annotated[int, dltype.{h['cls']}[{h['shape']!r}]]"
    if k == "opt":
        inner = hint_src(h["of"])
        return {"T|None": f"{inner} | None", "None|T": f"None | {inner}", "Union[None,T]": f"typing.Union[None, {inner}]",
                "Union[T,None]": f"typing.Union[{inner}, None]"}.get(h.get("spell"), f"typing.Optional[{inner}]")
    if k == "union":
        return "typing.Union[" + ", ".join(hint_src(x) for x in h["alts"]) + (", None" if h.get("none") else "") + "]"
    if k == "tuple":
        return "tuple[" + ", ".join(hint_src(x) for x in h["elts"]) + "]"
    raise ValueError(h)


def annot_sx(h: dict, opt: bool = False) -> str:
    shape = "none" if h["shape"] is None else sx_str(h["shape"])
    return f"({shape} ({' '.join(class_dtoks(h['cls']))}) {sx_bool(opt)})"


def hint_sx(h: dict) -> str:
    k = h["k"]
    if k == "plain":
        return "plain"
    if k == "annother":
        return "annother"
    if k == "ann":
        return f"(ann sup {annot_sx(h)})"
    if k == "annbad":
        return f"(ann unsup {annot_sx(h)})"
    if k == "opt":
        return f"(union {hint_sx(h['of'])})"
    if k == "union":
        return "(union " + " ".join(hint_sx(x) for x in h["alts"]) + ")"
    if k == "tuple":
        return "(tuple " + " ".join(hint_sx(x) for x in h["elts"]) + ")"
    raise ValueError(h)


def V_arr(lib: str, dt: str, shape) -> dict:
    return {"k": "arr", "lib": lib, "dt": dt, "shape": [int(s) for s in shape]}


V_NONE = {"k": "none"}
V_OTHER = {"k": "other"}


def V_tup(elts: list[dict]) -> dict:
    return {"k": "tup", "elts": elts}


class _Other:
    """A value that is no array, no tuple and not iterable."""

    def __repr__(self) -> str:
        return "<other>"


def value_obj(v: dict):
    k = v["k"]
    if k == "arr":
        if v.get("how"):
            x = mk_variant(v["lib"], v["dt"], v["shape"], v["how"])
            plain = mk_array(v["lib"], v["dt"], v["shape"])
            if not hasattr(x, "shape") or not _same_shape(x, plain.shape) or x.dtype != plain.dtype:
                raise AssertionError(f"harness: variant {v['how']} of {v['lib']}:{v['dt']}{tuple(v['shape'])} is not the same shape/dtype")
            return x
        return mk_array(v["lib"], v["dt"], v["shape"])
    if k == "none":
        return None
    if k == "other":
        # what sits at a position dltype has nothing to say about: any Python object, iterable and tuple-valued ones included
        a = v.get("as")
        if a == "tuple":
            return (1, 2)
        if a == "empty":
            return ()
        if a == "size":
            return torch.Size([2, 3])
        if a == "shape":
            return np.zeros((2, 3)).shape
        if a == "record":
            import collections

            return collections.namedtuple("Pt", ["u", "v"])(1, 2)
        if a == "str":
            return "ab"
        if a == "list":
            return [np.zeros((2,)), 3]
        if a == "nested":
            return (np.zeros((5, 5)), (np.zeros((7,)),))
        return _Other()
    if k == "tup":
        elts = tuple(value_obj(x) for x in v["elts"])
        if v.get("record") and elts:
            # a tuple SUBCLASS instance (a namedtuple record, like the structseqs torch.max / torch.sort return)
            import collections

            return collections.namedtuple("Record", [f"f{i}" for i in range(len(elts))])(*elts)
        return elts
    if k == "list":  # an unhashable non-array value
        return [1, 2]
    if k == "int":
        return 7
    raise ValueError(v)


def value_sx(v: dict) -> str:
    k = v["k"]
    if k == "arr":
        return f"(arr ({v['lib']} {v['dt']} ({' '.join(sx_int(s) for s in v['shape'])})))"
    if k == "none":
        return "none"
    if k in ("other", "list", "int"):
        return "other"
    if k == "tup":
        return "(tup " + " ".join(value_sx(x) for x in v["elts"]) + ")"
    raise ValueError(v)


NS_BASE = {"np": np, "torch": torch, "jax": jax, "dltype": dltype}


def base_ns() -> dict:
    import dataclasses
    import typing
    from typing import Annotated, NamedTuple

    import pydantic

    ns = dict(NS_BASE)
    ns.update({"typing": typing, "Annotated": Annotated, "NamedTuple": NamedTuple, "dataclasses": dataclasses, "pydantic": pydantic})
    return ns


class Provider:
    """A scope provider whose mapping the test controls; `fresh` decides whether a copy is handed out."""

    def __init__(self, scope: dict[str, int], fresh: bool = True) -> None:
        self.scope = scope
        self.fresh = fresh
        self.calls = 0

    hook = None   # thread runs: a rendezvous INSIDE get_dltype_scope (every thread is consulting the provider at the same time)

    def get_dltype_scope(self) -> dict[str, int]:
        self.calls += 1
        if self.hook is not None:
            self.hook()
        return dict(self.scope) if self.fresh else self.scope


class NotAProvider:
    pass


# ------------------------------------------------------------------------------------------------
# the function form


def _hint_kinds(h: dict) -> set:
    out = {h["k"]}
    for sub in ([h["of"]] if h["k"] == "opt" else []) + list(h.get("elts", [])) + list(h.get("alts", [])):
        out |= _hint_kinds(sub)
    return out


def maybe_lazy(rnd, case: dict, prob: float = 0.2) -> dict:
    """With probability `prob` the case is written with forward references (hints quoted, aliases defined after the function), and
    in half of those the function is called once BEFORE the aliases exist.  Only for plain functions whose hints dltype supports
    (an unsupported hint is reported when the hints are resolved, i.e. at another moment than for an eager function)."""
    hints = [p["hint"] for p in case["params"] if p.get("hint")] + ([case["ret"]] if case.get("ret") else [])
    kinds = set().union(*[_hint_kinds(h) for h in hints]) if hints else set()
    if case.get("method") or not hints or not kinds <= {"plain", "ann", "opt", "tuple"} or "enabled" in case:
        return case
    if rnd.random() < prob:
        case["lazy_hints"] = True
        case["lazy_early_call"] = rnd.random() < 0.5
    return case


LAZY_SPLIT = "# ---- aliases (defined after the function) ----\n"


def fn_source(case: dict, name: str = "f") -> str:
    """def f(<params>) -> <ret>: log the call and return RET (or raise BodyError)."""
    global _ALIASES
    lazy = bool(case.get("lazy_hints")) and not case.get("method")
    if (case.get("share_aliases") or lazy) and _ALIASES is None:
        _ALIASES = {}
        try:
            body = fn_source(case, name)
            alias_src = "".join(f"{a} = {full}\n" for full, a in _ALIASES.items())
            # lazy: the aliases are defined AFTER the function and every hint is a quoted forward reference - the hints cannot be
            # resolved at decoration time, only from the first call on (LAZY_SPLIT marks where run_fn_case may call early)
            return body + LAZY_SPLIT + alias_src if lazy else alias_src + body
        finally:
            _ALIASES = None
    q = repr if lazy else str
    params = []
    if case.get("method"):
        params.append("self")
    for p in case["params"]:
        s = p["name"]
        if p.get("hint") is not None:
            s += ": " + q(hint_src(p["hint"]))
        if "default" in p:
            s += f" = DEFAULTS[{p['name']!r}]"
        if p.get("kwonly_marker"):
            s = "*, " + s
        params.append(s)
        if p.get("posonly_end"):
            params.append("/")     # this and all earlier parameters are positional-only
    ret = "" if case.get("ret") is None else " -> " + q(hint_src(case["ret"]))
    prov = case.get("provider")
    if prov is None:
        deco = "dltype.dltyped()"
    elif prov["kind"] == "self":
        deco = 'dltype.dltyped("self")'
    else:
        deco = "dltype.dltyped(PROVIDER)"
    if "enabled" in case:
        deco = deco[:-1] + (", " if not deco.endswith("(") else "") + f"enabled={case['enabled']})"
    body = "    LOG.append(dict(locals()))\n    if RAISE: raise BodyError('body')\n    return RETVAL[0]\n"
    return f"@{deco}\ndef {name}({', '.join(params)}){ret}:\n{body}"


class BodyError(Exception):
    pass


def run_fn_case(case: dict) -> dict:
    """Decorate and call once.  Returns canonical outcome + observations used by several properties."""
    ns = base_ns()
    log: list = []
    retbox = [None]
    prov = case.get("provider")
    provider_obj = None
    if prov is not None:
        provider_obj = NotAProvider() if prov.get("scope") == "bad" else Provider(dict(prov["scope"]), prov.get("fresh", True))
    ns.update({"LOG": log, "RETVAL": retbox, "RAISE": case.get("retval") == "raise", "BodyError": BodyError,
               "PROVIDER": provider_obj, "DEFAULTS": {p["name"]: value_obj(p["default"]) for p in case["params"] if "default" in p}})
    src = fn_source(case)
    try:
        if case.get("method"):
            # a class whose instances are (or are not) scope providers
            cls_src = "class K:\n" + "".join("    " + ln + "\n" for ln in src.splitlines())
            if prov is not None and prov["kind"] == "self" and prov.get("scope") != "bad":
                cls_src += "    def get_dltype_scope(self):\n        return PROVIDER.get_dltype_scope()\n"
            exec(compile(cls_src, '<case>', 'exec', dont_inherit=True), ns)  # noqa: S102
            target = ns["K"]().f
            raw = ns["K"].__dict__["f"]
        elif LAZY_SPLIT in src:
            head, tail = src.split(LAZY_SPLIT)
            exec(compile(head, '<case>', 'exec', dont_inherit=True), ns)  # noqa: S102
            if case.get("lazy_early_call"):
                # a call while the names in the hints are still undefined: dltype cannot check it (it warns and runs the body);
                # whatever it does, it must not change what later calls - made when the hints resolve - come out as
                import warnings

                eargs = {k: value_obj(v) for k, v in case["args"].items()}
                with warnings.catch_warnings():
                    warnings.simplefilter("ignore")
                    try:
                        ns["f"](*[eargs[n] for n in case.get("positional", [])], **{k: v for k, v in eargs.items() if k not in case.get("positional", [])})
                    except BaseException:  # noqa: BLE001, S110
                        pass
                log.clear()
                if isinstance(provider_obj, Provider):
                    provider_obj.scope = dict(prov["scope"])
                    provider_obj.calls = 0
            exec(compile(tail, '<case>', 'exec', dont_inherit=True), ns)  # noqa: S102
            target = raw = ns["f"]
        else:
            exec(compile(src, '<case>', 'exec', dont_inherit=True), ns)  # noqa: S102
            target = raw = ns["f"]
    except BaseException as e:  # noqa: BLE001
        return {"v": "decerr", "exn": type(e).__name__, "src": src}
    identity = getattr(raw, "__wrapped__", None) is None
    args = {k: value_obj(v) for k, v in case["args"].items()}
    if case.get("retval") not in (None, "raise"):
        retbox[0] = value_obj(case["retval"])
    if case.get("retval_same_as"):
        retbox[0] = args[case["retval_same_as"]]     # the body hands back the very object it was given
    pos = [args[n] for n in case.get("positional", [])]
    # keyword arguments in the order the caller writes them (`kw_order`: any permutation; default: declaration order)
    kw_names = [k for k in case.get("kw_order", []) if k in args] + [k for k in args if k not in case.get("kw_order", [])]
    kw = {k: args[k] for k in kw_names if k not in case.get("positional", [])}
    out: dict
    warm = case.get("warmup")
    if warm is not None and not identity:
        # an earlier call of the SAME decorated function (other argument values, other provider values, other result); whatever
        # it did, the measured call below is its own context and must come out as if it were the first (C09)
        if isinstance(provider_obj, Provider) and warm.get("scope") is not None:
            provider_obj.scope = dict(warm["scope"])
        wargs = {k: value_obj(v) for k, v in warm["args"].items()}
        keep = retbox[0]
        if warm.get("retval") is not None:
            retbox[0] = value_obj(warm["retval"])
        try:
            target(*[wargs[n] for n in case.get("positional", [])], **{k: v for k, v in wargs.items() if k not in case.get("positional", [])})
        except BaseException:  # noqa: BLE001, S110
            pass
        retbox[0] = keep
        log.clear()
        if isinstance(provider_obj, Provider):
            provider_obj.scope = dict(prov["scope"])
            provider_obj.calls = 0
    # top-level jax arguments marked how == "jit" are handed over as tracers: the whole checked call is traced
    traced = [k for k, v in case["args"].items() if isinstance(v, dict) and v.get("k") == "arr" and v.get("lib") == "jax" and v.get("how") == "jit"
              and k not in case.get("positional", [])]
    try:
        if traced and jax is not None:
            box = []

            def under_trace(*arrs):
                box.append(target(*pos, **{**kw, **dict(zip(traced, arrs))}))
                return 0

            jax.make_jaxpr(under_trace)(*[kw[k] for k in traced])
            got = box[0] if box else None
        else:
            got = target(*pos, **kw)
        out = {"v": "accept", "same_object": got is retbox[0]}
    except BodyError:
        out = {"v": "bodyraised"}
    except BaseException as e:  # noqa: BLE001
        out = canon_exc(e)
    out["called"] = len(log)
    out["identity"] = identity
    if log:
        seen = {k: v for k, v in log[0].items() if k != "self"}
        out["args_identical"] = all(seen.get(k) is v for k, v in args.items()) and all(
            seen.get(k) is ns["DEFAULTS"][k] for k in ns["DEFAULTS"] if k not in args
        )
    if provider_obj is not None and isinstance(provider_obj, Provider):
        out["provider_after"] = dict(provider_obj.scope)
        out["provider_calls"] = provider_obj.calls
    out["src"] = src
    return out


def fn_case_sx(case: dict) -> str:
    """The same case for the model: (call enabled fn pstatus args body)."""
    params = " ".join(f"({sx_str(p['name'])} {hint_sx(p['hint'])})" for p in case["params"] if p.get("hint") is not None)
    ret = "none" if case.get("ret") is None else hint_sx(case["ret"])
    prov = case.get("provider")
    pspec = "none" if prov is None else prov["kind"]
    is_method = sx_bool(bool(case.get("method")))
    if prov is None:
        pst = "bad"
    elif prov.get("scope") == "bad":
        pst = "bad"
    else:
        pst = f"(ok {sx_scope(prov['scope'])})"
    allargs = dict(case["args"])
    for p in case["params"]:
        if "default" in p and p["name"] not in allargs:
            allargs[p["name"]] = p["default"]
    args = " ".join(f"({sx_str(k)} {value_sx(v)})" for k, v in allargs.items())
    rv = case.get("retval")
    body = "raise" if rv == "raise" else f"(return {value_sx(rv if rv is not None else V_NONE)})"
    en = sx_bool(case.get("enabled", True))
    return f"(call {en} (({params}) {ret} {pspec} {is_method}) {pst} ({args}) {body})"
