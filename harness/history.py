"""Histories: families of decorated functions that share annotation aliases and scope providers, driven by a
sequence of decorations and calls (optionally from several threads, optionally nested)."""

from __future__ import annotations

import copy
import threading

from harness import impl as I


def family_source(fam: dict) -> str:
    """aliases first, then the functions in decoration order.  With fam["lazy"]: one decorator OBJECT per provider shared by
    the functions, alias-typed parameters annotated by the alias's NAME in quotes, and the aliases defined after the functions -
    the hints cannot be resolved at decoration time and are resolved on the first call of each function."""
    lines = []
    lazy = bool(fam.get("lazy"))
    alias_lines = [f"{name} = {I.hint_src(h)}" for name, h in fam["aliases"].items()]
    if lazy:
        provs = sorted({f.get("provider") for f in fam["functions"]}, key=str)
        for pr in provs:
            lines.append(f"DECO_{pr} = " + ("dltype.dltyped()" if pr is None else f"dltype.dltyped(PROVIDERS[{pr!r}])"))
    else:
        lines += alias_lines
    by_name = {f["name"]: f for f in fam["functions"]}

    def ann(p):
        src = param_src(p)
        return repr(src) if (lazy and "alias" in p) else src

    for fname in fam["order"]:
        f = by_name[fname]
        params = []
        for p in f["params"]:
            params.append(f"{p['name']}: {ann(p)}")
        ret = f" -> {ann(f['ret'])}" if f.get("ret") else ""
        prov = f.get("provider")
        deco = f"DECO_{prov}" if lazy else ("dltype.dltyped()" if prov is None else f"dltype.dltyped(PROVIDERS[{prov!r}])")
        # the value to return is fixed on entry: an inner (recursive) call of the same function sets its own
        body = [f"    _rv = RET[{fname!r}][threading.get_ident()] if threading.get_ident() in RET[{fname!r}] else RET[{fname!r}][0]",
                f"    LOG.append(({fname!r}, threading.get_ident()))"]
        if fam.get("threads"):
            body.append("    body_rendezvous()")   # every thread is inside the body at the same time
        if f.get("calls_inner"):
            inner = f["calls_inner"]
            body.append(f"    if not getattr(DEPTH, 'inner', False):\n        INNER_RESULTS.append(run_inner({inner['fn']!r}, {inner['step']}))")
        body.append("    return _rv")
        lines.append(f"@{deco}\ndef {fname}({', '.join(params)}){ret}:\n" + "\n".join(body) + "\n")
    if lazy:
        lines += alias_lines
    return "\n".join(lines)


def param_src(p: dict) -> str:
    if "alias" in p:
        s = p["alias"]
        if p.get("opt"):
            s = f"typing.Optional[{s}]"
        return s
    return I.hint_src(p["hint"])


def expand(fam: dict, p: dict) -> dict:
    """The hint a parameter has once aliases are written out."""
    if "alias" in p:
        h = copy.deepcopy(fam["aliases"][p["alias"]])
        return I.H_opt(h) if p.get("opt") else h
    return p["hint"]


def single_case(fam: dict, fname: str, step: dict, scope) -> dict:
    """The same call as a stand-alone function-form case (what a fresh interpreter would decide)."""
    f = next(x for x in fam["functions"] if x["name"] == fname)
    prov = None
    if f.get("provider") is not None:
        prov = {"kind": "free", "scope": dict(scope) if scope != "bad" else "bad", "fresh": True}
    return {"form": "fn", "params": [{"name": p["name"], "hint": expand(fam, p)} for p in f["params"]],
            "ret": expand(fam, f["ret"]) if f.get("ret") else None, "provider": prov, "args": step["args"], "retval": step.get("retval")}


def run_family(fam: dict) -> dict:
    """Worker side.  Returns per-step outcomes, provider dicts after every step, annotation flags before/after."""
    ns = I.base_ns()
    providers = {}
    for name, spec in fam.get("providers", {}).items():
        providers[name] = I.NotAProvider() if spec.get("scope") == "bad" else I.Provider(dict(spec["scope"]), spec.get("fresh", True))
    log: list = []
    ret: dict = {f["name"]: {0: None} for f in fam["functions"]}
    inner_results: list = []
    ns.update({"LOG": log, "RET": ret, "PROVIDERS": providers, "threading": threading, "INNER_RESULTS": inner_results})

    def call_step(step: dict, tid=None):
        fn = ns[step["fn"]]
        args = {k: I.value_obj(v) for k, v in step["args"].items()}
        rv = I.value_obj(step["retval"]) if step.get("retval") not in (None, "raise") else None
        ret[step["fn"]][tid if tid is not None else 0] = rv
        if tid is None:
            ret[step["fn"]][threading.get_ident()] = rv
        try:
            fn(**args)
            return {"v": "accept"}
        except BaseException as e:  # noqa: BLE001
            return I.canon_exc(e)

    depth = threading.local()

    def run_inner(fname: str, idx: int):
        """A checked call made from inside a checked body: in this thread, or in another thread that is joined."""
        st = fam["inner_steps"][idx]
        if st.get("other_thread"):
            box: list = []

            def target() -> None:
                depth.inner = True
                box.append(call_step(st, tid=threading.get_ident()))

            th = threading.Thread(target=target)
            th.start()
            th.join(timeout=30)
            return box[0] if box else {"v": "harness", "exn": "inner thread did not finish"}
        depth.inner = True
        try:
            return call_step(st)
        finally:
            depth.inner = False

    cur_step = threading.local()
    body_barriers: list = []

    def body_rendezvous() -> None:
        i = getattr(cur_step, "i", None)
        if i is None or i >= len(body_barriers):
            return
        try:
            body_barriers[i].wait(timeout=2)
        except threading.BrokenBarrierError:
            pass

    prov_barriers: list = []

    def provider_rendezvous() -> None:
        i = getattr(cur_step, "i", None)
        if i is None or i >= len(prov_barriers):
            return
        try:
            prov_barriers[i].wait(timeout=1)
        except threading.BrokenBarrierError:
            pass

    ns["run_inner"] = run_inner
    ns["DEPTH"] = depth
    ns["body_rendezvous"] = body_rendezvous
    try:
        exec(compile(family_source(fam), "<family>", "exec", dont_inherit=True), ns)  # noqa: S102
    except BaseException as e:  # noqa: BLE001
        return {"v": "decerr", "exn": type(e).__name__, "src": family_source(fam)}
    alias_flags_before = {}
    for name in fam["aliases"]:
        meta = getattr(ns[name], "__metadata__", None)
        alias_flags_before[name] = bool(meta[0].optional) if meta else None
    outcomes = []
    prov_after = []
    if fam.get("threads"):
        # every thread runs the whole step list; a barrier makes the calls overlap
        nthreads = fam["threads"]
        barrier = threading.Barrier(nthreads)
        body_barriers.extend(threading.Barrier(nthreads) for _ in fam["steps"])
        prov_barriers.extend(threading.Barrier(nthreads) for _ in fam["steps"])
        for pobj in providers.values():
            if isinstance(pobj, I.Provider):
                pobj.hook = provider_rendezvous
        results = [[None] * len(fam["steps"]) for _ in range(nthreads)]

        def worker(t: int) -> None:
            for i, st in enumerate(fam["steps"]):
                try:
                    barrier.wait(timeout=10)
                except threading.BrokenBarrierError:
                    pass
                cur_step.i = i
                results[t][i] = call_step(st, tid=threading.get_ident())

        ths = [threading.Thread(target=worker, args=(t,)) for t in range(nthreads)]
        for th in ths:
            th.start()
        for th in ths:
            th.join(timeout=60)
        outcomes = results
    else:
        for st in fam["steps"]:
            if "set_provider" in st:
                p = providers[st["set_provider"]]
                if isinstance(p, I.Provider):
                    if st.get("in_place"):
                        p.scope.clear()
                        p.scope.update(st["scope"])
                    else:
                        p.scope = dict(st["scope"])
                outcomes.append({"v": "set"})
            else:
                outcomes.append(call_step(st))
            prov_after.append({k: (dict(p.scope) if isinstance(p, I.Provider) else "bad") for k, p in providers.items()})
    alias_flags_after = {}
    for name in fam["aliases"]:
        meta = getattr(ns[name], "__metadata__", None)
        alias_flags_after[name] = bool(meta[0].optional) if meta else None
    return {"v": "ok", "outcomes": outcomes, "providers_after": prov_after, "alias_before": alias_flags_before,
            "alias_after": alias_flags_after, "inner": inner_results, "src": family_source(fam)}
