"""Module-level decorated classes and their undecorated twins (pickle needs importable classes)."""

from __future__ import annotations

import dataclasses
from typing import Annotated, NamedTuple

import numpy as np

import dltype

A = Annotated[np.ndarray, dltype.FloatTensor["a b"]]
B = Annotated[np.ndarray, dltype.IntTensor["b"]]


class NTPlain(NamedTuple):
    """A named tuple."""

    x: A
    y: B
    n: int = 3


@dltype.dltyped_namedtuple()
class NTChecked(NamedTuple):
    """A named tuple."""

    x: A
    y: B
    n: int = 3


def make_dc(**opts):
    def deco(cls):
        return dataclasses.dataclass(**opts)(cls)

    return deco


DC_OPTS = {
    "plain": {}, "frozen": {"frozen": True}, "slots": {"slots": True}, "frozen_slots": {"frozen": True, "slots": True},
    "kw_only": {"kw_only": True}, "order": {"order": True}, "no_eq": {"eq": False},
}
DC = {}
for _name, _opts in DC_OPTS.items():
    def _mk(checked: bool, opts=_opts, name=_name):
        @dataclasses.dataclass(**opts)
        class K:
            """A dataclass."""

            x: A
            y: B
            n: int = 3
            tags: list = dataclasses.field(default_factory=list)

        K.__name__ = K.__qualname__ = f"DC_{name}_{'checked' if checked else 'plain'}"
        return dltype.dltyped_dataclass()(K) if checked else K

    DC[_name] = (_mk(False), _mk(True))
    globals()[DC[_name][0].__name__] = DC[_name][0]
    globals()[DC[_name][1].__name__] = DC[_name][1]


# inheritance: a decorated dataclass deriving from a decorated / an undecorated dataclass, and an undecorated one deriving from a
# decorated one (its own generated __init__ replaces the checked one: nothing is validated, as for any undecorated class)
@dltype.dltyped_dataclass()
@dataclasses.dataclass
class BaseChecked:
    x: A


@dltype.dltyped_dataclass()
@dataclasses.dataclass
class DerivedOfChecked(BaseChecked):
    y: B = None  # type: ignore[assignment]


@dataclasses.dataclass
class BasePlain:
    x: A


@dltype.dltyped_dataclass()
@dataclasses.dataclass
class DerivedOfPlain(BasePlain):
    y: B = None  # type: ignore[assignment]


@dltype.dltyped_dataclass()
@dataclasses.dataclass
class WithDerivedField:
    """A field that __init__ does not take: it is filled in by __post_init__ and validated like the others."""

    x: A
    scale: int = 1
    y: B = dataclasses.field(init=False)

    def __post_init__(self) -> None:
        self.y = np.zeros((self.x.shape[1] * self.scale,), dtype=np.int32)


# a collections.namedtuple subclass that annotates only SOME of its fields, an un-annotated one standing before annotated ones
import collections  # noqa: E402


class _SampleBase(collections.namedtuple("_SampleBase", ["sample_id", "image", "aux", "mask"])):
    __slots__ = ()
    image: A
    mask: B


PartiallyAnnotated = dltype.dltyped_namedtuple()(_SampleBase)


# string annotations + a wrapper from another module between dltyped and the function
from harness import c16_wrappers  # noqa: E402


@dltype.dltyped()
@c16_wrappers.timed
def through_foreign_wrapper(x: "A", y: "B") -> "A":
    return x
