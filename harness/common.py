"""Shared plumbing of the dltype verification harness: paths, build, model driver, evidence, findings.

Run with /venv/bin/python, PYTHONPATH=/repo:/verif (bin/vcheck arranges that).
"""

from __future__ import annotations

import hashlib
import json
import os
import random
import subprocess
import sys
import time
from pathlib import Path

sys.set_int_max_str_digits(0)

VERIF = Path(__file__).resolve().parent.parent
REPO = Path(os.environ.get("DLTYPE_REPO", "/repo"))
COQ = VERIF / "coq"
BUILD = VERIF / "build"
EVIDENCE = VERIF / "evidence"
REPLAYS = VERIF / "replays"
CORPUS = VERIF / "corpus"
PY = "/venv/bin/python"
NCPU = os.cpu_count() or 4


def seed_from_env() -> int:
    try:
        return int(os.environ.get("VERIF_SEED", "0"))
    except ValueError:
        return 0


SOURCE_BASELINE = VERIF / "source_baseline.json"
_changed_cache: list = []


def changed_sources() -> list[str]:
    """Files under REPO/dltype (tests excluded) whose content differs from the baseline the committed evidence was made on.
    Used only to decide how deep the quick tier samples (depth()): a change never is a verdict by itself."""
    if _changed_cache:
        return _changed_cache[0]
    try:
        base = json.loads(SOURCE_BASELINE.read_text())
    except Exception:  # noqa: BLE001
        _changed_cache.append([])
        return []
    now = {}
    for f in sorted((REPO / "dltype").rglob("*.py")):
        rel = str(f.relative_to(REPO))
        if "/tests/" in rel:
            continue
        now[rel] = hashlib.sha256(f.read_bytes()).hexdigest()
    ch = sorted(k for k in set(base) | set(now) if base.get(k) != now.get(k))
    _changed_cache.append(ch)
    return ch


def depth(tier: str, quick: int, thorough: int) -> int:
    """Sample size of a stream.  Quick tier on a source tree that differs from the baseline: four times the quick size
    (capped by the thorough size) - a changed tree is looked at harder than the tree the last full pass was made on."""
    if tier != "quick":
        return thorough
    if changed_sources():
        return min(thorough, quick * 4)
    return quick


def rng_for(prop: str, seed: int, stream: str = "") -> random.Random:
    h = hashlib.sha256(f"{prop}|{seed}|{stream}".encode()).digest()
    return random.Random(int.from_bytes(h[:8], "big"))


# ----------------------------------------------------------------------------------------------
# build: Coq project (full .vo build), extraction, OCaml driver.  A content hash avoids rebuilding.


def _hash_sources() -> str:
    h = hashlib.sha256()
    files = sorted(
        p
        for p in list(COQ.rglob("*.v")) + [COQ / "_CoqProject", VERIF / "ocaml" / "driver.ml"]
        if p.is_file() and "cases" not in p.parts
    )
    for p in files:
        h.update(str(p.relative_to(VERIF)).encode())
        h.update(p.read_bytes())
    return h.hexdigest()


def coq_files() -> list[str]:
    out = []
    for sub in ("model", "spec", "proofs", "gen", "props", "extract"):
        d = COQ / sub
        if d.is_dir():
            out += sorted(str(p.relative_to(COQ)) for p in d.glob("*.v"))
    return out


def run(cmd, *, cwd=None, timeout=None, env=None, check=False, input=None):
    return subprocess.run(
        cmd, cwd=cwd, timeout=timeout, env=env, check=check, input=input, text=True, capture_output=True
    )


def ensure_built(verbose: bool = False) -> dict:
    """Build coq/ (make, full .vo), the extracted model and the OCaml driver; returns build status."""
    BUILD.mkdir(exist_ok=True)
    stamp = BUILD / "stamp.json"
    digest = _hash_sources()
    if stamp.exists():
        try:
            st = json.loads(stamp.read_text())
            if st.get("digest") == digest and (BUILD / "dldriver").exists():
                return st
        except json.JSONDecodeError:
            pass
    t0 = time.time()
    status: dict = {"digest": digest, "props": {}, "ok": False}
    files = coq_files()
    (COQ / "_CoqProject.gen").write_text((COQ / "_CoqProject").read_text() + "\n" + "\n".join(files) + "\n")
    r = run(["coq_makefile", "-f", "_CoqProject.gen", "-o", "Makefile"], cwd=COQ, timeout=120)
    if r.returncode != 0:
        status["error"] = "coq_makefile: " + r.stderr[-2000:]
        stamp.write_text(json.dumps(status))
        return status
    # the extracted model must come from this build: remove whatever an earlier build left behind
    for stale in (COQ / "dlmodel.ml", COQ / "dlmodel.mli", COQ / "extract" / "dlmodel.ml", COQ / "extract" / "dlmodel.mli"):
        stale.unlink(missing_ok=True)
    (COQ / "extract" / "Extract.vo").unlink(missing_ok=True)
    # -k: keep going so that one broken proof does not hide the state of the others
    r = run(["make", "-k", f"-j{NCPU}"], cwd=COQ, timeout=3000)
    status["make_rc"] = r.returncode
    (BUILD / "make.log").write_text(r.stdout + "\n==== stderr ====\n" + r.stderr)
    # per property: does props/Cxx.vo exist, and what did Print Assumptions say
    assumptions = parse_assumptions(r.stdout)
    for p in sorted((COQ / "props").glob("C*.v")):
        pid = p.stem
        status["props"][pid] = {"compiled": vo_fresh(f"props/{pid}.v"), "assumptions": assumptions.get(pid, [])}
    # model + extraction are needed for the correspondence whatever happens to the proofs
    # coqc runs in coq/ (the Makefile's directory), which is where `Extraction "dlmodel.ml"` writes
    ext_ml = COQ / "dlmodel.ml"
    if not (COQ / "extract" / "Extract.vo").exists() or not ext_ml.exists():
        status["error"] = "extraction failed (see build/make.log)"
        stamp.write_text(json.dumps(status))
        return status
    for f in ("dlmodel.ml", "dlmodel.mli"):
        (BUILD / f).write_bytes((COQ / f).read_bytes())
    (BUILD / "driver.ml").write_bytes((VERIF / "ocaml" / "driver.ml").read_bytes())
    r = run(
        ["ocamlfind", "ocamlopt", "-w", "-a", "dlmodel.mli", "dlmodel.ml", "driver.ml", "-o", "dldriver"],
        cwd=BUILD,
        timeout=300,
    )
    if r.returncode != 0:
        status["error"] = "ocaml: " + r.stderr[-2000:]
        stamp.write_text(json.dumps(status))
        return status
    status["ok"] = True
    status["build_s"] = round(time.time() - t0, 1)
    stamp.write_text(json.dumps(status))
    if verbose:
        print(f"built in {status['build_s']}s; make rc={status['make_rc']}", file=sys.stderr)
    return status


def vo_fresh(rel: str) -> bool:
    """A file counts as compiled when its .vo exists and is not older than its own source or the source of
    anything it depends on (a failed recompilation leaves a stale .vo behind)."""
    for f in dep_closure(rel):
        vo = (COQ / f).with_suffix(".vo")
        if not vo.exists():
            return False
    top = (COQ / rel).with_suffix(".vo").stat().st_mtime
    return all((COQ / f).stat().st_mtime <= top + 1e-6 for f in dep_closure(rel))


def parse_assumptions(_make_stdout: str) -> dict[str, list[str]]:
    """props/Cxx.v end with `Redirect "Cxx.assumptions" Print Assumptions <theorem>.` (one per theorem);
    coqc writes coq/Cxx.assumptions*.out."""
    out: dict[str, list[str]] = {}
    for f in sorted(COQ.glob("C*.assumptions*.out")):
        pid = f.name.split(".")[0]
        txt = " ".join(f.read_text().split())
        out.setdefault(pid, []).append(txt)
    return out


# ----------------------------------------------------------------------------------------------
# model driver (extracted OCaml) -- a persistent subprocess, one s-expression per line


class ModelStalled(RuntimeError):
    def __init__(self, req: str, done: int, total: int) -> None:
        super().__init__(f"the extracted model did not answer request {done + 1} of {total} in time: {req[:300]}")
        self.req = req


class Model:
    def __init__(self) -> None:
        self.p = subprocess.Popen(
            [str(BUILD / "dldriver")], stdin=subprocess.PIPE, stdout=subprocess.PIPE, text=True, bufsize=1
        )

    def ask(self, req: str) -> str:
        assert "\n" not in req
        self.p.stdin.write(req + "\n")
        self.p.stdin.flush()
        return self.p.stdout.readline().rstrip("\n")

    def ask_many(self, reqs: list[str]) -> list[str]:
        """Batch through a fresh process (no pipe deadlocks on large batches).  The driver answers line by line; when no
        answer arrives for VERIF_MODEL_STALL_S seconds the request it is working on is beyond what the extracted model's binary
        arithmetic can do in reasonable time (generators keep below that bound, DESIGN 10; this is the safety net):
        ModelStalled names it, and harness/main.py repeats the run with other generated inputs."""
        import select
        import threading

        if not reqs:
            return []
        stall = float(os.environ.get("VERIF_MODEL_STALL_S", "300"))
        p = subprocess.Popen([str(BUILD / "dldriver")], stdin=subprocess.PIPE, stdout=subprocess.PIPE, stderr=subprocess.DEVNULL)
        data = ("\n".join(reqs) + "\n").encode()

        def feed() -> None:
            try:
                p.stdin.write(data)
                p.stdin.close()
            except (BrokenPipeError, OSError):
                pass

        th = threading.Thread(target=feed, daemon=True)
        th.start()
        buf, out = b"", []
        fd = p.stdout.fileno()
        try:
            while True:
                ready, _, _ = select.select([fd], [], [], stall)
                if not ready:
                    p.kill()
                    raise ModelStalled(reqs[len(out)] if len(out) < len(reqs) else "?", len(out), len(reqs))
                chunk = os.read(fd, 1 << 20)
                if not chunk:
                    break
                buf += chunk
                *lines, buf = buf.split(b"\n")
                out += [ln.decode() for ln in lines]
        finally:
            if p.poll() is None and len(out) < len(reqs):
                p.kill()
            p.wait()
        if len(out) != len(reqs):
            raise RuntimeError(f"driver answered {len(out)} lines for {len(reqs)} requests")
        return out

    def close(self) -> None:
        try:
            self.p.stdin.close()
            self.p.wait(timeout=5)
        except Exception:  # noqa: BLE001
            self.p.kill()


class ImplWorker:
    """Runs implementation-side tasks in a child interpreter; a task that does not answer within its
    timeout is reported as {"__timeout__": True} and the child is replaced."""

    def __init__(self, module: str, start_timeout: float = 240.0) -> None:
        self.module = module
        self.start_timeout = start_timeout
        self.p = None
        self.buf = b""
        self.restarts = 0
        self._start()

    def _readline(self, timeout: float) -> str | None:
        """One line from the child's stdout or None on timeout / EOF (own buffering: select-safe)."""
        import select

        deadline = time.time() + timeout
        fd = self.p.stdout.fileno()
        while b"\n" not in self.buf:
            left = deadline - time.time()
            if left <= 0:
                return None
            r, _, _ = select.select([fd], [], [], left)
            if not r:
                return None
            chunk = os.read(fd, 1 << 16)
            if not chunk:
                return None
            self.buf += chunk
        line, self.buf = self.buf.split(b"\n", 1)
        return line.decode()

    def _start(self) -> None:
        self.buf = b""
        self.p = subprocess.Popen(
            [PY, "-m", "harness.worker", self.module], stdin=subprocess.PIPE, stdout=subprocess.PIPE,
            stderr=subprocess.DEVNULL, env=dict(os.environ), cwd=str(VERIF),
        )
        if self._readline(self.start_timeout) != "READY":
            raise RuntimeError(f"worker for {self.module} did not start")

    def _restart(self) -> None:
        try:
            self.p.kill()
            self.p.wait()
        except Exception:  # noqa: BLE001
            pass
        self.restarts += 1
        self._start()

    def call(self, func: str, arg, timeout: float = 20.0):
        return self.call_many(func, [arg], timeout=timeout, max_timeouts=1)[0]

    def call_many(self, func: str, args: list, timeout: float = 10.0, max_timeouts: int = 3) -> list:
        """Results in order; a task that does not answer in time is marked {"__timeout__": True} and the
        child replaced; after max_timeouts of those the rest is not run ({"__skipped__": True})."""
        import threading

        results: list = []
        n_timeouts = 0
        i = 0
        while i < len(args):
            proc = self.p
            data = "".join(json.dumps({"f": func, "a": a}) + "\n" for a in args[i:]).encode()

            def feed(proc=proc, data=data) -> None:
                try:
                    proc.stdin.write(data)
                    proc.stdin.flush()
                except Exception:  # noqa: BLE001
                    pass

            th = threading.Thread(target=feed, daemon=True)
            th.start()
            broke = False
            while i < len(args):
                line = self._readline(timeout)
                if line is None:
                    results.append({"__timeout__": True})
                    i += 1
                    n_timeouts += 1
                    self._restart()
                    broke = True
                    if n_timeouts >= max_timeouts:
                        results += [{"__skipped__": True}] * (len(args) - i)
                        i = len(args)
                    break
                d = json.loads(line)
                results.append(d if "__error__" in d else d["r"])
                i += 1
            th.join(timeout=5)
            if not broke:
                break
        return results

    def close(self) -> None:
        try:
            self.p.stdin.close()
            self.p.wait(timeout=10)
        except Exception:  # noqa: BLE001
            self.p.kill()


def sx_str(s: str) -> str:
    return "s" + s.encode("latin-1").hex()


def sx_int(n: int) -> str:
    return ("-" if n < 0 else "") + bin(abs(n))[2:]


def sx_bool(b: bool) -> str:
    return "T" if b else "F"


def sx_scope(sc: dict[str, int]) -> str:
    return "(" + " ".join(f"({sx_str(k)} {sx_int(v)})" for k, v in sc.items()) + ")"


def unhex(a: str) -> str:
    assert a.startswith("s"), a
    return bytes.fromhex(a[1:]).decode("latin-1")


def unbin(a: str) -> int:
    return int(a, 2)


# ----------------------------------------------------------------------------------------------
# known findings, replays, evidence


def load_findings() -> list[dict]:
    p = VERIF / "known_findings.json"
    if not p.exists():
        return []
    return json.loads(p.read_text()).get("findings", [])


class Report:
    """Collects what one check run covered and decides the exit status."""

    def __init__(self, prop: str, tier: str, seed: int) -> None:
        self.prop, self.tier, self.seed = prop, tier, seed
        self.t0 = time.time()
        self.evaluations = 0
        self.distinct: set = set()
        self.samples: list = []
        self.violations: list[dict] = []
        self.disagreements: list[dict] = []  # correspondence broken, no spec violation shown
        self.known_hits: dict[str, dict] = {}
        self.dist: dict[str, int] = {}
        self.notes: list[str] = []
        self.streams: dict[str, int] = {}
        self.rule = ""
        self.exhaustive = False
        self.findings = [f for f in load_findings() if f.get("property") == prop and f.get("status") == "known"]

    def count(self, key: str, n: int = 1) -> None:
        self.dist[key] = self.dist.get(key, 0) + n

    def case(self, key, sample=None, nontrivial: bool = True) -> None:
        self.evaluations += 1
        if nontrivial:
            self.distinct.add(key if isinstance(key, (str, int, tuple)) else json.dumps(key, sort_keys=True, default=str))
        if sample is not None and len(self.samples) < 6:
            self.samples.append(sample)

    def known(self, fid: str, what: dict) -> bool:
        """Record a hit of a listed known finding; returns False if fid is not listed."""
        for f in self.findings:
            if f["id"] == fid:
                self.known_hits.setdefault(fid, {"finding": f, "example": what, "count": 0})["count"] += 1
                return True
        return False

    def violation(self, what: dict) -> None:
        if len(self.violations) < 5000:
            self.violations.append(what)
        self.count("violations")

    def disagreement(self, what: dict) -> None:
        if len(self.disagreements) < 5000:
            self.disagreements.append(what)
        self.count("disagreements")

    def many_violations(self) -> bool:
        """Checks may stop early once plenty of failing inputs are in hand."""
        return len(self.violations) >= 200

    def finish(self, proof: dict | None, extra: dict | None = None) -> int:
        """Write evidence, print KNOWN-FINDING / VIOLATION lines, return the exit code."""
        EVIDENCE.mkdir(exist_ok=True)
        for hit in self.known_hits.values():
            print(f"KNOWN-FINDING: property={self.prop} {hit['finding']['what']} (seen {hit['count']}x this run)")
        rc = 0
        replay_path = None
        # smallest failing inputs first: the replay file keeps the 20 shortest of each kind
        keyf = lambda d: len(json.dumps(d, default=str))  # noqa: E731
        self.violations = sorted(self.violations, key=keyf)[:20]
        self.disagreements = sorted(self.disagreements, key=keyf)[:20]
        proof_broken = proof is not None and not proof.get("compiled", False)
        if self.violations or self.disagreements or proof_broken:
            REPLAYS.mkdir(exist_ok=True)
            payload = {
                "property": self.prop,
                "seed": self.seed,
                "tier": self.tier,
                "violations": self.violations,
                "correspondence_disagreements": self.disagreements,
                "theorem": proof,
            }
            digest = hashlib.sha256(json.dumps(payload, sort_keys=True, default=str).encode()).hexdigest()[:12]
            replay_path = REPLAYS / f"{self.prop}-{digest}.json"
            if self.violations:
                payload["kind"] = "failing-input"
                suffix = ""
            else:
                payload["kind"] = "no-failing-input-found"
                payload["no_longer_checks"] = (
                    f"theorem file coq/props/{self.prop}.v does not compile" if proof_broken else "correspondence between coq/model and /repo"
                )
                suffix = " no-failing-input-found"
            replay_path.write_text(json.dumps(payload, indent=1, default=str))
            print(f"VIOLATION property={self.prop} replay={replay_path}{suffix}")
            rc = 1
        cov: dict = {
            "evaluations": self.evaluations,
            "distinct_nontrivial": len(self.distinct),
            "rule": self.rule,
            "samples": self.samples or [{"note": "no cases"}],
            "exhaustive": self.exhaustive,
            "distribution": dict(sorted(self.dist.items())),
            "streams": self.streams,
            "disagreements_checked": len(self.disagreements),
            "known_findings_hit": {k: v["count"] for k, v in self.known_hits.items()},
        }
        if proof is not None:
            cov.update(
                {
                    "obligations": proof.get("obligations", 0),
                    "discharged": proof.get("discharged", 0),
                    "checker_cmd": proof.get("checker_cmd", ""),
                    "trusted_base": proof.get("trusted_base", []),
                    "theorems": proof.get("theorems", []),
                    "print_assumptions": proof.get("assumptions", []),
                }
            )
        if extra:
            cov.update(extra)
        ch = changed_sources()
        cov["source_changed_since_baseline"] = ch
        cov["depth"] = ("quick x4 (source differs from source_baseline.json)" if ch and self.tier == "quick" else self.tier)
        ev = {
            "property_id": self.prop,
            "tier": self.tier,
            "seed": self.seed,
            "level": "proof",
            "coverage": cov,
            "assumptions": self.notes,
            "wall_s": round(time.time() - self.t0, 2),
            "violations": len(self.violations) + (1 if (self.disagreements or proof_broken) and not self.violations else 0),
        }
        tmp = EVIDENCE / f"{self.prop}.json.tmp"
        tmp.write_text(json.dumps(ev, indent=1, default=str))
        tmp.replace(EVIDENCE / f"{self.prop}.json")
        return rc


TRUSTED_BASE_COMMON = [
    "Coq 8.16.1 kernel (coqc); vm_compute for finite theorems and witnesses; no native_compute",
    "extraction: ExtrOcamlBasic + ExtrOcamlString directives only, Z/positive/nat stay inductive; ocaml/driver.ml (parser/printers)",
    "correspondence harness /verif/harness (generators, program synthesis via exec, canonicalisation)",
    "modelled, not verified: Python int arithmetic, math.isqrt, str.split, str.isnumeric on ASCII, dict insertion order, zip(strict), typing.get_type_hints order, inspect.Signature.bind, numpy/torch dtype ==, pydantic field-order validation",
]


def proof_status(prop: str, build: dict) -> dict:
    """Obligations = Theorem/Lemma/Corollary/Example statements in the coqdep closure of props/<prop>.v."""
    info = build.get("props", {}).get(prop, {"compiled": False, "assumptions": []})
    closure = dep_closure(f"props/{prop}.v")
    n = 0
    theorems = []
    for f in closure:
        src = (COQ / f).read_text()
        for line in src.splitlines():
            ls = line.lstrip()
            for kw in ("Theorem ", "Lemma ", "Corollary ", "Example ", "Fact "):
                if ls.startswith(kw):
                    n += 1
                    if f.startswith("props/"):
                        theorems.append(ls.split(":")[0].strip())
    compiled = bool(info.get("compiled")) and vo_fresh(f"props/{prop}.v")
    return {
        "compiled": compiled,
        "obligations": n,
        "discharged": n if compiled else 0,
        "checker_cmd": f"cd /verif/coq && coq_makefile -f _CoqProject.gen -o Makefile && make -k -j{NCPU}  (full .vo build; props/{prop}.v ends with Print Assumptions)",
        "assumptions": info.get("assumptions", []),
        "theorems": theorems,
        "closure": closure,
        "trusted_base": TRUSTED_BASE_COMMON + ["Print Assumptions: " + " | ".join(info.get("assumptions", [])[:12])],
    }


def dep_closure(rel: str) -> list[str]:
    """Transitive DL.* dependencies of a file inside coq/ (by scanning Require lines)."""
    index: dict[str, str] = {}
    for f in coq_files():
        index[Path(f).stem] = f
    seen: list[str] = []

    def visit(f: str) -> None:
        if f in seen or not (COQ / f).exists():
            return
        seen.append(f)
        for line in (COQ / f).read_text().splitlines():
            ls = line.strip()
            if ls.startswith("From DL Require"):
                for name in ls.replace(".", " ").split()[4:]:
                    if name in index:
                        visit(index[name])

    visit(rel)
    return seen
