"""Source tie: the operator tables and operator semantics of /repo are TRANSLATED from the Python source (ast) into
coq/gen/GenSrc.v on every run; proofs/SourceTie.v proves that they agree with the hand-written model (prec order,
operator classes, operator strings, evaluate / evaluate_unary, the symbolic classes' precedence, printed operator
and constant folding).  A change of one of these tables or formulas therefore breaks a theorem of the property
files that import SourceTie (C05, C18) without any input having to reach it.

Fail-soft on purpose: when the source no longer has the shape the translator understands (an unknown expression, a
renamed table), GenSrc.v is emitted with `src_translated := false` and the model's own definitions, the theorems
hold trivially, and the evidence says that the source tie was unavailable for this run - a rewrite is not a verdict;
the behavioural correspondence (sampled four times as deep on a changed tree) then decides alone.
"""

from __future__ import annotations

import ast
from pathlib import Path

from harness.common import COQ, REPO
from harness.tables import write_if_changed

OPS = ["ADD", "SUB", "MUL", "EXP", "DIV", "MIN", "MAX", "ISQRT"]


class Untranslatable(Exception):
    pass


def _member(node) -> str:
    """`_DLTypeOperator.X` / `_DLTypeGroupToken.LPAREN` -> 'X' / 'LPAREN'."""
    if isinstance(node, ast.Attribute) and isinstance(node.value, ast.Name) and node.value.id in ("_DLTypeOperator", "_DLTypeGroupToken"):
        return node.attr
    raise Untranslatable(ast.dump(node)[:80])


def _arith(node, env: dict[str, str]) -> str:
    """An int-valued Python expression over the names in env -> a Coq term of type `res Z`."""
    if isinstance(node, ast.BinOp):
        l, r = _pure(node.left, env), _pure(node.right, env)
        if isinstance(node.op, ast.Add):
            return f"Ok ({l} + {r})%Z"
        if isinstance(node.op, ast.Sub):
            return f"Ok ({l} - {r})%Z"
        if isinstance(node.op, ast.Mult):
            return f"Ok ({l} * {r})%Z"
        if isinstance(node.op, ast.FloorDiv):
            return f"(if ({r} =? 0)%Z then Err ZeroDivErr else Ok ({l} / {r})%Z)"
        if isinstance(node.op, ast.Pow):
            return f"(if (0 <=? {r})%Z then Ok ({l} ^ {r})%Z else Err Unmodelled)"      # a bare ** (a float for a negative exponent)
        raise Untranslatable(ast.dump(node.op))
    if isinstance(node, ast.Call):
        f = node.func
        if isinstance(f, ast.Name) and f.id in ("min", "max") and len(node.args) == 2 and not node.keywords:
            return f"Ok (Z.{f.id} {_pure(node.args[0], env)} {_pure(node.args[1], env)})"
        if isinstance(f, ast.Name) and f.id == "int" and len(node.args) == 1 and isinstance(node.args[0], ast.BinOp) and isinstance(node.args[0].op, ast.Pow):
            return f"eval_pow {_pure(node.args[0].left, env)} {_pure(node.args[0].right, env)}"   # int(a**b): Eval.eval_pow
        if isinstance(f, ast.Attribute) and isinstance(f.value, ast.Name) and f.value.id == "math" and f.attr == "isqrt" and len(node.args) == 1:
            return f"eval_un {_pure(node.args[0], env)}"                                           # math.isqrt: Eval.eval_un
    raise Untranslatable(ast.unparse(node)[:80])


def _pure(node, env: dict[str, str]) -> str:
    if isinstance(node, ast.Name) and node.id in env:
        return env[node.id]
    # self._lhs.value / self._rhs.value / self._axis.value in the symbolic classes
    if isinstance(node, ast.Attribute) and node.attr == "value" and isinstance(node.value, ast.Attribute) and isinstance(node.value.value, ast.Name) \
            and node.value.value.id == "self" and node.value.attr in env:
        return env[node.value.attr]
    raise Untranslatable(ast.unparse(node)[:80])


def _find(tree, kind, name):
    for n in ast.walk(tree):
        if isinstance(n, kind) and getattr(n, "name", None) == name:
            return n
    raise Untranslatable(f"{name} not found")


def _assigned(tree, name):
    for n in tree.body:
        if isinstance(n, ast.AnnAssign) and isinstance(n.target, ast.Name) and n.target.id == name and n.value is not None:
            return n.value
        if isinstance(n, ast.Assign) and len(n.targets) == 1 and isinstance(n.targets[0], ast.Name) and n.targets[0].id == name:
            return n.value
    raise Untranslatable(f"{name} not assigned at module level")


def _if_chain(fn: ast.FunctionDef, env):
    """`if self is _DLTypeOperator.X: return <expr>` ... `raise NotImplementedError` -> {X: coq term}."""
    out = {}
    for st in fn.body:
        if isinstance(st, ast.Expr) and isinstance(st.value, ast.Constant):
            continue  # docstring
        if isinstance(st, ast.If) and isinstance(st.test, ast.Compare) and len(st.test.ops) == 1 and isinstance(st.test.ops[0], (ast.Is, ast.Eq)) \
                and isinstance(st.test.left, ast.Name) and st.test.left.id == "self" and len(st.body) == 1 and isinstance(st.body[0], ast.Return) and not st.orelse:
            m = _member(st.test.comparators[0])
            if m in out:
                raise Untranslatable(f"{m} handled twice")
            out[m] = _arith(st.body[0].value, env)
            continue
        if isinstance(st, ast.Raise):
            break
        raise Untranslatable(ast.unparse(st)[:80])
    return out


def _set_of(node) -> set[str]:
    """frozenset({members}) | frozenset(a.union(b)) over earlier sets is not needed: only literal sets are translated."""
    if isinstance(node, ast.Call) and isinstance(node.func, ast.Name) and node.func.id == "frozenset" and len(node.args) == 1 and isinstance(node.args[0], ast.Set):
        return {_member(e) for e in node.args[0].elts}
    raise Untranslatable(ast.unparse(node)[:80])


def translate_parser(src: str) -> dict:
    tree = ast.parse(src)
    enum = _find(tree, ast.ClassDef, "_DLTypeOperator")
    values = {}
    for st in enum.body:
        if isinstance(st, ast.Assign) and len(st.targets) == 1 and isinstance(st.targets[0], ast.Name) and isinstance(st.value, ast.Constant) and isinstance(st.value.value, str):
            values[st.targets[0].id] = st.value.value
    if sorted(values) != sorted(OPS):
        raise Untranslatable(f"operators are {sorted(values)}")
    ev = _if_chain(_find(enum, ast.FunctionDef, "evaluate"), {"a": "a", "b": "b"})
    un = _if_chain(_find(enum, ast.FunctionDef, "evaluate_unary"), {"a": "a"})
    pd = _assigned(tree, "_op_precedence")
    if not isinstance(pd, ast.Dict):
        raise Untranslatable("_op_precedence is not a dict display")
    prec = {}
    for k, v in zip(pd.keys, pd.values):
        if not (isinstance(v, ast.Constant) and isinstance(v.value, int) and v.value >= 0):
            raise Untranslatable("precedence value")
        prec[_member(k)] = v.value
    if sorted(prec) != sorted(OPS + ["LPAREN"]):
        raise Untranslatable(f"precedence keys {sorted(prec)}")
    unary = _set_of(_assigned(tree, "_unary_functions"))
    binary = _set_of(_assigned(tree, "_binary_functions"))
    infix = _set_of(_assigned(tree, "_infix_operators"))
    rx = _assigned(tree, "_VALID_IDENTIFIER_RX")
    if not (isinstance(rx, ast.Call) and len(rx.args) == 1 and isinstance(rx.args[0], ast.Constant)):
        raise Untranslatable("identifier regex")
    return {"values": values, "evaluate": ev, "unary": un, "prec": prec, "unary_set": unary, "binary_set": binary, "infix_set": infix, "ident_rx": rx.args[0].value}


SYM_CLASSES = {"Add": "ADD", "Subtract": "SUB", "Multiply": "MUL", "Divide": "DIV", "Exp": "EXP", "Max": "MAX", "Min": "MIN"}


def translate_symbolic(src: str) -> dict:
    """Per operation class: _PRECEDENCE, the folding formula of two literal operands and the printed operator."""
    tree = ast.parse(src)
    out = {}
    for cname, op in SYM_CLASSES.items():
        cls = _find(tree, ast.ClassDef, cname)
        prec = None
        for st in cls.body:
            if isinstance(st, ast.Assign) and len(st.targets) == 1 and isinstance(st.targets[0], ast.Name) and st.targets[0].id == "_PRECEDENCE":
                if not (isinstance(st.value, ast.Constant) and isinstance(st.value.value, int)):
                    raise Untranslatable(f"{cname}._PRECEDENCE")
                prec = st.value.value
        s = _find(cls, ast.FunctionDef, "__str__")
        body = [b for b in s.body if not (isinstance(b, ast.Expr) and isinstance(b.value, ast.Constant))]
        if len(body) != 2 or not isinstance(body[0], ast.If) or not isinstance(body[1], ast.Return):
            raise Untranslatable(f"{cname}.__str__ shape")
        fold_ret = body[0].body[0]
        if not (len(body[0].body) == 1 and isinstance(fold_ret, ast.Return)):
            raise Untranslatable(f"{cname} folding branch")
        fv = fold_ret.value
        if isinstance(fv, ast.JoinedStr) and len(fv.values) == 1 and isinstance(fv.values[0], ast.FormattedValue):
            fold_expr = fv.values[0].value                      # f"{<expr>}"
        elif isinstance(fv, ast.Call) and isinstance(fv.func, ast.Name) and fv.func.id == "_const_str" and len(fv.args) == 1 and not fv.keywords:
            fold_expr = fv.args[0]                              # _const_str(<expr>): the constant printer (model: Symbolic.const_str)
        else:
            raise Untranslatable(f"{cname} folding branch")
        fold = _arith(fold_expr, {"_lhs": "a", "_rhs": "b"})
        js = body[1].value
        if not isinstance(js, ast.JoinedStr):
            raise Untranslatable(f"{cname} print branch")
        consts = [v.value for v in js.values if isinstance(v, ast.Constant)]
        nform = sum(1 for v in js.values if isinstance(v, ast.FormattedValue))
        if nform != 2:
            raise Untranslatable(f"{cname} prints {nform} operands")
        fvals = [v for v in js.values if isinstance(v, ast.FormattedValue)]

        def side(v) -> str:
            e = v.value
            if isinstance(e, ast.Attribute):        # {self._lhs}
                return e.attr
            if isinstance(e, ast.Call) and isinstance(e.func, ast.Attribute) and e.func.attr == "_operand_str":   # self._operand_str(self._lhs, is_rhs=False)
                kw = {k.arg: k.value.value for k in e.keywords if isinstance(k.value, ast.Constant)}
                a0 = e.args[0]
                return f"{a0.attr}:{'rhs' if kw.get('is_rhs') else 'lhs'}" if isinstance(a0, ast.Attribute) else "?"
            return "?"

        out[op] = {"prec": prec, "fold": fold, "text": consts, "sides": [side(v) for v in fvals]}
    return out


def _match(fn_name: str, args: str, table: dict, default: str) -> str:
    lines = [f"Definition {fn_name} (o:op) {args} :=", "  match o with"]
    for o in OPS:
        lines.append(f"  | {o} => {table.get(o, default)}")
    lines.append("  end.")
    return "\n".join(lines)


def regenerate() -> dict:
    """Writes coq/gen/GenSrc.v.  Returns {'translated': bool, 'why': ...}."""
    info: dict = {"translated": True}
    try:
        p = translate_parser((REPO / "dltype/_lib/_parser.py").read_text())
        s = translate_symbolic((REPO / "dltype/_lib/_symbolic_expressions.py").read_text())
        # shapes the Coq side relies on
        expect_text = {"ADD": ["+"], "SUB": ["-"], "MUL": ["*"], "DIV": ["/"], "EXP": ["^"]}
        for op, d in s.items():
            if op in expect_text:
                if d["sides"] != ["_lhs:lhs", "_rhs:rhs"]:
                    raise Untranslatable(f"{op} operand printing {d['sides']}")
            elif d["sides"] != ["_lhs", "_rhs"] or len(d["text"]) != 3:
                raise Untranslatable(f"{op} function printing {d['sides']} {d['text']}")
    except (Untranslatable, SyntaxError, OSError) as e:
        info = {"translated": False, "why": f"{type(e).__name__}: {e}"}
    b = lambda x: "true" if x else "false"  # noqa: E731
    L = ["(* GENERATED by harness/srctie.py from the Python source (ast) of /repo on every run - do not edit. *)",
         "From DL Require Import Base Eval Symbolic.", "#[local] Open Scope Z_scope.", ""]
    if info["translated"]:
        L.append("Definition src_translated : bool := true.")
        L.append(_match("src_op_string", ": string", {o: '"' + p["values"][o] + '"' for o in OPS}, '""'))
        L.append(_match("src_eval_bin", "(a b:Z) : res Z", p["evaluate"], "Err Unmodelled"))
        L.append(_match("src_eval_un_op", "(a:Z) : res Z", p["unary"], "Err Unmodelled"))
        L.append(_match("src_prec", ": nat", {o: f"{p['prec'][o]}%nat" for o in OPS}, "0%nat"))
        L.append(f"Definition src_prec_lparen : nat := {p['prec']['LPAREN']}%nat.")
        L.append(_match("src_is_unary", ": bool", {o: b(o in p["unary_set"]) for o in OPS}, "false"))
        L.append(_match("src_is_binfun", ": bool", {o: b(o in p["binary_set"]) for o in OPS}, "false"))
        L.append(_match("src_is_infix", ": bool", {o: b(o in p["infix_set"]) for o in OPS}, "false"))
        L.append('Definition src_ident_rx : string := "' + p["ident_rx"].replace('"', '""') + '".')
        # symbolic classes: precedence (None for the functions), folding, printed operator / function name
        L.append(_match("src_sym_prec", ": option nat", {o: (f"Some {s[o]['prec']}%nat" if s[o]["prec"] is not None else "None") for o in s}, "None"))
        L.append(_match("src_sym_fold", "(a b:Z) : res Z", {o: s[o]["fold"] for o in s}, "Err Unmodelled"))
        L.append(_match("src_sym_text", ": string", {o: '"' + ("".join(s[o]["text"]) if o in ("ADD", "SUB", "MUL", "DIV", "EXP") else s[o]["text"][0].rstrip("(")) + '"' for o in s}, '"isqrt"'))
    else:
        why = info["why"].replace("*)", "* )")
        L.append(f"(* the source could not be translated: {why} *)")
        L.append("Definition src_translated : bool := false.")
        L += ["Definition src_op_string := op_str.", "Definition src_eval_bin := eval_bin.",
              "Definition src_eval_un_op (o:op) (a:Z) : res Z := match o with ISQRT => eval_un a | _ => Err Unmodelled end.",
              "Definition src_prec := prec.", "Definition src_prec_lparen := prec_lparen.", "Definition src_is_unary := is_unary.",
              "Definition src_is_binfun := is_binfun.", "Definition src_is_infix := is_infix.",
              'Definition src_ident_rx : string := "^[a-zA-Z][a-zA-Z0-9\\_]*$".',
              "Definition src_sym_prec (o:op) : option nat := if is_infix o then Some (prec o) else None.",
              "Definition src_sym_fold (o:op) (a b:Z) : res Z := match o with ISQRT => Err Unmodelled | _ => fold_bin o a b end.",
              "Definition src_sym_text := op_str."]
    info["changed"] = write_if_changed(COQ / "gen" / "GenSrc.v", "\n".join(L) + "\n")
    return info


if __name__ == "__main__":
    print(regenerate())
    print(Path(COQ / "gen" / "GenSrc.v").read_text())
