"""Run in a fresh interpreter: python -m harness.probe_config <masked,modules> -> JSON on stdout.

Masks top-level modules with a sys.meta_path finder (ModuleNotFoundError, as if not installed), imports
dltype and reports what a user of that installation observes."""

from __future__ import annotations

import importlib.abc
import json
import sys
import warnings

warnings.simplefilter("ignore")
MASK = {m for m in sys.argv[1].split(",") if m}
if "numpy" in MASK:
    # jaxlib's extension module aborts the interpreter when numpy cannot be imported: an installation with
    # jax but without numpy does not exist, so jax is masked together with numpy
    MASK.add("jax")


import os  # noqa: E402

BROKEN = os.environ.get("VERIF_MASK_MODE") == "importerror"   # installed but broken: a plain ImportError (missing shared library, ...)


class _Finder(importlib.abc.MetaPathFinder):
    def find_spec(self, name, path, target=None):  # noqa: ANN001, ANN201
        if name.split(".")[0] in MASK:
            if BROKEN:
                raise ImportError(f"cannot import {name!r}: libsomething.so: cannot open shared object file (masked)")
            raise ModuleNotFoundError(f"No module named {name!r} (masked)", name=name)
        return None


sys.meta_path.insert(0, _Finder())
out: dict = {"masked": sorted(MASK)}
for lib in ("numpy", "torch", "jax"):
    try:
        __import__(lib)
        out["has_" + lib] = True
    except Exception as e:  # noqa: BLE001
        out["has_" + lib] = False
        out["why_" + lib] = type(e).__name__
try:
    import dltype

    out["import"] = "ok"
except ImportError as e:
    out["import"] = "ImportError"
    out["msg"] = str(e)[:200]
except BaseException as e:  # noqa: BLE001
    out["import"] = type(e).__name__
    out["msg"] = str(e)[:200]
TORCH_DT = {"bool": "bool", "i8": "int8", "i16": "int16", "i32": "int32", "i64": "int64", "u8": "uint8", "u16": "uint16",
            "u32": "uint32", "u64": "uint64", "f16": "float16", "bf16": "bfloat16", "f32": "float32", "f64": "float64",
            "c64": "complex64", "c128": "complex128"}
NP_DT = {"bool": "bool_", "i8": "int8", "i16": "int16", "i32": "int32", "i64": "int64", "u8": "uint8", "u16": "uint16",
         "u32": "uint32", "u64": "uint64", "f16": "float16", "f32": "float32", "f64": "float64", "longdouble": "longdouble",
         "c64": "complex64", "c128": "complex128"}
CLASSES = ["TensorTypeBase", "FloatTensor", "Float16Tensor", "IEEE754HalfFloatTensor", "BFloat16Tensor", "Float32Tensor",
           "Float64Tensor", "DoubleTensor", "IntTensor", "SignedIntTensor", "UnsignedIntTensor", "Int8Tensor", "Int16Tensor",
           "Int32Tensor", "Int64Tensor", "UInt8Tensor", "UInt16Tensor", "UInt32Tensor", "UInt64Tensor", "BoolTensor"]


class I:  # the few helpers of harness.impl that must work without numpy
    TENSOR_CLASSES = CLASSES

    @staticmethod
    def dtok_of_entry(e) -> str:  # noqa: ANN001
        torch = sys.modules.get("torch") if out["has_torch"] else None
        np = sys.modules.get("numpy") if out["has_numpy"] else None
        if torch is not None and isinstance(e, torch.dtype):
            for k, v in TORCH_DT.items():
                if getattr(torch, v) is e:
                    return "T:" + k
            return "T:other"
        if np is not None:
            try:
                d = np.dtype(e)
                for k, v in NP_DT.items():
                    if d == np.dtype(getattr(np, v)):
                        return "N:" + k
            except Exception:  # noqa: BLE001
                pass
        return "N:other"

    @staticmethod
    def mk_array(lib: str, dt: str, shape):  # noqa: ANN001, ANN205
        if lib == "np":
            import numpy as np

            return np.zeros(shape, dtype=np.float32)
        if lib == "torch":
            import torch

            return torch.zeros(shape, dtype=torch.float32)
        import jax.numpy as jnp

        return jnp.zeros(shape, dtype=jnp.float32)


if out["import"] == "ok":
    out["supported"] = sorted(t.__module__.split(".")[0] for t in dltype.SUPPORTED_TENSOR_TYPES)
    cls = {}
    for c in I.TENSOR_CLASSES:
        k = getattr(dltype, c, "missing")
        cls[c] = None if k is None else ("missing" if k == "missing" else [I.dtok_of_entry(e) for e in k.DTYPES])
    out["classes"] = cls
    # checking works for the libraries that are present: one accepted and one rejected call each
    works = {}
    for lib in ("np", "torch", "jax"):
        if not out["has_" + {"np": "numpy", "torch": "torch", "jax": "jax"}[lib]]:
            continue
        try:
            from typing import Annotated

            x = I.mk_array(lib, "f32", (2, 3))
            base = {"np": "numpy.ndarray", "torch": "torch.Tensor", "jax": "jax.Array"}[lib]
            mod, attr = base.rsplit(".", 1)
            T = getattr(sys.modules[mod], attr)

            def f(a):  # noqa: ANN001, ANN202
                return a

            f.__annotations__ = {"a": Annotated[T, dltype.Float32Tensor["a b"]], "return": Annotated[T, dltype.Float32Tensor["a 3"]]}
            g = dltype.dltyped()(f)
            r1 = "accept"
            try:
                g(x)
            except BaseException as e:  # noqa: BLE001
                r1 = type(e).__name__
            r2 = "accept"
            try:
                g(I.mk_array(lib, "f32", (2, 4)))
            except BaseException as e:  # noqa: BLE001
                r2 = type(e).__name__
            works[lib] = [r1, r2]
            # ... and through the other entry points: dataclass, NamedTuple, pydantic model (when pydantic is there)
            import dataclasses
            from typing import NamedTuple

            forms = {}
            TA = Annotated[T, dltype.Float32Tensor["a 3"]]
            DC = dltype.dltyped_dataclass()(dataclasses.make_dataclass("DC", [("x", TA)]))
            NT = dltype.dltyped_namedtuple()(NamedTuple("NT", [("x", TA)]))
            ctors = {"dataclass": DC, "namedtuple": NT}
            try:
                import pydantic

                ctors["pydantic"] = lambda v: pydantic.create_model("PM", __config__=pydantic.ConfigDict(arbitrary_types_allowed=True), x=(TA, ...))(x=v)  # noqa: E731
            except ImportError:
                pass
            for fname, ctor in ctors.items():
                res = []
                for shape in ((2, 3), (2, 4)):
                    try:
                        ctor(I.mk_array(lib, "f32", shape))
                        res.append("accept")
                    except BaseException as e:  # noqa: BLE001
                        res.append(type(e).__name__)
                forms[fname] = res
            out.setdefault("forms", {})[lib] = forms
        except BaseException as e:  # noqa: BLE001
            works[lib] = ["harness:" + type(e).__name__ + ":" + str(e)[:80]]
    out["works"] = works
print("PROBE " + json.dumps(out))
