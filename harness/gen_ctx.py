"""Generator of checked contexts (annotated signatures + argument/return values) with a specification-level
reference verdict.  A context is generated from a chosen assignment (rho for names, gamma for *groups), so
that conforming inputs exist by construction; perturbations are then applied to it."""

from __future__ import annotations

import copy
import random

from harness import gen_expr as G
from harness.impl import H_ann, H_opt, H_PLAIN, H_tuple, SHARED_DT, V_NONE, V_OTHER, V_arr, V_tup, available

SIZES = [0, 1, 2, 3, 5, 7]
BIG_SIZES = [257, 300, 1000]
MAX_ELEMS = 500_000   # cases with a larger array are generated again (memory)
SPELLINGS = ["Optional", "T|None", "None|T", "Union[None,T]", "Union[T,None]"]
NAME_POOL = ["a", "b", "c", "d", "n_k", "max_len", "in"]   # incl. a Python keyword: dimension names are not Python names
GROUP_POOL = ["g", "bt", "a"]   # "a" is also a dimension name: sizes and group lengths live in different tables
CLASSES = {
    "TensorTypeBase": SHARED_DT,
    "FloatTensor": ["f16", "f32", "f64"],
    "IntTensor": ["i8", "i16", "i32", "i64", "u8", "u16", "u32", "u64"],
    "Int32Tensor": ["i32"],
    "BoolTensor": ["bool"],
    "Float32Tensor": ["f32"],
    "UInt8Tensor": ["u8"],
    "SignedIntTensor": ["i8", "i16", "i32", "i64"],
}


def _record(rnd, v: dict) -> dict:
    """Now and then the value given for a tuple hint is an instance of a tuple subclass (a namedtuple record)."""
    if rnd.random() < 0.2:
        v["record"] = True
    return v


def _plain(rnd) -> dict:
    """A hint dltype has nothing to say about: a bare type, or an Annotated[...] whose metadata is not a dltype annotation."""
    h = dict(H_PLAIN)
    if rnd.random() < 0.3:
        h["src"] = rnd.choice(["Annotated[int, 'meta']", "Annotated[int, 'meta', 3]", "typing.Any"])
    return h


OTHER_AS = ["tuple", "empty", "size", "shape", "record", "str", "list", "nested"]


def _plain_value(rnd) -> dict:
    """The value at such a position: an opaque object, or (a third of the time) something iterable / tuple-valued."""
    if rnd.random() < 0.35:
        return {"k": "other", "as": rnd.choice(OTHER_AS)}
    return V_OTHER


class Ctx:
    def __init__(self, rnd: random.Random, provider_names: dict[str, int] | None = None) -> None:
        self.rnd = rnd
        self.rho: dict[str, int] = dict(provider_names or {})
        self.bound: list[str] = list(provider_names or {})  # names usable inside expressions so far
        self.gamma: dict[str, tuple] = {}

    def name_value(self, x: str) -> int:
        if x not in self.rho:
            # now and then a size beyond CPython's small-int cache (value comparisons must not be identity comparisons)
            self.rho[x] = self.rnd.choice(BIG_SIZES) if self.rnd.random() < 0.06 else self.rnd.choice(SIZES)
        return self.rho[x]


def gen_small_expr(c: Ctx, allow_unbound: bool = False):
    """An expression over bound names whose value is a valid size (>= 0, defined); None if none found."""
    rnd = c.rnd
    names = c.bound if c.bound else None
    for _ in range(12):
        if names is None and not allow_unbound:
            e = G.gen_level(rnd, 1, rnd.choice([1, 2]), names=["zz"], lits=[0, 1, 2, 3, 4])
            if G.variables(e):
                continue
        else:
            e = G.gen_level(rnd, 1, rnd.choice([1, 1, 2]), names=names or NAME_POOL, lits=[0, 1, 2, 3, 4])
        if e[0] in ("lit", "var"):
            continue
        try:
            v = G.den(e, c.rho)
        except (G.Undefined, G.TooBig):
            continue
        if 0 <= v <= 12 or (0 <= v <= 2100 and any(c.rho.get(x, 0) > 12 for x in G.variables(e))):
            return e, v
    return None


def gen_dims(c: Ctx, ndims: int, allow_marker: bool = True):
    """Returns (dim specs, shape string parts, conforming sizes as list of lists (marker -> several))."""
    rnd = c.rnd
    dims = []
    marker_at = rnd.randrange(ndims) if (allow_marker and ndims > 0 and rnd.random() < 0.35) else None
    for i in range(ndims):
        if i == marker_at:
            if rnd.random() < 0.5:
                dims.append({"k": "anon", "s": "...", "sizes": [rnd.choice(SIZES) for _ in range(rnd.choice([0, 1, 2]))]})
            else:
                g = rnd.choice(GROUP_POOL)
                if g not in c.gamma:
                    c.gamma[g] = tuple(rnd.choice(SIZES) for _ in range(rnd.choice([0, 1, 1, 2])))
                dims.append({"k": "star", "x": g, "s": "*" + g, "sizes": list(c.gamma[g])})
            continue
        r = rnd.random()
        if r < 0.2:
            n = rnd.choice([1, 2, 3, 4]) if rnd.random() < 0.93 else rnd.choice([257, 512])
            dims.append({"k": "lit", "n": n, "s": str(n), "sizes": [n]})
        elif r < 0.55:
            x = rnd.choice(NAME_POOL)
            v = c.name_value(x)
            dims.append({"k": "name", "x": x, "s": x, "sizes": [v]})
            if x not in c.bound:
                c.bound.append(x)
        elif r < 0.67:
            x = rnd.choice(NAME_POOL)
            v = c.name_value(x)
            dims.append({"k": "namelit", "x": x, "n": v, "s": f"{x}={v}", "sizes": [v]})
            if x not in c.bound:
                c.bound.append(x)
        else:
            ge = gen_small_expr(c)
            if ge is None:
                x = rnd.choice(NAME_POOL)
                v = c.name_value(x)
                dims.append({"k": "name", "x": x, "s": x, "sizes": [v]})
                if x not in c.bound:
                    c.bound.append(x)
                continue
            e, v = ge
            if c.bound and rnd.random() < 0.12:
                # a named alias `x=y` of a bound name (a one-token expression under a name)
                y = rnd.choice(c.bound)
                if c.rho.get(y) is not None:
                    e, v = ("var", y), c.rho[y]
            if rnd.random() < 0.4 or e[0] == "var":
                fresh = [x for x in ["m", "out", "q"] + NAME_POOL if x not in c.rho or (c.rho[x] == v and x not in G.variables(e))]
                fresh = [x for x in fresh if x not in G.variables(e)]
                if fresh:
                    x = rnd.choice(fresh)
                    c.rho[x] = v
                    dims.append({"k": "nameexpr", "x": x, "e": e, "s": f"{x}={G.print_expr(e)}", "sizes": [v]})
                    if x not in c.bound:
                        c.bound.append(x)
                    continue
            dims.append({"k": "expr", "e": e, "s": G.print_expr(e), "sizes": [v]})
    return dims


def gen_tensor_hint(c: Ctx, libs: list[str]):
    rnd = c.rnd
    cls = rnd.choice(list(CLASSES))
    nd = rnd.choice([0, 1, 1, 2, 2, 3, 4])
    dims = gen_dims(c, nd)
    shape = None if nd == 0 and rnd.random() < 0.5 else (" ".join(d["s"] for d in dims) if nd > 0 else None)
    lib = rnd.choice(libs)
    h = H_ann(cls, shape, lib)
    h["dims"] = dims
    sizes = [s for d in dims for s in d["sizes"]]
    dt = rnd.choice([d for d in CLASSES[cls] if available(lib, d)])
    return h, V_arr(lib, dt, sizes)


def _elems(case: dict) -> int:
    m = 0
    for it in flatten(case):
        v = it["v"]
        if isinstance(v, dict) and v.get("k") == "arr":
            p = 1
            for t in v["shape"]:
                p *= max(int(t), 1)
            m = max(m, p)
    return m


def gen_case(rnd: random.Random, libs=("np",), with_provider: float = 0.25, with_ret: float = 0.5, tuples: float = 0.25,
             optionals: float = 0.2, plain: float = 0.2, opt_tuples: float = 0.0) -> dict:
    while True:
        c = _gen_case(rnd, libs, with_provider, with_ret, tuples, optionals, plain, opt_tuples)
        if _elems(c) <= MAX_ELEMS and reference(c).get("v") != "unknown":
            return c


def _maybe_optional_tuple(rnd, h: dict, p: float) -> dict:
    """typing.Optional[tuple[...]] / Union[tuple[...], None] around a tuple hint whose value is present: checked exactly as
    the tuple hint.  (The PEP 604 spelling `tuple[...] | None` is a types.UnionType the library does not look into, and None
    for such a hint is a plain TypeError - both outside the properties' quantifiers, DESIGN 8.)"""
    if rnd.random() < p:
        return {**H_opt(h), "spell": rnd.choice(["Optional", "Union[T,None]", "Union[None,T]"])}
    return h


def _gen_case(rnd: random.Random, libs=("np",), with_provider: float = 0.25, with_ret: float = 0.5, tuples: float = 0.25,
              optionals: float = 0.2, plain: float = 0.2, opt_tuples: float = 0.0) -> dict:
    prov = None
    pnames = {}
    if rnd.random() < with_provider:
        pnames = {x: rnd.choice(SIZES) for x in rnd.sample(NAME_POOL + ["unused"], rnd.choice([0, 1, 2]))}
        prov = {"kind": "free", "scope": pnames, "fresh": rnd.random() < 0.5}
    c = Ctx(rnd, pnames)
    params = []
    args = {}
    for i in range(rnd.choice([1, 1, 2, 2, 3, 4])):
        name = f"p{i}"
        r = rnd.random()
        if r < plain:
            params.append({"name": name, "hint": _plain(rnd)})
            args[name] = _plain_value(rnd)
            continue
        if r < plain + tuples:
            elts, vals = [], []
            for _ in range(rnd.choice([1, 2, 2, 3])):
                q = rnd.random()
                if q < 0.25:
                    elts.append(_plain(rnd))
                    vals.append(_plain_value(rnd))
                else:
                    h, v = gen_tensor_hint(c, list(libs))
                    if q < 0.45:
                        h = H_opt(h)
                        h["spell"] = rnd.choice(SPELLINGS)
                        if rnd.random() < 0.5:
                            v = V_NONE
                    elts.append(h)
                    vals.append(v)
            params.append({"name": name, "hint": _maybe_optional_tuple(rnd, H_tuple(elts), opt_tuples)})
            args[name] = _record(rnd, V_tup(vals))
            continue
        h, v = gen_tensor_hint(c, list(libs))
        if rnd.random() < optionals:
            h = H_opt(h)
            h["spell"] = rnd.choice(SPELLINGS)
            if rnd.random() < 0.5:
                v = V_NONE
        params.append({"name": name, "hint": h})
        args[name] = v
    case = {"form": "fn", "params": params, "args": args, "provider": prov, "ret": None, "retval": None}
    if rnd.random() < with_ret:
        if rnd.random() < 0.3:
            elts, vals = [], []
            for _ in range(rnd.choice([1, 2, 3])):
                if rnd.random() < 0.25:
                    elts.append(_plain(rnd))
                    vals.append(_plain_value(rnd))
                else:
                    h, v = gen_tensor_hint(c, list(libs))
                    elts.append(h)
                    vals.append(v)
            case["ret"], case["retval"] = _maybe_optional_tuple(rnd, H_tuple(elts), opt_tuples), _record(rnd, V_tup(vals))
        else:
            h, v = gen_tensor_hint(c, list(libs))
            case["ret"], case["retval"] = h, v
    case["rho"] = dict(c.rho)
    return case


# ---- items in checking order -----------------------------------------------------------------------------


def flatten(case: dict, phase: str = "all"):
    """[(report name, annotated hint (with dims) | None, optional?, value, path)] in source order.
    path locates the value inside case for perturbation: ("args", pname, idx|None) / ("retval", None, idx|None)."""
    out = []

    def one(name: str, h: dict, v, path):
        opt = False
        if h["k"] == "opt":
            opt, h = True, h["of"]
        if h["k"] == "ann":
            out.append({"name": name, "h": h, "opt": opt, "v": v, "path": path})

    def hint(pname: str, h: dict, v, root):
        if h["k"] == "opt" and h["of"]["k"] == "tuple":
            h = h["of"]          # Optional[tuple[...]] with a present value is the tuple hint
        if h["k"] == "tuple":
            elts = v["elts"] if isinstance(v, dict) and v.get("k") == "tup" else None
            for i, eh in enumerate(h["elts"]):
                ev = elts[i] if elts is not None and i < len(elts) else None
                one(pname if i == 0 else f"{pname}[{i}]", eh, ev, (*root, i))
        else:
            one(pname, h, v, (*root, None))

    if phase in ("all", "args"):
        for p in case["params"]:
            if p.get("hint") is not None:
                hint(p["name"], p["hint"], case["args"].get(p["name"], p.get("default")), ("args", p["name"]))
    if phase in ("all", "ret") and case.get("ret") is not None and case.get("retval") not in (None, "raise"):
        hint("return", case["ret"], case["retval"], ("retval", None))
    return out


def get_value(case: dict, path):
    root, pname, idx = path
    v = case["args"][pname] if root == "args" else case["retval"]
    return v if idx is None else v["elts"][idx]


def set_value(case: dict, path, newv) -> None:
    root, pname, idx = path
    if idx is None:
        if root == "args":
            case["args"][pname] = newv
        else:
            case["retval"] = newv
    else:
        (case["args"][pname] if root == "args" else case["retval"])["elts"][idx] = newv


# ---- the specification-level reference: is there one consistent assignment? -------------------------------


def reference(case: dict, phase: str = "all") -> dict:
    """First-come reading of the specification: a left-to-right pass is complete when every name used inside an
    expression is bound earlier (Ordered).  Returns {'v': 'accept'} | {'v': 'reject', 'why': ...} |
    {'v': 'undefined', 'why': ...} (an expression without arithmetic value / an unbound reference)."""
    prov = case.get("provider")
    rho = dict(prov["scope"]) if prov and prov.get("scope") != "bad" else {}
    gam: dict[str, tuple] = {}
    for it in flatten(case, phase):
        v, h = it["v"], it["h"]
        if v is None or v.get("k") == "none":
            if it["opt"]:
                continue
            return {"v": "reject", "why": f"{it['name']}: None for a non-optional hint"}
        if v.get("k") != "arr":
            return {"v": "reject", "why": f"{it['name']}: not an array"}
        dims = h["dims"]
        shape = v["shape"]
        markers = [i for i, d in enumerate(dims) if d["k"] in ("anon", "star")]
        n, r = len(dims), len(shape)
        if (markers and r < n - 1) or (not markers and r != n):
            return {"v": "reject", "why": f"{it['name']}: rank"}
        if v["dt"] not in CLASSES[h["cls"]]:
            return {"v": "reject", "why": f"{it['name']}: dtype"}
        # literal axes are compared before anything is bound (the per-tensor check comes first)
        k = r - (n - 1) if markers else 0
        aligned = []
        pos = 0
        for d in dims:
            if d["k"] in ("anon", "star"):
                aligned.append(list(range(pos, pos + k)))
                pos += k
            else:
                aligned.append([pos])
                pos += 1
        for d, ps in zip(dims, aligned):
            if d["k"] in ("lit", "namelit") and shape[ps[0]] != d["n"]:
                return {"v": "reject", "why": f"{it['name']}: literal axis {ps[0]}"}
        for d, ps in zip(dims, aligned):
            kind = d["k"]
            if kind in ("lit", "anon"):
                continue
            if kind == "star":
                tup = tuple(shape[p] for p in ps)
                if d["x"] in gam and gam[d["x"]] != tup:
                    return {"v": "reject", "why": f"{it['name']}: group {d['x']} {gam[d['x']]} vs {tup}"}
                gam.setdefault(d["x"], tup)
                continue
            size = shape[ps[0]]
            if kind in ("expr", "nameexpr"):
                try:
                    val = G.den(d["e"], rho)
                except G.Undefined as u:
                    return {"v": "undefined", "why": f"{it['name']}: {u.kind} {u.detail}", "kind": u.kind, "name": it["name"], "missing": u.detail,
                            "bound": sorted(rho)}
                except G.TooBig:
                    return {"v": "unknown", "why": "an intermediate value is beyond the resource bound of the reference", "kind": "TooBig"}
                if val != size:
                    return {"v": "reject", "why": f"{it['name']}: expression axis {ps[0]} = {val} vs {size}"}
            if kind in ("name", "namelit", "nameexpr"):
                x = d["x"]
                if x in rho and rho[x] != size:
                    return {"v": "reject", "why": f"{it['name']}: name {x} = {rho[x]} vs {size}"}
                rho.setdefault(x, size)
    return {"v": "accept"}


# ---- perturbations -----------------------------------------------------------------------------------------


def perturb(rnd: random.Random, case: dict, where: str | None = None) -> tuple[dict, str] | None:
    """One fault in one array (in an argument, or in the return value when where == 'ret')."""
    c = copy.deepcopy(case)
    items = [it for it in flatten(c) if it["v"] is not None and it["v"].get("k") == "arr"]
    if where == "ret":
        items = [it for it in items if it["path"][0] == "retval"]
    elif where == "args":
        items = [it for it in items if it["path"][0] == "args"]
    if not items:
        return None
    it = rnd.choice(items)
    v = copy.deepcopy(it["v"])
    kind = rnd.choice(["resize", "resize", "resize", "add", "drop", "dtype", "none", "other"])
    if kind == "resize" and v["shape"]:
        i = rnd.randrange(len(v["shape"]))
        v["shape"][i] = rnd.choice([s for s in SIZES + [4] if s != v["shape"][i]])
    elif kind == "add":
        v["shape"].insert(rnd.randrange(len(v["shape"]) + 1), rnd.choice(SIZES[1:]))
    elif kind == "drop" and v["shape"]:
        v["shape"].pop(rnd.randrange(len(v["shape"])))
    elif kind == "dtype":
        others = [d for d in SHARED_DT if d not in CLASSES[it["h"]["cls"]] and available(v["lib"], d)]
        if not others:
            return None
        v["dt"] = rnd.choice(others)
    elif kind == "none":
        v = dict(V_NONE)
    elif kind == "other":
        v = dict(V_OTHER)
    else:
        return None
    set_value(c, it["path"], v)
    if reference(c).get("v") == "unknown":
        return None   # a power beyond the resource bound under the new values: run nowhere (DESIGN 10)
    return c, f"{kind}@{it['name']}"


# ---- directed families ---------------------------------------------------------------------------------------


def _mk_sig(sig, arrays, ret=None, retval=None, provider=None):
    from harness.props.c01 import sig_case  # late import: c01 imports this module

    return sig_case(sig, arrays, ret=ret, retval=retval, provider=provider)


def rebound_cases(rnd: random.Random, n: int) -> list[dict]:
    """Conforming contexts in which a named expression `x=<e>` meets a name x that an earlier axis already bound
    (to the value of e): the one place where an axis has two demanded values.  The earlier binding comes from a
    plain axis, a named literal, a provider, or an earlier tensor of a tuple; the named expression sits in a later
    parameter, a later tuple element or the return annotation."""
    out = []
    while len(out) < n:
        names = rnd.sample(["a", "b", "c", "d"], rnd.choice([2, 3]))
        x, vs = names[0], names[1:]
        rho = {v: rnd.choice([1, 2, 3, 5]) for v in vs}
        e = None
        for _ in range(20):
            cand = G.gen_level(rnd, 1, rnd.choice([1, 2]), names=vs, lits=[0, 1, 2, 3]) if rnd.random() > 0.2 else ("var", rnd.choice(vs))
            if cand[0] == "lit" or not G.variables(cand):
                continue
            try:
                val = G.den(cand, rho)
            except (G.Undefined, G.TooBig):
                continue
            if 0 <= val <= 12:
                e = cand
                break
        if e is None:
            continue
        rho[x] = val
        first_dims = vs + [x]
        rnd.shuffle(first_dims)
        how = rnd.choice(["param", "param", "ret", "tuple", "provider", "namelit"])
        es = f"{x}={G.print_expr(e)}"
        extra = rnd.choice([[], [rnd.choice(vs)], ["2"]])
        second = extra + [es] if rnd.random() < 0.5 else [es] + extra
        sh2 = tuple((2 if t == "2" else rho[t]) if t != es else val for t in second)
        if how == "provider":
            c = _mk_sig([("p0", " ".join(vs)), ("p1", " ".join(second))], [tuple(rho[v] for v in vs), sh2],
                        provider={"kind": "free", "scope": {x: val}, "fresh": True})
        elif how == "namelit":
            fd = [f"{x}={val}" if t == x else t for t in first_dims]
            c = _mk_sig([("p0", " ".join(fd)), ("p1", " ".join(second))], [tuple(rho[t] for t in first_dims), sh2])
        elif how == "ret":
            c = _mk_sig([("p0", " ".join(first_dims))], [tuple(rho[t] for t in first_dims)], ret=" ".join(second), retval=sh2)
        elif how == "tuple":
            c = _mk_sig([("p0", (" ".join(first_dims), " ".join(second)))], [(tuple(rho[t] for t in first_dims), sh2)])
        else:
            c = _mk_sig([("p0", " ".join(first_dims)), ("p1", " ".join(second))], [tuple(rho[t] for t in first_dims), sh2])
        c["rho"] = dict(rho)
        out.append(c)
    return out


def all_resizes(case: dict, alts: int = 2) -> list[dict]:
    """Every single-axis resize of every array of the case (alts alternative sizes per axis, deterministic)."""
    out = []
    for it in flatten(case):
        v = it["v"]
        if v is None or v.get("k") != "arr":
            continue
        for i, s in enumerate(v["shape"]):
            for new in [t for t in (s + 1, max(s - 1, 0), s + 2) if t != s][:alts]:
                c = copy.deepcopy(case)
                nv = copy.deepcopy(v)
                nv["shape"][i] = new
                set_value(c, it["path"], nv)
                out.append(c)
    return out


def returns_argument_cases(rnd: random.Random, n: int) -> list[dict]:
    """f(x: H1) -> H2 whose body returns x itself; H2 is H1 or a one-step variation of it (a `*g` turned into a plain `g`
    or the other way round, a renamed / dropped / added axis, another literal, another class), and x conforms to H1 with any
    rank its marker allows.  The return value is the argument object, so whatever H2 demands is demanded of the same array."""
    out = []
    while len(out) < n:
        nd = rnd.choice([1, 2, 2, 3])
        names = rnd.sample(["a", "b", "c", "g"], nd)
        marker = rnd.randrange(nd) if rnd.random() < 0.6 else None
        d1 = [("*" + x if i == marker else x) for i, x in enumerate(names)]
        sizes, shape = {}, []
        for i, x in enumerate(names):
            if i == marker:
                k = rnd.choice([0, 1, 2, 3])
                shape += [rnd.choice([1, 2, 3]) for _ in range(k)]
            else:
                sizes[x] = rnd.choice([1, 2, 3, 5])
                shape.append(sizes[x])
        d2 = list(d1)
        how = rnd.choice(["same", "unstar", "star", "rename", "drop", "add", "literal"])
        j = rnd.randrange(nd)
        if how == "unstar" and marker is not None:
            d2[marker] = names[marker]
        elif how == "star" and marker is None:
            d2[j] = "*" + names[j]
        elif how == "rename":
            d2[j] = rnd.choice([x for x in ["a", "b", "c", "g", "zz"] if x != names[j]]) if not d2[j].startswith("*") else d2[j]
        elif how == "drop" and nd > 1:
            d2.pop(j)
        elif how == "add":
            d2.insert(j, rnd.choice(["a", "2", "q"]))
        elif how == "literal" and not d2[j].startswith("*"):
            d2[j] = str(rnd.choice([1, 2, 3, 5]))
        if sum(1 for t in d2 if t.startswith("*")) > 1:
            continue
        c = _mk_sig([("x", " ".join(d1))], [tuple(shape)], ret=" ".join(d2), retval=tuple(shape))
        c["retval_same_as"] = "x"
        out.append(c)
    return out
