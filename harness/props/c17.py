"""C17 - pydantic models: per-validation context in field order, clean public data (partial on assignment).

Histories over generated models: constructions with shuffled keyword order, repeated model_validate on one
dict (a rejected validation followed by a conforming one and vice versa), nested models, Optional fields,
assignments under validate_assignment=True (the listed known finding K2), base types np.ndarray,
npt.NDArray[...], torch.Tensor and jax.Array, and the class-definition-time dtype cross-check.  Each
validation is compared with the model's run_pydantic on a fresh context.
"""

import copy
import warnings

from harness import ctxrun, forms
from harness import gen_ctx as GC
from harness import impl as I
from harness.common import ImplWorker, Model, Report, rng_for, sx_str, depth

warnings.simplefilter("ignore")
KEYS = ("v", "kind", "name", "idx", "expected", "actual", "missing", "valid", "exn")


def impl_model_history(h: dict) -> dict:
    """Worker: define the model class, run the ops."""
    import pydantic

    case = {"form": "pyd", "fields": h["fields"], "validate_assignment": h.get("validate_assignment", False)}
    try:
        K = forms.build_class(case)
    except BaseException as e:  # noqa: BLE001
        return {"v": "decerr", "exn": type(e).__name__, "msg": str(e)[:200]}
    outs = []
    inst = None
    shared_ctx = {"mine": 1}   # the caller's own pydantic validation context, reused by every "shared" validation
    declared = [f["name"] for f in h["fields"]]
    for op in h["ops"]:
        try:
            if op["op"] == "construct":
                objs = {k: I.value_obj(v) for k, v in op["values"].items()}
                inst = K(**{k: objs[k] for k in op["order"]})
                outs.append(public_view(inst, declared))
            elif op["op"] == "validate":
                objs = {k: I.value_obj(v) for k, v in op["values"].items()}
                d = {k: objs[k] for k in op["order"]}
                before = list(d)
                cm = op.get("context")
                if cm == "fresh":
                    user_ctx = {"mine": 1}
                elif cm == "shared":
                    user_ctx = shared_ctx
                else:
                    user_ctx = None
                ctx_before = None if user_ctx is None else dict(user_ctx)
                try:
                    inst = K.model_validate(d) if user_ctx is None else K.model_validate(d, context=user_ctx)
                finally:
                    ctx_ok = user_ctx is None or user_ctx == ctx_before
                view = public_view(inst, declared)
                view["input_dict_untouched"] = list(d) == before
                view["user_context_untouched"] = ctx_ok
                outs.append(view)
            elif op["op"] == "assign":
                if inst is None:
                    outs.append({"v": "skip"})
                    continue
                setattr(inst, op["field"], I.value_obj(op["value"]))
                outs.append({"v": "accept"})
        except pydantic.ValidationError as e:
            outs.append({"v": "crash", "exn": "pydantic.ValidationError", "msg": str(e)[:100]})
            inst = None if op["op"] != "assign" else inst
        except BaseException as e:  # noqa: BLE001
            outs.append(I.canon_exc(e))
            inst = None if op["op"] != "assign" else inst   # assignments only follow a successful validation
    return {"v": "ok", "outs": outs}


def public_view(inst, declared: list[str]) -> dict:
    dumped = list(inst.model_dump().keys())
    it = [k for k, _ in inst]
    rp = repr(inst)
    clean = dumped == declared and it == declared and sorted(inst.model_fields_set) == sorted(declared) and "__dltype__" not in rp
    return {"v": "accept", "clean": clean, "dump": dumped, "iter": it, "fields_set": sorted(inst.model_fields_set), "repr_has_key": "__dltype__" in rp}


def impl_class_def(a: dict) -> dict:
    """Class-definition-time dtype cross-check for numpy generic aliases."""
    ns = I.base_ns()
    import numpy.typing as npt

    ns["npt"] = npt
    import typing_extensions

    # type aliases (PEP 695 `type X = ...` / TypeAliasType) of array classes as base types
    ns.update({"ALIAS_ND": typing_extensions.TypeAliasType("ALIAS_ND", ns["np"].ndarray)})   # (an alias of npt.NDArray[...], itself an alias in numpy >= 2.5, is expanded one level only: not used)
    if ns.get("torch") is not None:
        ns["ALIAS_T"] = typing_extensions.TypeAliasType("ALIAS_T", ns["torch"].Tensor)
    if ns.get("jax") is not None:
        ns["ALIAS_J"] = typing_extensions.TypeAliasType("ALIAS_J", ns["jax"].Array)
    src = f"class K(pydantic.BaseModel):\n    model_config = pydantic.ConfigDict(arbitrary_types_allowed=True)\n    x: Annotated[{a['base']}, dltype.{a['cls']}('a b')]\n"
    try:
        exec(compile(src, "<c17>", "exec", dont_inherit=True), ns)  # noqa: S102
    except BaseException as e:  # noqa: BLE001
        c = I.canon_exc(e)
        return {"v": "decerr", "exn": type(e).__name__, "kind": c.get("kind")}
    out = {"v": "defined"}
    if a.get("value"):
        try:
            ns["K"](x=I.value_obj(a["value"]))
            out["construct"] = "accept"
        except BaseException as e:  # noqa: BLE001
            out["construct"] = type(e).__name__
    return out


def gen_history(rnd) -> dict | None:
    base = GC.gen_case(rnd, with_provider=0, with_ret=0, tuples=0, optionals=0.3, plain=0.15)
    for p in base["params"]:
        if p["hint"]["k"] == "plain":
            base["args"][p["name"]] = {"k": "int"}
    fields = [{"name": p["name"], "hint": p["hint"]} for p in base["params"]]
    names = [f["name"] for f in fields]

    def values(kind: str):
        c = base
        if kind != "ok":
            for _ in range(1 if kind == "one" else 2):
                p = GC.perturb(rnd, c)
                if p:
                    c = p[0]
        vals = copy.deepcopy(c["args"])
        # stay inside what reaches the validators: arrays of the declared library, None only for optional fields
        for it in GC.flatten(c):
            v = it["v"]
            if v is None or (v.get("k") == "none" and not it["opt"]) or (v.get("k") not in ("arr", "none")):
                return None
        return vals

    ops = []
    for _ in range(rnd.choice([2, 3, 4])):
        kind = rnd.choice(["ok", "ok", "one", "two"])
        vals = values(kind)
        if vals is None:
            continue
        order = list(names)
        rnd.shuffle(order)
        ops.append({"op": rnd.choice(["construct", "validate"]), "values": vals, "order": order, "context": rnd.choice([None, None, "fresh", "shared", "shared"]),
                    "several_faults": kind == "two"})
    if not ops:
        return None
    h = {"fields": fields, "ops": ops, "validate_assignment": rnd.random() < 0.3}
    if h["validate_assignment"]:
        anns = [it for it in GC.flatten(base) if it["v"].get("k") == "arr"] if all(it["v"] is not None for it in GC.flatten(base)) else []
        if anns:
            it = rnd.choice(anns)
            v = copy.deepcopy(it["v"])
            if rnd.random() < 0.5 and v["shape"]:
                v["shape"][0] += 1
            h["ops"].append({"op": "assign", "field": it["name"], "value": v})
    # no history beyond the reference's resource bound reaches the extracted model (a power of millions of bits stalls it, DESIGN 10)
    as_case = lambda vals: {"params": [{"name": f["name"], "hint": f["hint"]} for f in fields], "args": vals, "provider": None}  # noqa: E731
    for op in h["ops"]:
        vals = op["values"] if "values" in op else {**base["args"], op["field"]: op["value"]}
        if GC.reference(as_case(vals)).get("v") == "unknown":
            return None
    return h


def model_req(h: dict) -> str:
    fields = []
    for f in h["fields"]:
        hh = f["hint"]
        if hh["k"] == "plain":
            continue
        opt = hh["k"] == "opt"
        a = hh["of"] if opt else hh
        fields.append(f"({sx_str(f['name'])} {I.annot_sx(a, opt)})")
    ops = []
    for op in h["ops"]:
        if op["op"] in ("construct", "validate"):
            vals = " ".join(f"({sx_str(k)} {I.value_sx(v)})" for k, v in op["values"].items())
            ops.append(f"(validate ({vals}))")
        else:
            ops.append(f"(assign {sx_str(op['field'])} {I.value_sx(op['value'])})")
    return f"(pydantic ({' '.join(fields)}) ({' '.join(ops)}))"


def run(tier: str, seed: int, rep: Report, model: Model) -> dict:
    rnd = rng_for("C17", seed)
    n = depth(tier, 400, 15000)
    rep.rule = ("generated models (1-4 fields, optional / plain fields, markers, expressions) with 2-4 constructions / model_validate calls in "
                "shuffled keyword order (conforming or with one / two faults; model_validate with no / a fresh / a reused context= dict) and, under validate_assignment, one assignment; nested models; "
                "class-definition dtype cross-check for npt.NDArray[...]; distinct = distinct history; non-trivial = at least two validations")
    rep.rule += '; model_validate with no / a fresh / a reused context= dict; 450+ class definitions (every class x concrete, union and abstract scalar types, alias base types); one array changed in place between validations'
    rep.notes.append("partial: model_dump / iteration / repr / model_fields_set are compared by the harness only; validate_assignment is the known finding K2")
    hs = []
    while len(hs) < n:
        h = gen_history(rnd)
        if h:
            hs.append(h)
    answers = model.ask_many([model_req(h) for h in hs])
    defs = []
    for cls, base, val, want in (
        ("FloatTensor", "npt.NDArray[np.float32]", I.V_arr("np", "f32", (2, 3)), "defined"), ("FloatTensor", "npt.NDArray[np.int32]", None, "Dtype"),
        ("IntTensor", "npt.NDArray[np.int64]", I.V_arr("np", "i64", (2, 3)), "defined"), ("IntTensor", "npt.NDArray[np.float64]", None, "Dtype"),
        ("BoolTensor", "npt.NDArray[np.bool_]", I.V_arr("np", "bool", (2, 3)), "defined"), ("Float32Tensor", "npt.NDArray[np.float64]", None, "Dtype"),
        ("TensorTypeBase", "npt.NDArray[np.int8]", I.V_arr("np", "i8", (2, 3)), "defined"), ("FloatTensor", "np.ndarray", I.V_arr("np", "f32", (2, 3)), "defined"),
        ("FloatTensor", "torch.Tensor", I.V_arr("torch", "f32", (2, 3)), "defined"), ("FloatTensor", "jax.Array", I.V_arr("jax", "f32", (2, 3)), "defined"),
        ("IntTensor", "npt.NDArray[np.int32 | np.int64]", I.V_arr("np", "i32", (2, 3)), "defined"), ("IntTensor", "npt.NDArray[np.int32 | np.float32]", None, "Dtype"),
        ("FloatTensor", "ALIAS_ND", I.V_arr("np", "f32", (2, 3)), "defined"), ("FloatTensor", "ALIAS_T", I.V_arr("torch", "f32", (2, 3)), "defined"),
        ("FloatTensor", "ALIAS_J", I.V_arr("jax", "f32", (2, 3)), "defined"),
    ):
        defs.append(({"cls": cls, "base": base, "value": val}, want))
    worker = ImplWorker("harness.props.c17")
    try:
        results = worker.call_many("impl_model_history", hs, timeout=30.0)
        dres = worker.call_many("impl_class_def", [d for d, _ in defs], timeout=30.0)
        nested = worker.call("impl_nested", {}, timeout=60.0)
        inpl = worker.call("impl_inplace_models", {}, timeout=120.0)
        shared_ann = worker.call("impl_shared_annotation_object", {}, timeout=120.0)
    finally:
        worker.close()
    for h, ans, res in zip(hs, answers, results):
        if "__skipped__" in res:
            continue
        b = {"fields": {f["name"]: ctxrun.brief({"params": [{"name": "x", "hint": f["hint"]}], "args": {}})["params"]["x"] for f in h["fields"]},
             "ops": [(o["op"], o.get("order")) for o in h["ops"]], "validate_assignment": h["validate_assignment"]}
        nval = sum(1 for o in h["ops"] if o["op"] != "assign")
        rep.case(str(b) + str(h["ops"]), b, nontrivial=nval >= 2)
        rec = {"model_class": b, "ops": h["ops"]}
        if res.get("v") != "ok":
            rep.violation({"what": "the model class could not be defined", "result": res, **rec})
            continue
        mouts = [I.parse_model_outcome(x) if x.strip() != "SKIP" else {"v": "skip"} for x in ans.split(" ; ")]
        for i, (op, o, m) in enumerate(zip(h["ops"], res["outs"], mouts)):
            rep.count(f"{op['op']}:{o['v']}:{o.get('kind', '')}")
            if op["op"] == "assign":
                if o["v"] == "skip":
                    continue
                if o["v"] == "reject" and o.get("kind") == "Duplicate" and o.get("name") == op["field"]:
                    if not rep.known("K2", {"step": i, **rec}):
                        rep.violation({"what": "assignment raises DLTypeDuplicateError", "step": i, "got": o, **rec})
                elif tuple(str(o.get(k)) for k in KEYS) != tuple(str(m.get(k)) for k in KEYS):
                    rep.disagreement({"what": "assignment outcome differs from the model's", "step": i, "got": o, "model": m, **rec})
                continue
            if o["v"] == "accept" and not o.get("clean", True):
                rep.violation({"what": "public data of the instance exposes something besides the declared fields", "step": i, "got": o, **rec})
            if o.get("user_context_untouched") is False:
                rep.violation({"what": "model_validate wrote into the caller's validation context", "step": i, **rec})
            if o.get("input_dict_untouched") is False:
                rep.violation({"what": "model_validate modified the caller's dict", "step": i, **rec})
            ref = GC.reference({"params": [{"name": f["name"], "hint": f["hint"]} for f in h["fields"]], "args": op["values"], "provider": None})
            if ref["v"] == "undefined" and ref.get("kind") in ("ValueError", "ZeroDivisionError", "OverflowError") and o["v"] == "crash":
                # an expression axis without arithmetic value: the escaping arithmetic exception is the known finding K1 (C08);
                # pydantic re-wraps a ValueError raised in a validator as its ValidationError - not compared with the model's class
                rep.count("arithmetically_undefined_not_compared")
                continue
            if o["v"] == "accept" and ref["v"] not in ("accept", "unknown"):
                rep.violation({"what": "a validation was accepted although the fields are inconsistent (in field order, fresh context)", "step": i, "reference": ref, **rec})
            elif ref["v"] == "accept" and o["v"] != "accept":
                rep.violation({"what": "a conforming validation was rejected (state shared between validations?)", "step": i, "got": o, "reference": ref, **rec})
            elif tuple(str(o.get(k)) for k in (("v",) if op.get("several_faults") else KEYS)) != tuple(str(m.get(k)) for k in (("v",) if op.get("several_faults") else KEYS)):
                rep.disagreement({"what": "validation outcome differs from the model's", "step": i, "got": o, "model": m, **rec})
        if rep.many_violations():
            break
    for (d, want), r in zip(defs, dres):
        rep.case(str(d), {"class_def": d, "result": r})
        rep.count(f"classdef:{r.get('v')}:{r.get('kind')}")
        if want == "Dtype":
            if not (r.get("v") == "decerr" and r.get("kind") == "Dtype"):
                rep.violation({"what": "an array type whose scalar types contradict the tensor class was not refused with the dtype error at class definition", "class_def": d, "result": r})
        elif r.get("v") != "defined" or r.get("construct") != "accept":
            rep.violation({"what": "a consistent base type was not usable", "class_def": d, "result": r})
    # the class-definition cross-check over every class x one or two named scalar types: the model's class_def_refused
    # (theorem C17_class_definition) and the documented categories
    from harness.props.c04 import documented

    NPS = {"bool": "np.bool_", "i8": "np.int8", "i16": "np.int16", "i32": "np.int32", "i64": "np.int64", "u8": "np.uint8", "u16": "np.uint16", "u32": "np.uint32",
           "u64": "np.uint64", "f16": "np.float16", "f32": "np.float32", "f64": "np.float64", "longdouble": "np.longdouble", "c64": "np.complex64"}
    sets = [[k] for k in NPS] + [[a, b] for a, b in (("i32", "i64"), ("i32", "f32"), ("f32", "i32"), ("f16", "f64"), ("u8", "i8"), ("bool", "u8"), ("f64", "longdouble"),
                                                      ("f32", "c64"), ("i64", "u64"), ("f16", "f32"))]
    if tier == "thorough":
        import itertools

        sets = [[k] for k in NPS] + [list(p) for p in itertools.permutations(NPS, 2)]
    cd_tasks = [{"cls": cls, "base": "npt.NDArray[" + " | ".join(NPS[k] for k in ks) + "]", "value": None, "scalars": ks} for cls in I.TENSOR_CLASSES for ks in sets]
    # abstract scalar types and Any: the cross-check sees a type that is in no table (model: the `other` dtype kind); refusing is what
    # the property demands only where the abstract type contradicts the class (np.floating[...] for an integer class, ...)
    ABSTRACT = {"typing.Any": None, "np.floating[typing.Any]": ("f16", "f32", "f64"), "np.integer[typing.Any]": ("i8", "i32", "u8", "u64"),
                "np.signedinteger[typing.Any]": ("i8", "i64"), "np.number[typing.Any]": ("i32", "f32"), "np.floating": ("f32",), "np.generic": None}
    for cls in I.TENSOR_CLASSES:
        for src, members in ABSTRACT.items():
            cd_tasks.append({"cls": cls, "base": f"npt.NDArray[{src}]", "value": None, "scalars": ["other"], "abstract": src, "members": members})
    # (BFloat16Tensor lists torch dtypes only: every numpy array type that names a scalar type contradicts it and must be refused;
    #  the abstract-type rows say nothing definite about it and are left out)
    cd_tasks = [t for t in cd_tasks if t["cls"] != "BFloat16Tensor" or "abstract" not in t]
    rep.streams["class_definitions"] = len(cd_tasks)
    w3 = ImplWorker("harness.props.c17")
    try:
        cd_res = w3.call_many("impl_class_def", cd_tasks, timeout=30.0)
    finally:
        w3.close()
    cd_model = model.ask_many([f"(classdef ({' '.join(I.class_dtoks(t['cls']))}) ({' '.join(t['scalars'])}))" for t in cd_tasks])
    for t, r, mans in zip(cd_tasks, cd_res, cd_model):
        if "__skipped__" in r:
            continue
        want = any(not documented(t["cls"], "np", k) for k in t["scalars"])
        refused = r.get("v") == "decerr" and r.get("kind") == "Dtype"
        if "abstract" in t:
            # contradiction = the class documents none of the abstract type's members; otherwise the reference has no opinion
            contradicts = t["members"] is not None and not any(documented(t["cls"], "np", k) for k in t["members"])
            rep.case(("classdef", t["cls"], t["abstract"]), None)
            rep.count(f"classdef_abstract:{'refused' if refused else r.get('v')}")
            rec = {"class": t["cls"], "base": t["base"], "result": r, "model_refuses": mans == "1", "contradicts_the_class": contradicts}
            if r.get("v") not in ("defined", "decerr") or (r.get("v") == "decerr" and not refused):
                rep.violation({"what": "class definition failed with something other than the dtype error", **rec})
            elif contradicts and not refused:
                rep.violation({"what": "class definition accepted an abstract scalar type that contradicts the tensor class", **rec})
            elif refused != (mans == "1"):
                rep.disagreement({"what": "model of the class-definition cross-check and implementation differ on an abstract scalar type", **rec})
            continue
        rep.case(("classdef", t["cls"], tuple(t["scalars"])), None)
        rep.count(f"classdef_sweep:{'refused' if refused else r.get('v')}")
        rec = {"class": t["cls"], "base": t["base"], "result": r, "model_refuses": mans == "1", "documented_refuses": want}
        if r.get("v") not in ("defined", "decerr") or (r.get("v") == "decerr" and not refused):
            rep.violation({"what": "class definition failed with something other than the dtype error", **rec})
        elif refused != want:
            rep.violation({"what": "class definition " + ("refused although every named scalar type belongs to the class" if refused else
                                                          "accepted although a named scalar type contradicts the tensor class"), **rec})
        elif refused != (mans == "1"):
            rep.disagreement({"what": "model of the class-definition cross-check and implementation differ", **rec})
    rep.case("same_object_changed_in_place", {"n": inpl.get("n")})
    for pr in inpl.get("problems", [{"what": "the in-place run did not finish", "detail": inpl}] if "problems" not in inpl else []):
        rep.violation(pr)
    rep.case("shared_annotation_object", {"n": shared_ann.get("n")})
    for pr in shared_ann.get("problems", [{"what": "the shared-annotation run did not finish", "detail": shared_ann}] if "problems" not in shared_ann else []):
        rep.violation(pr)
    rep.case("nested", nested)
    for p in nested.get("problems", [{"what": "nested-model run did not finish", "detail": nested}] if "problems" not in nested else []):
        rep.violation(p)
    return {}


def impl_inplace_models(_: dict) -> dict:
    """Repeated validation of one array object that was changed in place in between (the pydantic forms of c09.impl_inplace)."""
    from harness.props import c09

    r = c09.impl_inplace({})
    r["problems"] = [p for p in r.get("problems", []) if p.get("form") in ("pydantic", "model_validate")]
    return r


def impl_shared_annotation_object(_: dict) -> dict:
    """ONE annotation object used as metadata of several pydantic fields (same field name in two models, a subclass re-declaring
    the field, different base types): every class definition is cross-checked on its own."""
    from typing import Annotated

    import numpy as np
    import numpy.typing as npt
    import pydantic

    import dltype

    problems, n = [], 0
    cfg = pydantic.ConfigDict(arbitrary_types_allowed=True)

    def define(name, base, ann, parent=pydantic.BaseModel):
        try:
            return pydantic.create_model(name, __base__=parent, image=(Annotated[base, ann], ...)), None
        except dltype.DLTypeDtypeError:
            return None, "DLTypeDtypeError"
        except BaseException as e:  # noqa: BLE001
            return None, type(e).__name__

    class Base(pydantic.BaseModel):
        model_config = cfg

    for first in (np.ndarray, npt.NDArray[np.float32]):
        IMAGE = dltype.FloatTensor("h w")
        A_, e1 = define("A", first, IMAGE, Base)
        n += 1
        if e1:
            problems.append({"what": "a consistent class definition was refused", "base": str(first), "error": e1})
            continue
        for label, parent in (("second model", Base), ("subclass re-declaring the field", A_)):
            n += 2
            _, e2 = define("B", npt.NDArray[np.uint8], IMAGE, parent)
            if e2 != "DLTypeDtypeError":
                problems.append({"what": "a contradicting scalar type was not refused at class definition when the annotation object had been used before",
                                 "first_use": str(first), "second_use": label, "outcome": e2 or "defined"})
            G_, e3 = define("C", npt.NDArray[np.float64], IMAGE, parent)
            if e3:
                problems.append({"what": "a consistent scalar type was refused when the annotation object had been used before", "second_use": label, "error": e3})
            elif G_ is not None:
                try:
                    G_(image=np.zeros((2, 3), dtype=np.float64))
                    G_(image=np.zeros((4, 1), dtype=np.float64))
                except BaseException as e:  # noqa: BLE001
                    problems.append({"what": "a model sharing its annotation object with another refused a conforming value", "error": type(e).__name__})
    return {"n": n, "problems": problems}


def impl_nested(_: dict) -> dict:
    from typing import Annotated

    import numpy as np
    import pydantic

    import dltype

    class Inner(pydantic.BaseModel):
        model_config = pydantic.ConfigDict(arbitrary_types_allowed=True)
        x: Annotated[np.ndarray, dltype.FloatTensor("a b")]
        y: Annotated[np.ndarray, dltype.FloatTensor("b")]

    class Outer(pydantic.BaseModel):
        model_config = pydantic.ConfigDict(arbitrary_types_allowed=True)
        first: Inner
        z: Annotated[np.ndarray, dltype.FloatTensor("a")]
        second: Inner
        w: Annotated[np.ndarray, dltype.FloatTensor("a c")]

    def arr(*s):
        return np.zeros(s, dtype=np.float32)

    problems = []

    def expect(label, ok, build):
        try:
            m = build()
            if not ok:
                problems.append({"what": f"nested: {label}: accepted"})
            return m
        except dltype.DLTypeError as e:
            if ok:
                problems.append({"what": f"nested: {label}: rejected with {e}"})
        except BaseException as e:  # noqa: BLE001
            problems.append({"what": f"nested: {label}: {type(e).__name__}: {str(e)[:100]}"})

    # each model validation has its own context: the inner a,b do not bind the outer a, nor each other's
    m = expect("independent contexts", True, lambda: Outer(first={"x": arr(2, 3), "y": arr(3)}, z=arr(5), second={"x": arr(7, 1), "y": arr(1)}, w=arr(5, 4)))
    expect("outer fields share one context", False, lambda: Outer(first={"x": arr(2, 3), "y": arr(3)}, z=arr(5), second={"x": arr(7, 1), "y": arr(1)}, w=arr(6, 4)))
    expect("inner violation", False, lambda: Outer(first={"x": arr(2, 3), "y": arr(4)}, z=arr(5), second={"x": arr(7, 1), "y": arr(1)}, w=arr(5, 4)))
    expect("prebuilt inner instances", True, lambda: Outer(first=Inner(x=arr(2, 3), y=arr(3)), z=arr(5), second=Inner(x=arr(2, 3), y=arr(3)), w=arr(5, 4)))
    # the same with a caller-supplied validation context (pydantic hands one dict to the whole validation tree)
    uc = {"mine": 1}
    good = {"first": {"x": arr(2, 3), "y": arr(3)}, "z": arr(5), "second": {"x": arr(7, 1), "y": arr(1)}, "w": arr(5, 4)}
    for rnd_ in range(2):
        expect(f"independent contexts under model_validate(context=...) #{rnd_}", True, lambda: Outer.model_validate(good, context=uc))
    expect("outer fields share one context under context=", False,
           lambda: Outer.model_validate({**good, "w": arr(6, 4)}, context=uc))
    expect("conforming validation after a rejected one with the same context dict", True, lambda: Outer.model_validate(good, context=uc))
    if uc != {"mine": 1}:
        problems.append({"what": "nested: the caller's validation context was written to", "context_keys": sorted(map(str, uc))})
    if m is not None:
        d = m.model_dump()
        if list(d) != ["first", "z", "second", "w"] or list(d["first"]) != ["x", "y"]:
            problems.append({"what": "nested: model_dump exposes extra keys", "keys": [list(d), list(d["first"])]})
    return {"problems": problems}
