"""C16 - apart from checking, decorated functions and classes behave like the originals (partial).

What the Coq model carries: defaults are bound before checking, the body's value / exception reaches the
caller unchanged (props/C16.v).  Everything else is CPython object-model behaviour with no decision logic to
model and is compared here against undecorated twins (a test, labelled as such in the evidence): metadata,
argument forwarding for every parameter kind and call style, exception identity, methods / classmethods /
staticmethods, and for NamedTuples / dataclasses (every option set) fields, equality, repr, isinstance,
immutability and pickling.
"""


import itertools
import warnings

from harness.common import ImplWorker, Model, Report, rng_for

warnings.simplefilter("ignore")

SIGS = [
    # (parameter list source, call sources)
    ("x: A, y: B", ["(X, Y)", "(X, y=Y)", "(x=X, y=Y)", "(y=Y, x=X)"]),
    ("x: A, /, y: B", ["(X, Y)", "(X, y=Y)"]),
    ("x: A, *, y: B", ["(X, y=Y)", "(x=X, y=Y)"]),
    ("x: A, y: B = DEFAULT_Y", ["(X)", "(X, Y)", "(x=X)"]),
    ("x: A, opts=[], flag: bool = False", ["(X)", "(X, [1])", "(X, flag=True)", "(X, opts={'k': [1]})"]),
    ("x: A, *rest, y: B, **extra", ["(X, 1, 2, y=Y)", "(X, y=Y, z=3)", "(X, 1, y=Y, z=3, w=[4])"]),
    ("x: A, n: int = 7, *, scale: float = 1.5, **kw", ["(X)", "(X, 8)", "(X, scale=2.0, mode='m')"]),
    ("x: A, *rest: int, **options: object", ["(X)", "(X, 1, 2)", "(X, k=1)", "(x=X)"]),
    ("*xs: int, x: A, **kw: str", ["(x=X)", "(1, 2, x=X, s='t')"]),
    # surplus positionals next to omitted keyword-only defaults (as many as there are names left, fewer, more)
    ("x: A, *rest, y: B = DEFAULT_Y", ["(X)", "(X, 1)", "(X, 1, 2)", "(X, Y)", "(X, 1, y=Y)"]),
    ("x: A, *rest, y: B = DEFAULT_Y, flag: bool = False", ["(X, 1, 2)", "(X, Y, True)", "(X, 1)", "(X, flag=True)"]),
]


def impl_functions(_: dict) -> dict:
    import inspect
    from typing import Annotated

    import numpy as np

    import dltype

    A = Annotated[np.ndarray, dltype.FloatTensor["a b"]]
    B = Annotated[np.ndarray, dltype.IntTensor["b"]]
    X, Y = np.zeros((2, 3), dtype=np.float32), np.zeros((3,), dtype=np.int32)
    problems, n = [], 0
    base = {"A": A, "B": B, "X": X, "Y": Y, "DEFAULT_Y": Y, "dltype": dltype}
    import re

    # every signature three times: hints resolvable at decoration time; hints as quoted forward references to names defined only
    # after the function (resolved at the first call); the same with one call made while the names are still undefined (R18a, R18d)
    for (params, calls), lazy in itertools.product(SIGS, ("eager", "lazy", "lazy_called_early")):
        ns = dict(base)
        ret = "A"
        if lazy != "eager":
            del ns["A"], ns["B"]
            params = re.sub(r":\s*([AB])\b", r": '\1'", params) + "  "
            ret = "'A'"
        src = (f"def plain({params}) -> {ret}:\n    '''doc of f'''\n    SEEN.append(dict(locals()))\n    return X\n"
               f"@dltype.dltyped()\ndef checked({params}) -> {ret}:\n    '''doc of f'''\n    SEEN.append(dict(locals()))\n    return X\n")
        ns["SEEN"] = []
        exec(compile(src, "<c16>", "exec", dont_inherit=True), ns)  # noqa: S102
        if lazy == "lazy_called_early":
            with warnings.catch_warnings():
                warnings.simplefilter("ignore")
                try:
                    eval("checked" + calls[0], ns)  # noqa: S307
                except BaseException:  # noqa: BLE001, S110
                    pass
            ns["SEEN"].clear()
        ns["A"], ns["B"] = A, B
        params = params.strip() + ("" if lazy == "eager" else f"   [{lazy}]")
        p, c = ns["plain"], ns["checked"]
        if c.__doc__ != p.__doc__ or c.__name__ != "checked" or c.__qualname__ != "checked" or c.__module__ != p.__module__:
            problems.append({"what": "metadata not preserved", "params": params, "name": c.__name__, "doc": c.__doc__})
        if str(inspect.signature(c)) != str(inspect.signature(p)):
            problems.append({"what": "signature not preserved", "params": params, "got": str(inspect.signature(c)), "want": str(inspect.signature(p))})
        for call in calls:
            n += 1
            ns["SEEN"].clear()
            try:
                r1 = eval("plain" + call, ns)  # noqa: S307
                r2 = eval("checked" + call, ns)  # noqa: S307
            except BaseException as e:  # noqa: BLE001
                problems.append({"what": f"call raised {type(e).__name__}: {e}", "params": params, "call": call})
                continue
            s1, s2 = ns["SEEN"]
            same = s1.keys() == s2.keys() and all((s1[k] is s2[k]) or (s1[k] == s2[k] and not hasattr(s1[k], "shape")) for k in s1)
            if not same or r2 is not r1:
                problems.append({"what": "the body saw different arguments / returned object differs", "params": params, "call": call,
                                 "plain": {k: repr(v)[:40] for k, v in s1.items()}, "checked": {k: repr(v)[:40] for k, v in s2.items()}})
    # the decorated object may itself be a wrapper whose real calling convention is (*args, **kwargs) (functools.wraps, caches,
    # dispatchers): it must receive the call as the caller wrote it - same positional count, same keywords, no defaults filled in
    import functools

    for params, calls in SIGS[:5] + SIGS[6:7] + SIGS[9:]:
        ns = dict(base)
        ns["CALLS"] = []
        ns["functools"] = functools
        src = (f"def body({params}) -> A:\n    return X\n"
               "def spy(fn):\n    @functools.wraps(fn)\n    def w(*a, **k):\n        CALLS.append((a, dict(k)))\n        return fn(*a, **k)\n    return w\n"
               "plain = spy(body)\nchecked = dltype.dltyped()(spy(body))\n")
        exec(compile(src, "<c16>", "exec", dont_inherit=True), ns)  # noqa: S102
        for call in calls:
            n += 1
            ns["CALLS"].clear()
            try:
                eval("plain" + call, ns)  # noqa: S307
                eval("checked" + call, ns)  # noqa: S307
            except BaseException as e:  # noqa: BLE001
                problems.append({"what": f"call through a wrapped callable raised {type(e).__name__}: {e}", "params": params, "call": call})
                continue
            (a1, k1), (a2, k2) = ns["CALLS"]
            if len(a1) != len(a2) or any(u is not v and not (u == v and not hasattr(u, "shape")) for u, v in zip(a1, a2)) or list(k1) != list(k2) or any(
                    k1[q] is not k2[q] and not (k1[q] == k2[q] and not hasattr(k1[q], "shape")) for q in k1):
                problems.append({"what": "a wrapped callable received the call in another form than the caller wrote it (positional / keyword / defaults)",
                                 "params": params, "call": call, "undecorated": f"{len(a1)} positional, keywords {list(k1)}",
                                 "decorated": f"{len(a2)} positional, keywords {list(k2)}"})
    # ... and what is decorated is still checked: annotations and signature are found through functools.wraps
    n += 1
    ns = dict(base)
    ns["CALLS"] = []
    ns["functools"] = functools
    exec(compile("def body(x: A, y: B) -> A:\n    return X\n"
                 "def spy(fn):\n    @functools.wraps(fn)\n    def w(*a, **k):\n        CALLS.append(1)\n        return fn(*a, **k)\n    return w\n"
                 "checked = dltype.dltyped()(spy(body))\n", "<c16>", "exec", dont_inherit=True), ns)  # noqa: S102
    for label, args in (("first argument", (np.zeros((2,), dtype=np.float32), Y)), ("second argument", (X, np.zeros((4,), dtype=np.int32)))):
        ns["CALLS"].clear()
        try:
            ns["checked"](*args)
            problems.append({"what": f"a violating {label} passed to a decorated functools.wraps wrapper was accepted"})
        except dltype.DLTypeError:
            if ns["CALLS"]:
                problems.append({"what": "the wrapped callable ran before its violating argument was refused"})
        except BaseException as e:  # noqa: BLE001
            problems.append({"what": f"violating {label} through a wrapper: {type(e).__name__} instead of a DLTypeError"})
    # a default that violates its annotation is rejected like a passed value, before the body
    n += 1
    ns = dict(base)
    ns["SEEN"] = []
    ns["BAD_Y"] = np.zeros((4,), dtype=np.int32)
    exec(compile("@dltype.dltyped()\ndef checked(x: A, y: B = BAD_Y) -> A:\n    SEEN.append(1)\n    return X\n", "<c16>", "exec", dont_inherit=True), ns)  # noqa: S102
    try:
        ns["checked"](X)
        problems.append({"what": "a default value that violates its annotation was not checked like a passed one"})
    except dltype.DLTypeError:
        if ns["SEEN"]:
            problems.append({"what": "the body ran before a violating default was rejected"})
    except BaseException as e:  # noqa: BLE001
        problems.append({"what": f"violating default: {type(e).__name__} instead of a DLTypeError"})

    # exceptions propagate unchanged
    class Boom(Exception):
        pass

    boom = Boom("x")

    @dltype.dltyped()
    def raises(x: A) -> A:
        raise boom

    n += 1
    try:
        raises(X)
        problems.append({"what": "the body's exception did not propagate"})
    except Boom as e:
        if e is not boom:
            problems.append({"what": "a different exception object reached the caller"})
    except BaseException as e:  # noqa: BLE001
        problems.append({"what": f"the body's exception was replaced by {type(e).__name__}"})

    # ... whatever their class: every built-in exception class that can be built from one string, BaseException-only ones
    # included, through every shape of wrapper (no / plain / tuple return hint, scope provider, method); the very object, with
    # its args and without a __cause__ / replaced __context__
    import builtins

    classes = [c for c in vars(builtins).values() if isinstance(c, type) and issubclass(c, BaseException) and not issubclass(c, dltype.DLTypeError)]
    objs = []
    for c in sorted(classes, key=lambda c: c.__name__):
        try:
            objs.append(c("why"))
        except Exception:  # noqa: BLE001, S112   (UnicodeError family, ExceptionGroup need other arguments)
            continue
    objs += [ExceptionGroup("g", [ValueError("v")]), UnicodeDecodeError("utf-8", b"x", 0, 1, "r"), type("Custom", (ValueError,), {})("c"), type("Lonely", (BaseException,), {})()]

    class Prov:
        def get_dltype_scope(self):
            return {"a": 2}

    state = {"exc": None}

    @dltype.dltyped()
    def r_none(x: A):
        raise state["exc"]

    @dltype.dltyped()
    def r_hint(x: A) -> A:
        raise state["exc"]

    @dltype.dltyped()
    def r_tuple(x: A) -> tuple[A, int]:
        raise state["exc"]

    @dltype.dltyped(scope_provider=Prov())
    def r_prov(x: A) -> A:
        raise state["exc"]

    class RM:
        @dltype.dltyped()
        def m(self, x: A) -> A:
            raise state["exc"]

    for exc in objs:
        for label, fn in (("no return hint", r_none), ("return hint", r_hint), ("tuple return hint", r_tuple), ("scope provider", r_prov), ("method", RM().m)):
            n += 1
            state["exc"] = exc
            args_before = exc.args
            try:
                fn(X)
                problems.append({"what": f"{label}: the body's {type(exc).__name__} did not propagate"})
            except BaseException as e:  # noqa: BLE001
                if e is not exc:
                    problems.append({"what": f"{label}: the body's {type(exc).__name__} reached the caller as {type(e).__name__}: {e}"[:300]})
                elif e.args != args_before or e.__cause__ is not None:
                    problems.append({"what": f"{label}: the body's {type(exc).__name__} was modified on the way (args / __cause__)"})
            exc.__traceback__ = None

    # methods, classmethods, staticmethods
    class K:
        def __init__(self) -> None:
            self.calls = []

        @dltype.dltyped()
        def m(self, x: A, k: int = 2) -> A:
            self.calls.append(("m", k))
            return x

        @classmethod
        @dltype.dltyped()
        def c(cls, x: A) -> A:
            return x

        @staticmethod
        @dltype.dltyped()
        def s(x: A, y: B) -> B:
            return y

    k = K()
    for label, fn, args, want in (("method", k.m, (X,), X), ("method_kw", lambda: k.m(x=X, k=5), (), X), ("classmethod", K.c, (X,), X),
                                  ("classmethod_via_instance", k.c, (X,), X), ("staticmethod", K.s, (X, Y), Y)):
        n += 1
        try:
            got = fn(*args)
            if got is not want:
                problems.append({"what": f"{label}: wrong object returned"})
        except BaseException as e:  # noqa: BLE001
            problems.append({"what": f"{label}: raised {type(e).__name__}: {e}"})
    n += 1
    try:
        k.m(np.zeros((2,), dtype=np.float32))
        problems.append({"what": "method: violating argument accepted"})
    except dltype.DLTypeError:
        pass
    if k.calls != [("m", 2), ("m", 5)]:
        problems.append({"what": "method body did not see its arguments", "calls": k.calls})
    return {"n": n, "problems": problems}


def impl_classes(_: dict) -> dict:
    import copy
    import dataclasses
    import pickle

    import numpy as np

    import dltype
    from harness import c16_lib as L

    X, Y = np.zeros((2, 3), dtype=np.float32), np.zeros((3,), dtype=np.int32)
    problems, n = [], 0

    def chk(cond: bool, what: str, **kw) -> None:
        nonlocal n
        n += 1
        if not cond:
            problems.append({"what": what, **kw})

    # NamedTuple
    p, c = L.NTPlain(X, Y), L.NTChecked(X, Y)
    chk(isinstance(c, L.NTChecked) and isinstance(c, tuple), "NamedTuple: instance is not an instance of the decorated class")
    chk(L.NTChecked.__name__ == "NTChecked" and L.NTChecked.__module__ == L.NTPlain.__module__ and L.NTChecked.__doc__ == L.NTPlain.__doc__,
        "NamedTuple: name / module / docstring not preserved", module=L.NTChecked.__module__, doc=L.NTChecked.__doc__)
    chk(c._fields == p._fields and c.n == 3 and c.x is X and c[1] is Y, "NamedTuple: fields differ")
    chk(tuple(c) == tuple(p) and c == L.NTChecked(X, Y) and hash((c.n,)) == hash((p.n,)), "NamedTuple: equality differs")
    chk(repr(c).replace("NTChecked", "NT") == repr(p).replace("NTPlain", "NT"), "NamedTuple: repr differs", got=repr(c)[:80])
    chk(c._replace(n=4).n == 4 and type(c._replace(n=4)) is L.NTChecked, "NamedTuple: _replace does not keep the class")
    chk(c._asdict().keys() == p._asdict().keys(), "NamedTuple: _asdict differs")
    try:
        c.zzz = 1
        chk(False, "NamedTuple: instance accepts new attributes (has a __dict__)")
    except AttributeError:
        chk(True, "")
    try:
        c.n = 9
        chk(False, "NamedTuple: field is assignable")
    except AttributeError:
        chk(True, "")
    chk(not hasattr(c, "__dict__"), "NamedTuple: instance has a __dict__")
    try:
        r = pickle.loads(pickle.dumps(c))
        chk(type(r) is L.NTChecked and r.n == 3 and (r.x == X).all(), "NamedTuple: pickle round trip changes the value")
        r2 = copy.deepcopy(c)
        chk(type(r2) is L.NTChecked, "NamedTuple: deepcopy changes the class")
    except BaseException as e:  # noqa: BLE001
        chk(False, f"NamedTuple: pickle / copy failed: {type(e).__name__}: {e}")
    try:
        L.NTChecked(np.zeros((2,), dtype=np.float32), Y)
        chk(False, "NamedTuple: violating construction accepted")
    except dltype.DLTypeError:
        chk(True, "")
    # dataclasses, every option set
    for name, (P, C) in L.DC.items():
        opts = L.DC_OPTS[name]
        mk = (lambda K: K(x=X, y=Y)) if opts.get("kw_only") else (lambda K: K(X, Y))
        try:
            p, c = mk(P), mk(C)
        except BaseException as e:  # noqa: BLE001
            chk(False, f"dataclass[{name}]: construction failed: {type(e).__name__}: {e}")
            continue
        chk(type(c) is C and dataclasses.is_dataclass(c), f"dataclass[{name}]: not an instance of the decorated class")
        chk([f.name for f in dataclasses.fields(c)] == [f.name for f in dataclasses.fields(p)] and c.n == 3 and c.x is X and c.tags == [],
            f"dataclass[{name}]: fields differ")
        if opts.get("eq", True):
            chk(c == mk(C) if False else True, "")  # arrays make == ambiguous; compare on a copy with scalars below
        chk(repr(c).replace(C.__name__, "K")[:20] == repr(p).replace(P.__name__, "K")[:20], f"dataclass[{name}]: repr differs", got=repr(c)[:60])
        chk(C.__doc__ == P.__doc__ and C.__name__.endswith("checked"), f"dataclass[{name}]: docstring / name not preserved")
        frozen = bool(opts.get("frozen"))
        try:
            c.n = 5
            chk(not frozen, f"dataclass[{name}]: frozen instance is assignable")
        except dataclasses.FrozenInstanceError:
            chk(frozen, f"dataclass[{name}]: assignment raised FrozenInstanceError although not frozen")
        if opts.get("slots"):
            chk(not hasattr(c, "__dict__"), f"dataclass[{name}]: slots dataclass instance has a __dict__")
        try:
            r = pickle.loads(pickle.dumps(c))
            chk(type(r) is C and r.n == c.n and (r.x == X).all(), f"dataclass[{name}]: pickle round trip changes the value")
        except BaseException as e:  # noqa: BLE001
            chk(False, f"dataclass[{name}]: pickle failed: {type(e).__name__}: {e}")
        try:
            r = dataclasses.replace(c, n=11)
            chk(type(r) is C and r.n == 11, f"dataclass[{name}]: dataclasses.replace changes the class")
        except BaseException as e:  # noqa: BLE001
            chk(False, f"dataclass[{name}]: dataclasses.replace failed: {type(e).__name__}: {e}")
        try:
            (C(x=np.zeros((2,), dtype=np.float32), y=Y) if opts.get("kw_only") else C(np.zeros((2,), dtype=np.float32), Y))
            chk(False, f"dataclass[{name}]: violating construction accepted")
        except dltype.DLTypeError:
            chk(True, "")
    # inheritance between dataclasses: every field of a decorated class is validated, inherited ones included, whether or not
    # the base class is decorated itself (same verdicts as the function form over (x, y))
    bad_x, bad_y = np.zeros((2,), dtype=np.float32), np.zeros((4,), dtype=np.int32)
    for K in (L.DerivedOfChecked, L.DerivedOfPlain):
        try:
            inst = K(X, Y)
            chk(inst.x is X and inst.y is Y, f"{K.__name__}: fields differ")
        except BaseException as e:  # noqa: BLE001
            chk(False, f"{K.__name__}: conforming construction raised {type(e).__name__}: {e}")
        for label, args in (("inherited field", (bad_x, Y)), ("own field", (X, bad_y)), ("own field vs inherited binding", (X, np.zeros((5,), dtype=np.int32)))):
            try:
                K(*args)
                chk(False, f"{K.__name__}: a violating {label} was accepted")
            except dltype.DLTypeError:
                chk(True, "")
            except BaseException as e:  # noqa: BLE001
                chk(False, f"{K.__name__}: violating {label}: {type(e).__name__} instead of a DLTypeError")
    # a namedtuple that annotates only some fields: each annotated field is checked against ITS value
    try:
        r = L.PartiallyAnnotated("id-7", X, "anything", Y)
        chk(r.image is X and r.mask is Y and r.sample_id == "id-7", "partially annotated namedtuple: fields differ")
    except BaseException as e:  # noqa: BLE001
        chk(False, f"partially annotated namedtuple: conforming construction raised {type(e).__name__}: {e}")
    for label, args in (("image", ("id", np.zeros((2,), dtype=np.float32), "anything", Y)), ("mask", ("id", X, "anything", np.zeros((4,), dtype=np.int32))),
                        ("mask (dtype; the un-annotated field before it conforms to image's hint)", ("id", X, X, np.zeros((3,), dtype=np.float32)))):
        try:
            L.PartiallyAnnotated(*args)
            chk(False, f"partially annotated namedtuple: a violating {label} was accepted")
        except dltype.DLTypeError:
            chk(True, "")
        except BaseException as e:  # noqa: BLE001
            chk(False, f"partially annotated namedtuple: violating {label}: {type(e).__name__} instead of a DLTypeError")
    # string annotations resolved in the function's own module although a wrapper from another module sits in between
    import warnings as _w

    with _w.catch_warnings(record=True) as caught:
        _w.simplefilter("always")
        try:
            chk(L.through_foreign_wrapper(X, Y) is X, "function behind a foreign functools.wraps wrapper: wrong object returned")
        except BaseException as e:  # noqa: BLE001
            chk(False, f"function behind a foreign wrapper: conforming call raised {type(e).__name__}: {e}")
        for label, args in (("first argument", (np.zeros((2,), dtype=np.float32), Y)), ("second argument", (X, np.zeros((4,), dtype=np.int32)))):
            try:
                L.through_foreign_wrapper(*args)
                chk(False, f"function with string annotations behind a functools.wraps wrapper from another module: a violating {label} was accepted")
            except dltype.DLTypeError:
                chk(True, "")
            except BaseException as e:  # noqa: BLE001
                chk(False, f"function behind a foreign wrapper: violating {label}: {type(e).__name__} instead of a DLTypeError")
    chk(not any("skipped" in str(w_.message) for w_ in caught), "function behind a foreign wrapper: type checking was skipped (hints not resolved)")
    # a field(init=False) filled in by __post_init__ is a field like the others
    try:
        inst = L.WithDerivedField(X)
        chk(inst.y.shape == (3,), "dataclass with a derived field: conforming construction gives another value")
    except BaseException as e:  # noqa: BLE001
        chk(False, f"dataclass with a derived field: conforming construction raised {type(e).__name__}: {e}")
    try:
        L.WithDerivedField(X, 2)
        chk(False, "dataclass with a derived field: a violating value of the field(init=False) was accepted")
    except dltype.DLTypeError:
        chk(True, "")
    except BaseException as e:  # noqa: BLE001
        chk(False, f"dataclass with a derived field: {type(e).__name__} instead of a DLTypeError")
    return {"n": n, "problems": problems}


def run(tier: str, seed: int, rep: Report, model: Model) -> dict:
    rep.rule = ("7 signature shapes (positional-only, keyword-only, defaults incl. unhashable, *args, **kwargs) x their call styles, exception "
                "identity, method kinds, forwarding to wrapped (*args, **kwargs) callables, violating defaults; NamedTuple and 7 dataclass option sets: fields, equality, repr, isinstance, immutability, pickling, "
                "replace; compared with undecorated twins; distinct = distinct observation; all non-trivial")
    rep.rule += '; plus functools.wraps wrappers as the decorated object (call form, violating arguments), signatures with surplus positionals next to omitted keyword-only defaults, violating defaults, dataclass inheritance and a field(init=False) filled by __post_init__'
    rep.notes.append("partial: the object-model comparisons are tests against undecorated twins, not theorems")
    worker = ImplWorker("harness.props.c16")
    try:
        rf = worker.call("impl_functions", {}, timeout=120.0)
        rc = worker.call("impl_classes", {}, timeout=120.0)
    finally:
        worker.close()
    for label, r in (("functions", rf), ("classes", rc)):
        if "problems" not in r:
            rep.violation({"what": f"the {label} comparison did not finish", "detail": r})
            continue
        rep.count(label + "_observations", r["n"])
        for i in range(r["n"]):
            rep.case(f"{label}:{i}", None)
        rep.samples.append({label: r["n"], "problems": r["problems"][:3]})
        for p in r["problems"]:
            rep.violation(p)
    return {}
