"""C09 - contexts are isolated: no dependence on history, siblings, decoration order, nesting or threads; checking
never modifies caller-visible state.

Families of decorated functions share `Annotated[...]` aliases (with and without `| None`) and long-lived
provider dicts; they are decorated in a random order and driven by a random sequence of accepted and rejected
calls.  Every call's outcome is compared with the model's outcome for that call alone (the model has no state
between calls: that is what a fresh interpreter decides) and, on a subsample, with the same call on a freshly
defined stand-alone function.  Provider dicts and the aliases' annotation objects are snapshotted.  Thread
runs (8 threads, barrier before every call) and nested checked calls are compared with the sequential
outcomes; they support the model's atomicity assumption and are tests, not part of the proof.
"""

from __future__ import annotations

import copy

from harness import ctxrun, history
from harness import gen_ctx as GC
from harness import impl as I
from harness.common import ImplWorker, Model, Report, rng_for, depth

KEYS = ("v", "kind", "name", "idx", "expected", "actual", "missing", "valid", "exn")


def impl_family(fam: dict) -> dict:
    return history.run_family(fam)


def impl_forms_in_threads(_: dict) -> dict:
    """Every entry point under real concurrency: 8 threads use ONE decorated function / dataclass / NamedTuple / pydantic model /
    annotation object at the same time, each with its own sizes (and one thread with an inconsistent pair).  The arrays are
    instances of an ndarray subclass whose `shape` attribute waits at a barrier on its first read in each round, so all threads
    are inside the checker together (the class forms have no body in which they could meet).  Every outcome must be the one
    the same call gives alone."""
    import dataclasses
    import threading
    from typing import Annotated, NamedTuple

    import numpy as np
    import pydantic

    import dltype

    NTH, ROUNDS = 8, 6
    barriers = [threading.Barrier(NTH) for _ in range(ROUNDS)]
    tl = threading.local()

    class Meet(np.ndarray):
        @property
        def shape(self):  # noqa: ANN202
            r = getattr(tl, "round", None)
            if r is not None and not getattr(tl, "met", True):
                tl.met = True
                try:
                    barriers[r].wait(timeout=1)
                except threading.BrokenBarrierError:
                    pass
            return np.ndarray.shape.__get__(self)

    X = Annotated[np.ndarray, dltype.FloatTensor["a b"]]
    Y = Annotated[np.ndarray, dltype.FloatTensor["b a+1"]]

    def f(x, y):
        return None

    f.__annotations__ = {"x": X, "y": Y}
    g = dltype.dltyped()(f)
    DC = dltype.dltyped_dataclass()(dataclasses.make_dataclass("DC", [("x", X), ("y", Y)]))
    NT = dltype.dltyped_namedtuple()(NamedTuple("NT", [("x", X), ("y", Y)]))
    PM = pydantic.create_model("PM", __config__=pydantic.ConfigDict(arbitrary_types_allowed=True), x=(X, ...), y=(Y, ...))
    ax, ay = dltype.FloatTensor["a b"], dltype.FloatTensor["b a+1"]

    def both(x, y):
        ax.check(x, "x")
        ay.check(y, "y")

    forms = {"function": lambda x, y: g(x, y), "dataclass": lambda x, y: DC(x, y), "namedtuple": lambda x, y: NT(x, y),
             "pydantic": lambda x, y: PM(x=x, y=y), "model_validate": lambda x, y: PM.model_validate({"y": y, "x": x}), "check": both}

    def outcome(call, x, y) -> str:
        try:
            call(x, y)
            return "accept"
        except dltype.DLTypeError as e:
            return type(e).__name__ + ":" + str(e).split("] ")[-1]
        except pydantic.ValidationError:
            return "pydantic.ValidationError"
        except BaseException as e:  # noqa: BLE001
            return "OTHER " + type(e).__name__

    def values(t: int, r: int):
        a, b = 1 + (t + r) % 5, 2 + t
        x = np.zeros((a, b), dtype=np.float32).view(Meet)
        bad = (t == r % NTH)                     # one thread per round hands in an inconsistent pair
        y = np.zeros((b, a + (2 if bad else 1)), dtype=np.float32).view(Meet)
        return x, y

    problems, n = [], 0
    for fname, call in forms.items():
        alone = [[outcome(call, *values(t, r)) for r in range(ROUNDS)] for t in range(NTH)]
        got = [[None] * ROUNDS for _ in range(NTH)]

        def worker(t: int, call=call, got=got) -> None:
            for r in range(ROUNDS):
                x, y = values(t, r)
                tl.round, tl.met = r, False
                got[t][r] = outcome(call, x, y)
            tl.round = None

        for b in barriers:
            b.reset()
        ths = [threading.Thread(target=worker, args=(t,)) for t in range(NTH)]
        for th in ths:
            th.start()
        for th in ths:
            th.join(timeout=60)
        for t in range(NTH):
            for r in range(ROUNDS):
                n += 1
                if got[t][r] != alone[t][r]:
                    problems.append({"what": "a construction / call running concurrently with others of the same decorated object differs from the same one alone",
                                     "form": fname, "thread": t, "round": r, "alone": alone[t][r], "concurrent": got[t][r]})
    return {"n": n, "problems": problems[:20]}


def impl_inplace(_: dict) -> dict:
    """The same array object is validated again after its shape / dtype was changed IN PLACE: every validation judges the object
    as it is then (function, dataclass, NamedTuple, pydantic model, standalone check; numpy and torch)."""
    import dataclasses
    from typing import Annotated, NamedTuple

    import numpy as np
    import pydantic
    import torch

    import dltype

    problems, n = [], 0

    def outcome(fn):
        try:
            fn()
            return "accept"
        except dltype.DLTypeError as e:
            return type(e).__name__
        except pydantic.ValidationError:
            return "pydantic.ValidationError"
        except BaseException as e:  # noqa: BLE001
            return "OTHER " + type(e).__name__

    for lib in ("np", "torch"):
        base = np.ndarray if lib == "np" else torch.Tensor
        T = Annotated[base, dltype.FloatTensor["n 3"]]

        def f(x):
            return None

        f.__annotations__ = {"x": T}
        g = dltype.dltyped()(f)
        DC = dltype.dltyped_dataclass()(dataclasses.make_dataclass("DC", [("x", T)]))
        NT = dltype.dltyped_namedtuple()(NamedTuple("NT", [("x", T)]))
        PM = pydantic.create_model("PM", __config__=pydantic.ConfigDict(arbitrary_types_allowed=True), x=(T, ...))
        ann = dltype.FloatTensor["n 3"]
        forms = {"function": lambda a: g(a), "dataclass": lambda a: DC(a), "namedtuple": lambda a: NT(a), "pydantic": lambda a: PM(x=a),
                 "model_validate": lambda a: PM.model_validate({"x": a}), "check": lambda a: ann.check(a, "x")}
        for fname, call in forms.items():
            a = np.zeros((2, 3), dtype=np.float32) if lib == "np" else torch.zeros((2, 3), dtype=torch.float32)
            seq = [("as built (2,3)", None, "accept")]
            if lib == "np":
                seq += [("reshaped in place to (3,2)", lambda a: setattr(a, "shape", (3, 2)), "DLTypeShapeError"),
                        ("reshaped in place to (6,)", lambda a: setattr(a, "shape", (6,)), "DLTypeNDimsError"),
                        ("back to (2,3)", lambda a: setattr(a, "shape", (2, 3)), "accept"),
                        ("reshaped in place to (1,2,3)", lambda a: setattr(a, "shape", (1, 2, 3)), "DLTypeNDimsError")]
            else:
                seq += [("transposed in place to (3,2)", lambda a: a.t_(), "DLTypeShapeError"),
                        ("back to (2,3)", lambda a: a.t_(), "accept"),
                        ("unsqueezed in place to (1,2,3)", lambda a: a.unsqueeze_(0), "DLTypeNDimsError"),
                        ("resized in place to (4,3)", lambda a: a.resize_(4, 3), "accept"),
                        ("resized in place to (4,2)", lambda a: a.resize_(4, 2), "DLTypeShapeError")]
            for label, change, want in seq:
                if change is not None:
                    change(a)
                n += 1
                got = outcome(lambda: call(a))
                if got != want:
                    problems.append({"what": "the same object, changed in place since an earlier validation, was not judged as it is now",
                                     "library": lib, "form": fname, "state": label, "expected": want, "got": got})
    # the body changes the RANK of its own argument in place and returns it: the return annotation is checked against what the
    # argument was when it was validated (bindings, *group lengths), not against what it has become
    G4 = Annotated[np.ndarray, dltype.FloatTensor["*b 1 h w"]]
    G3 = Annotated[np.ndarray, dltype.FloatTensor["*b h w"]]

    def squeeze_channel(x):
        x.shape = x.shape[:-3] + x.shape[-2:]
        return x

    def keep(x):
        return x

    def grow(x):
        x.shape = (1, *x.shape)
        return x

    for body, ann_in, ann_out, shape, want in (
            (squeeze_channel, G4, G3, (2, 1, 3, 4), "accept"), (squeeze_channel, G4, G3, (5, 2, 1, 3, 4), "accept"), (squeeze_channel, G4, G3, (1, 3, 4), "accept"),
            (keep, G4, G3, (2, 1, 3, 4), "reject"),     # *b = (2,), so the result must have rank 3
            (grow, G3, G3, (2, 3, 4), "reject"),        # one axis more than *b h w with *b = (2,)
            (grow, G4, G4, (2, 1, 3, 4), "reject")):
        def f(x):
            return body(x)

        f.__annotations__ = {"x": ann_in, "return": ann_out}
        g = dltype.dltyped()(f)
        n += 1
        got = outcome(lambda: g(np.zeros(shape, dtype=np.float32)))
        if want == "reject" and got.startswith("DLType"):
            got = "reject"
        if got != want:
            problems.append({"what": "a body that re-ranks its argument in place and returns it: the result was not checked against the bindings of the call",
                             "body": body.__name__, "argument": list(shape), "expected": want, "got": got})
    return {"n": n, "problems": problems}


def gen_family(rnd, threads: int = 0, nested: bool = False) -> dict | None:
    with_prov = rnd.random() < 0.4
    base = GC.gen_case(rnd, tuples=0, plain=0, optionals=0, with_provider=1.0 if with_prov else 0.0, with_ret=0.4)
    anns = [p for p in base["params"] if p["hint"]["k"] == "ann"]
    if not anns:
        return None
    aliases, f0_params, alias_vals = {}, [], {}
    for i, p in enumerate(base["params"]):
        if rnd.random() < 0.75:
            name = f"T{i}"
            aliases[name] = p["hint"]
            alias_vals[name] = base["args"][p["name"]]
            f0_params.append({"name": p["name"], "alias": name, "opt": rnd.random() < 0.4})
        else:
            f0_params.append({"name": p["name"], "hint": p["hint"]})
    if not aliases:
        return None
    providers = {}
    pname = None
    if base.get("provider"):
        pname = "P0"
        providers[pname] = {"scope": dict(base["provider"]["scope"]), "fresh": rnd.random() < 0.4}
    funcs = [{"name": "f0", "params": f0_params, "ret": {"hint": base["ret"]} if base.get("ret") else None, "provider": pname}]
    an = list(aliases)
    funcs.append({"name": "f1", "params": [{"name": f"x{i}", "alias": a, "opt": rnd.random() < 0.5} for i, a in enumerate(an)], "ret": None, "provider": pname})
    funcs.append({"name": "f2", "params": [{"name": "y", "alias": rnd.choice(an), "opt": False}], "ret": {"alias": rnd.choice(an), "opt": False}, "provider": None if rnd.random() < 0.5 else pname})
    order = [f["name"] for f in funcs]
    rnd.shuffle(order)
    fam = {"aliases": aliases, "functions": funcs, "order": order, "providers": providers, "steps": [], "threads": threads,
           "lazy": rnd.random() < 0.25}   # hints resolvable only at the first call, one decorator object shared by the siblings

    def value_for(p: dict, base_args: dict):
        if "alias" in p:
            v = copy.deepcopy(alias_vals[p["alias"]])
        else:
            v = copy.deepcopy(base_args[p["name"]])
        r = rnd.random()
        if r < 0.2 and v.get("k") == "arr" and v["shape"]:
            i = rnd.randrange(len(v["shape"]))
            v["shape"][i] = rnd.choice([s for s in GC.SIZES + [4] if s != v["shape"][i]])
        elif r < 0.3:
            v = dict(I.V_NONE)
        return v

    nsteps = rnd.choice([4, 6, 8]) if not threads else 5
    for _ in range(nsteps):
        f = rnd.choice(funcs)
        if pname and not threads and rnd.random() < 0.2:
            sc = dict(providers[pname]["scope"])
            if sc:
                k = rnd.choice(list(sc))
                sc[k] = rnd.choice(GC.SIZES)
            fam["steps"].append({"set_provider": pname, "scope": sc, "in_place": rnd.random() < 0.5})
            continue
        step = {"fn": f["name"], "args": {p["name"]: value_for(p, base["args"]) for p in f["params"]}}
        if f.get("ret"):
            rp = f["ret"]
            step["retval"] = value_for(rp if "alias" in rp else {"name": "return", "hint": rp["hint"]}, {"return": base.get("retval")}) if ("alias" in rp or base.get("retval")) else None
        fam["steps"].append(step)
    if nested:
        # a checked body makes a checked call of f2 with its own (other) values: contexts must not mix.  The caller is
        # f1 (another function) or f2 itself (recursion); the inner call runs in the same thread or in a joined one.
        funcs[2]["provider"] = None
        inner = {"fn": "f2", "args": {"y": value_for(funcs[2]["params"][0], base["args"])}, "retval": value_for(funcs[2]["ret"], base["args"]),
                 "other_thread": rnd.random() < 0.3}
        fam["inner_steps"] = [inner]
        caller = funcs[2] if rnd.random() < 0.5 else funcs[1]
        caller["calls_inner"] = {"fn": "f2", "step": 0}
        fam["recursive"] = caller is funcs[2]
        if fam["recursive"] and not any(st.get("fn") == "f2" for st in fam["steps"]):
            st = {"fn": "f2", "args": {"y": value_for(funcs[2]["params"][0], base["args"])}, "retval": value_for(funcs[2]["ret"], base["args"])}
            fam["steps"].append(st)
    for f in funcs:
        if f.get("ret") and "hint" in f["ret"]:
            f["ret"] = {"name": "return", "hint": f["ret"]["hint"]}
    return fam


def within_resource_bound(fam: dict) -> bool:
    """Every call of the family, under the values it really gets (resized copies of the base values, provider values along the
    history), stays below the reference's resource bound: a power of millions of bits stalls the extracted model (DESIGN 10)."""
    scopes = scopes_along(fam)
    steps = [(st, scopes[i]) for i, st in enumerate(fam["steps"]) if "fn" in st]
    steps += [(st, scopes[-1] if scopes else {}) for st in fam.get("inner_steps", [])]
    return not any(ctxrun.beyond_resource_bound(history.single_case(fam, st["fn"], st, sc)) for st, sc in steps)


def expected_for(fam: dict, model: Model, scopes: list) -> list:
    reqs, idx = [], []
    for i, st in enumerate(fam["steps"]):
        if "fn" in st:
            reqs.append(I.fn_case_sx(history.single_case(fam, st["fn"], st, scopes[i])))
            idx.append(i)
    ans = model.ask_many(reqs) if reqs else []
    out = [None] * len(fam["steps"])
    for i, a in zip(idx, ans):
        out[i] = ctxrun.norm_model(a)
        if out[i].get("v") == "identity":   # nothing to check: the undecorated function simply runs
            out[i] = {"v": "accept"}
    return out


def scopes_along(fam: dict) -> list:
    cur = {k: dict(v["scope"]) for k, v in fam.get("providers", {}).items()}
    out = []
    for st in fam["steps"]:
        if "set_provider" in st:
            cur[st["set_provider"]] = dict(st["scope"])
            out.append(None)
        else:
            f = next(x for x in fam["functions"] if x["name"] == st["fn"])
            out.append(dict(cur[f["provider"]]) if f.get("provider") else {})
    return out


def run(tier: str, seed: int, rep: Report, model: Model) -> dict:
    rnd = rng_for("C09", seed)
    n_seq = depth(tier, 150, 5000)
    n_thr = depth(tier, 15, 300)
    n_nest = depth(tier, 80, 2000)
    rep.rule = ("families of 3 functions sharing 1-4 annotation aliases (optional and not) and a provider (fresh or long-lived dict), random "
                "decoration order, 4-8 steps (calls conforming / resized / None, provider updates in place or by rebinding); thread runs "
                "with 8 threads; nested checked calls; distinct = distinct family; non-trivial = an alias is used both with and without | None")
    rep.rule += '; a quarter of the families lazy (quoted alias names resolved at the first call, one decorator object shared by the siblings); nested runs incl. recursion and inner calls from a joined thread; thread runs with a rendezvous inside the body and inside get_dltype_scope of the provider; all six entry points (function, dataclass, NamedTuple, pydantic, model_validate, check) from 8 threads that meet inside the first read of tensor.shape; one array object changed in place between validations (function, dataclass, NamedTuple, pydantic, check; numpy and torch); bodies that re-rank their argument in place'
    fams = []
    while len(fams) < n_seq:
        f = gen_family(rnd)
        if f and within_resource_bound(f):
            fams.append(("seq", f))
    while len(fams) < n_seq + n_thr:
        f = gen_family(rnd, threads=8)
        if f and within_resource_bound(f):
            fams.append(("threads", f))
    while len(fams) < n_seq + n_thr + n_nest:
        f = gen_family(rnd, nested=True)
        if f and within_resource_bound(f):
            fams.append(("nested", f))
    worker = ImplWorker("harness.props.c09")
    try:
        results = worker.call_many("impl_family", [f for _, f in fams], timeout=60.0)
        inplace = worker.call("impl_inplace", {}, timeout=120.0)
        inthreads = worker.call("impl_forms_in_threads", {}, timeout=180.0)
    finally:
        worker.close()
    rep.case("same_object_changed_in_place", inplace)
    rep.count("inplace_observations", inplace.get("n", 0))
    for pr in inplace.get("problems", [{"what": "the in-place run did not finish", "detail": inplace}] if "problems" not in inplace else []):
        rep.violation(pr)
    rep.case("forms_in_threads", inthreads)
    rep.count("forms_in_threads_observations", inthreads.get("n", 0))
    for pr in inthreads.get("problems", [{"what": "the forms-in-threads run did not finish", "detail": inthreads}] if "problems" not in inthreads else []):
        rep.violation(pr)
    for (kind, fam), res in zip(fams, results):
        if "__skipped__" in res:
            continue
        mixed = any(len({p.get("opt", False) for f in fam["functions"] for p in f["params"] if p.get("alias") == a}) > 1 for a in fam["aliases"])
        brief = {"kind": kind, "aliases": {k: f"{h['cls']}[{h['shape']!r}]" for k, h in fam["aliases"].items()}, "order": fam["order"],
                 "functions": {f["name"]: [(p["name"], (p.get("alias", "inline") + ("|None" if p.get("opt") else ""))) for p in f["params"]] for f in fam["functions"]},
                 "steps": len(fam["steps"]), "provider": fam.get("providers")}
        rep.case(str(brief) + str(fam["steps"]), brief, nontrivial=mixed)
        rep.count(f"{kind}{':lazy' if fam.get('lazy') else ''}:{res.get('v')}")
        rec = {"family": brief, "steps": fam["steps"]}
        if res.get("v") != "ok":
            rep.violation({"what": "the family could not be decorated / run", "result": {k: v for k, v in res.items() if k != "src"}, **rec})
            continue
        scopes = scopes_along(fam)
        exp = expected_for(fam, model, scopes)
        outs = res["outcomes"] if kind != "threads" else res["outcomes"]
        if kind == "threads":
            for t, per_thread in enumerate(outs):
                for i, (o, e) in enumerate(zip(per_thread, exp)):
                    if e is None or o is None:
                        continue
                    if tuple(str(o.get(k)) for k in KEYS) != tuple(str(e.get(k)) for k in KEYS):
                        rep.violation({"what": f"thread {t}: outcome of a concurrent call differs from the call alone", "step": i, "got": o, "expected": e, **rec})
            continue
        for i, (o, e) in enumerate(zip(outs, exp)):
            if e is None:
                continue
            if tuple(str(o.get(k)) for k in KEYS) != tuple(str(e.get(k)) for k in KEYS):
                rep.violation({"what": "a call's outcome depends on something other than its annotations, values and provider value", "step": i, "got": o, "expected_alone": e, **rec})
                break
        # caller-visible state
        if res["alias_before"] != res["alias_after"] or any(v for v in res["alias_after"].values()):
            rep.violation({"what": "decoration / checking changed an annotation object shared through an alias", "before": res["alias_before"], "after": res["alias_after"], **rec})
        cur = {k: dict(v["scope"]) for k, v in fam.get("providers", {}).items()}
        for st, after in zip(fam["steps"], res["providers_after"]):
            if "set_provider" in st:
                cur[st["set_provider"]] = dict(st["scope"])
            if after != cur:
                rep.violation({"what": "checking modified the mapping owned by the scope provider", "after": after, "expected": cur, **rec})
                break
        if kind == "nested" and res.get("inner"):
            inner_exp = ctxrun.norm_model(model.ask(I.fn_case_sx(history.single_case(fam, "f2", fam["inner_steps"][0], {}))))
            for o in res["inner"]:
                if tuple(str(o.get(k)) for k in KEYS) != tuple(str(inner_exp.get(k)) for k in KEYS):
                    rep.violation({"what": "a nested checked call is influenced by the enclosing context", "got": o, "expected_alone": inner_exp, **rec})
        if rep.many_violations():
            break
    return {}
