"""C13 - disabled means identity; debug settings change no verdict.

Every combination of DLTYPE_DISABLE in {unset, 0, 1, true, false, TRUE, FALSE, Off, the lower-case variable name},
DLTYPE_DEBUG_MODE in {unset, 0, 1} and logging level in {WARNING, DEBUG} runs in a fresh interpreter
(harness.probe_env), which tries enabled in {default, True, False} for the three decorator kinds on a fixed
corpus of accepting and rejecting calls.  The model (Config.v: read_env, effective_enabled, returns_original)
says when decorator(obj) must be obj itself; verdict vectors and reports must equal the reference vector
whenever checking is enabled and be all-accept otherwise.  Thorough adds values pydantic-settings rejects.
"""

from __future__ import annotations

import itertools
import json
import subprocess
from concurrent.futures import ThreadPoolExecutor

from harness import impl as I
from harness.common import PY, VERIF, Model, Report, os, sx_bool, sx_str
from harness.props.c01 import sig_case

DISABLE = [None, "0", "1", "true", "false", "TRUE", "FALSE", "Off", ("lower", "1")]
DEBUG = [None, "0", "1"]
LEVELS = ["WARNING", "DEBUG"]
EXTRA_DISABLE = ["yes", "off", "On", "n", "2", "maybe", ("lower", "no"), "False", "No", "N", "F", "T", "Y", "YES", " 1", ""]


PROVIDER_CONFIGS = [("self_on_function", {"kind": "self", "scope": {"n": 5}}, False), ("self_on_method", {"kind": "self", "scope": {"n": 5}}, True),
                    ("provider_object", {"kind": "free", "scope": {"n": 5}}, False), ("not_a_provider", {"kind": "free", "scope": "bad"}, False)]


def probe_dotenv() -> dict:
    """No DLTYPE_* variable in the environment, but a .env file in the working directory that sets them: files are not the
    environment (the property speaks of the environment variable)."""
    import tempfile

    env = {k: v for k, v in os.environ.items() if not k.upper().startswith("DLTYPE_")}
    with tempfile.TemporaryDirectory() as d:
        with open(os.path.join(d, ".env"), "w") as f:
            f.write("DLTYPE_DISABLE=1\nDLTYPE_DEBUG_MODE=1\ndltype_disable=true\n")
        env["PYTHONPATH"] = os.environ.get("PYTHONPATH", "")
        r = subprocess.run([PY, "-m", "harness.probe_env", "WARNING"], capture_output=True, text=True, cwd=d, env=env, timeout=300)
    for line in r.stdout.splitlines():
        if line.startswith("PROBE "):
            return json.loads(line[6:])
    return {"import": "probe-failed", "stderr": r.stderr[-400:]}


def probe(cfg, pyflags: tuple = ()) -> dict:
    dis, dbg, lvl = cfg
    env = {k: v for k, v in os.environ.items() if not k.upper().startswith("DLTYPE_")}
    if dis is not None:
        if isinstance(dis, tuple):
            env["dltype_disable"] = dis[1]
        else:
            env["DLTYPE_DISABLE"] = dis
    if dbg is not None:
        env["DLTYPE_DEBUG_MODE"] = dbg
    env.pop("PYTHONOPTIMIZE", None)
    r = subprocess.run([PY, *pyflags, "-m", "harness.probe_env", lvl], capture_output=True, text=True, cwd=str(VERIF), env=env, timeout=300)
    for line in r.stdout.splitlines():
        if line.startswith("PROBE "):
            return json.loads(line[6:])
    return {"import": "probe-failed", "stderr": r.stderr[-400:]}


def run(tier: str, seed: int, rep: Report, model: Model) -> dict:
    dis = DISABLE + (EXTRA_DISABLE if tier == "thorough" else [])
    cfgs = list(itertools.product(dis, DEBUG, LEVELS))
    rep.rule = ("all combinations of DLTYPE_DISABLE x DLTYPE_DEBUG_MODE x logging level, each in a fresh interpreter, x enabled in {default, True, False} "
                "x {dltyped, dltyped_dataclass, dltyped_namedtuple} x 8 calls; exhaustive over the listed values; non-trivial = not the all-default configuration")
    rep.rule += '; plus, under every combination, decorations naming a scope provider (self on a function / on a method, a provider object, a non-provider) and calls with an optional None and a tuple parameter'
    rep.exhaustive = True
    with ThreadPoolExecutor(max_workers=12) as ex:
        results = list(ex.map(probe, cfgs))
    ref = probe((None, None, "WARNING"))
    base = ref.get("True", {})
    if ref.get("import") != "ok" or len(set(base.get("fn", []))) < 3:
        rep.disagreement({"what": "the reference run (defaults, enabled=True) is unusable", "ref": ref})
        return {}
    for cfg, res in zip(cfgs, results):
        dis_v, dbg_v, lvl = cfg
        dval = None if dis_v is None else (dis_v[1] if isinstance(dis_v, tuple) else dis_v)
        m = model.ask(f"(env {'none' if dval is None else sx_str(dval)} {'none' if dbg_v is None else sx_str(dbg_v)})")
        rec = {"DLTYPE_DISABLE": dis_v, "DLTYPE_DEBUG_MODE": dbg_v, "logging": lvl, "model_env": m}
        rep.case(str(cfg), {**rec, "import": res.get("import")}, nontrivial=cfg != (None, None, "WARNING"))
        if m == "IMPORT_FAILS":
            rep.count("import_fails")
            if res.get("import") == "ok":
                rep.disagreement({"what": "the model expects the settings to be refused at import", **rec})
            continue
        if res.get("import") != "ok":
            rep.violation({"what": "importing dltype failed under a documented setting", "result": res, **rec})
            continue
        gd = "disable=1" in m
        if bool(res["DEBUG_MODE"]) != ("debug=1" in m):
            rep.disagreement({"what": "DEBUG_MODE differs from the model's reading of the environment", **rec})
        for label, arg in (("default", "none"), ("True", "T"), ("False", "F")):
            en = model.ask(f"(enabled {sx_bool(gd)} {arg})") == "1"
            r = res[label]
            # decorations naming a scope provider: the model's decorate / run_call on the same four configurations
            for pname, prov, method in PROVIDER_CONFIGS:
                got = r.get("providers", {}).get(pname)
                want = {}
                for shape in ((2, 5), (2, 6)):
                    c = sig_case([("x", "a n")], [shape], provider=prov, dt="f32")
                    c["params"][0]["hint"]["cls"] = "FloatTensor"
                    c["enabled"] = en
                    if method:
                        c["method"] = True
                    mo = I.parse_model_outcome(model.ask(I.fn_case_sx(c)))
                    if mo["v"] == "decerr":
                        want = {"decoration": mo["exn"]}
                        break
                    want["decoration"] = "identity" if mo["v"] == "identity" else "wrapped"
                    want[str(shape)] = "accept" if mo["v"] in ("identity", "accept") else {"ScopeProvider": "DLTypeScopeProviderError", "Shape": "DLTypeShapeError"}.get(mo.get("kind"), mo.get("kind"))
                rep.count(f"enabled_{en}:provider:{pname}:{(got or {}).get('decoration')}")
                rr = {"enabled_arg": label, "decoration": pname, "effective_enabled": en, "observed": got, "model": want, **rec}
                if got is None or any(got.get(k) != v for k, v in want.items()):
                    rep.violation({"what": ("decorating with a scope provider: behaviour differs from the model" if en else
                                            "disabled, yet decorating with a scope provider did not simply return the function (or a check ran)"), **rr})
                elif not en and got.get("provider_consulted"):
                    rep.violation({"what": "disabled, yet the scope provider was consulted", **rr})
            want_ne = base.get("fn_named_expr") if en else ["accept"] * len(base.get("fn_named_expr", []))
            if r.get("fn_named_expr") != want_ne:
                rep.violation({"what": "verdicts / reports of calls whose named expression establishes a name differ from the reference run" if en else
                               "a check was performed although disabled", "expected": want_ne, "observed": r.get("fn_named_expr"), "enabled_arg": label, **rec})
            # the function with an optional None and a tuple parameter: same reports as the reference run
            want_opt = base.get("fn_opt") if en else ["accept"] * len(base.get("fn_opt", []))
            rep.count(f"enabled_{en}:fn_opt:{'same' if r.get('fn_opt') == want_opt else 'differs'}")
            if r.get("fn_opt") != want_opt:
                rep.violation({"what": "verdicts / reports of calls with an optional None and a tuple parameter differ from the reference run" if en else
                               "a check was performed although disabled", "expected": want_opt, "observed": r.get("fn_opt"), "enabled_arg": label, **rec})
            for kind in ("fn", "dc", "nt"):
                want_identity = model.ask(f"(orig {kind} F {sx_bool(en)})") == "1"
                rep.count(f"enabled_{en}:{kind}:identity_{r[kind + '_identity']}")
                rr = {"enabled_arg": label, "kind": kind, "effective_enabled": en, "observed": {k: r[k] for k in (kind + "_identity", kind)}, **rec}
                if r[kind + "_identity"] != want_identity:
                    rep.violation({"what": "decorator(obj) is obj exactly when checking is disabled - violated", **rr})
                want = base[kind] if en else ["accept"] * len(base[kind])
                if r[kind] != want:
                    rep.violation({"what": "verdicts / reports differ from the reference corpus outcome" if en else "a check was performed although disabled", "expected": want, **rr})
    # interpreter flags are not the switch either: python -O / -OO (asserts stripped, __debug__ false) decide nothing
    for flags in (("-O",), ("-OO",)):
        po = probe((None, None, "WARNING"), pyflags=flags)
        rep.case("python " + " ".join(flags), {"import": po.get("import")})
        rep.count("optimized_interpreter:" + str(po.get("import")))
        if po.get("import") != "ok":
            rep.violation({"what": "importing dltype failed under " + " ".join(flags), "result": po})
            continue
        for label in ("default", "True", "False"):
            if po[label] != ref[label]:
                diff = {k: {"optimized": po[label].get(k), "reference": ref[label].get(k)} for k in ref[label] if po[label].get(k) != ref[label].get(k)}
                rep.violation({"what": "running under python " + " ".join(flags) + " changed what the decorators do or decide", "enabled_arg": label, "differences": diff})
                break
    # a .env file in the working directory is not the environment
    de = probe_dotenv()
    rep.case("dotenv_file_in_cwd", {"import": de.get("import")})
    rep.count("dotenv_probe:" + str(de.get("import")))
    if de.get("import") != "ok":
        rep.violation({"what": "importing dltype failed in a directory that holds a .env file", "result": de})
    else:
        for label in ("default", "True"):
            if de[label] != ref[label]:
                rep.violation({"what": "a .env file in the working directory changed what the decorators do (only the environment variables may)",
                               "enabled_arg": label, "with_dotenv": {k: de[label][k] for k in ("fn_identity", "dc_identity", "nt_identity", "fn")},
                               "reference": {k: ref[label][k] for k in ("fn_identity", "dc_identity", "nt_identity", "fn")}})
                break
        if bool(de.get("DEBUG_MODE")) != bool(ref.get("DEBUG_MODE")):
            rep.violation({"what": "a .env file in the working directory switched DEBUG_MODE", "with_dotenv": de.get("DEBUG_MODE")})
    return {"reference_vector": base.get("fn")}
