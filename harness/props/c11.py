"""C11 - tuple hints are checked element by element in the shared context, for every fixed length incl. one.

Streams: tuple hints of length 1..3 (annotated and plain positions mixed) as parameter and as return, values
conforming or with one fault in one element; bindings are shared with the other parameters.  The reported
tensor name (p, p[1], ...) is compared with the model's.
"""

from __future__ import annotations

import copy

from harness import ctxrun
from harness import gen_ctx as GC
from harness.common import ImplWorker, Model, Report, rng_for, depth
from harness.props.c01 import sig_case


def corpus() -> list[dict]:
    c = []
    c.append(sig_case([("x", ("a b",))], [((2, 3),)]))                                  # D5: length one
    c.append(sig_case([("x", ("a b",)), ("y", "b")], [((2, 3),), (4,)]))
    c.append(sig_case([("x", "a")], [(2,)], ret=("a b",), retval=((3, 3),)))
    c.append(sig_case([("x", ("a b", "b c", "c a"))], [((2, 3), (3, 4), (4, 3))]))       # third element: x[2]
    c.append(sig_case([("x", ("a", "a"))], [((2,), (3,))]))
    # one annotation alias used bare and as the only element of a tuple hint (R18b: a cache keyed by the flattened annotations
    # confused `Alias` with `tuple[Alias]`); both orders, conforming and violating
    for ret_shape in ((2, 3), (2, 4)):
        c.append({**sig_case([("x", "a b")], [(2, 3)], ret=("a b",), retval=(ret_shape,)), "share_aliases": True})
        c.append({**sig_case([("x", ("a b",))], [((2, 3),)], ret="a b", retval=ret_shape), "share_aliases": True})
        c.append({**sig_case([("x", ("a b",)), ("y", "a b")], [((2, 3),), ret_shape]), "share_aliases": True})
    return c


def alias_twins(rnd, base: dict) -> dict | None:
    """The return hint becomes tuple[<the hint of some bare annotated parameter>] and the body returns that argument in a
    one-element tuple; the case is written with shared aliases."""
    bare = [p for p in base["params"] if p.get("hint") and p["hint"]["k"] == "ann" and isinstance(base["args"].get(p["name"]), dict)
            and base["args"][p["name"]].get("k") == "arr" and not base.get("positional")]
    if not bare or base.get("retval") == "raise":
        return None
    p = rnd.choice(bare)
    c = copy.deepcopy(base)
    c["ret"] = {"k": "tuple", "elts": [copy.deepcopy(p["hint"])]}
    c["retval"] = {"k": "tup", "elts": [copy.deepcopy(base["args"][p["name"]])]}
    c.pop("retval_same_as", None)
    c["share_aliases"] = True
    return c


def run(tier: str, seed: int, rep: Report, model: Model) -> dict:
    rnd = rng_for("C11", seed)
    n = depth(tier, 1000, 40000)
    rep.rule = ("contexts whose parameters / return are mostly tuple hints of length 1-3 with plain positions mixed in; conforming or one "
                "fault; distinct = distinct case; non-trivial = some tuple hint has an annotated element at index > 0 or has length 1")
    rep.rule += '; plus tuples of another length than their hint (must not be accepted)'
    cases = corpus()
    for _ in range(n):
        base = GC.gen_case(rnd, tuples=0.75, plain=0.05, optionals=0.1, with_ret=0.6, opt_tuples=0.15)
        if rnd.random() < 0.4:
            cases.append(base)
        else:
            p = GC.perturb(rnd, base)
            cases.append(p[0] if p else base)
        if rnd.random() < 0.1:
            tw = alias_twins(rnd, cases[-1])
            if tw is not None:
                cases.append(tw)
        elif rnd.random() < 0.25:
            cases[-1] = {**cases[-1], "share_aliases": True}
    # a tuple of another length than its hint: some annotated position has no value, or some value has no position - such a
    # call must not simply be accepted (today: ValueError from zip(strict=True))
    nmis = 0
    mismatch_ids = set()
    for _ in range(depth(tier, 150, 3000)):
        base = GC.gen_case(rnd, tuples=0.9, plain=0.05, optionals=0.0, with_ret=0.3, with_provider=0.0)
        tp = [p for p in base["params"] if p["hint"]["k"] == "tuple" and isinstance(base["args"].get(p["name"]), dict) and base["args"][p["name"]].get("k") == "tup"
              and any(e["k"] != "plain" for e in p["hint"]["elts"])]   # a tuple hint without any annotated element is none of dltype's business
        if not tp:
            continue
        p = rnd.choice(tp)
        c = copy.deepcopy(base)
        elts = c["args"][p["name"]]["elts"]
        if rnd.random() < 0.5 and len(elts) > 1:
            elts.pop(rnd.randrange(len(elts)))
        else:
            elts.insert(rnd.randrange(len(elts) + 1), copy.deepcopy(rnd.choice(elts)))
        c["length_mismatch"] = True
        mismatch_ids.add(id(c))
        cases.append(c)
        nmis += 1
    rep.streams["tuple_length_mismatch"] = nmis
    worker = ImplWorker("harness.ctxrun")
    try:
        for case, im, mo, raw in ctxrun.run_cases(cases, model, worker):
            if im.get("detail", {}).get("__skipped__"):
                rep.count("not_run_after_timeouts")
                continue
            if case.get("length_mismatch"):
                b = ctxrun.brief(case)
                rep.case(str(b), {**b, "impl": im.get("kind") or im.get("exn") or im["v"]}, nontrivial=True)
                rep.count(f"length_mismatch:impl_{im['v']}:{im.get('exn') or im.get('kind') or ''}")
                rec = {"case": b, "impl": im, "model": mo}
                if im["v"] in ("accept",):
                    rep.violation({"what": "a tuple of another length than its hint was accepted (an annotated position without a value, or a value without a position)", **rec})
                elif im["v"] != "identity" and not ctxrun.same_verdict(im, mo):
                    rep.disagreement({"what": "model and implementation differ on a tuple of another length than its hint", **rec})
                continue
            if im.get("detail", {}).get("__skipped__"):
                rep.count("not_run_after_timeouts")
                continue
            b = ctxrun.brief(case)
            hints = [p["hint"] for p in case["params"] if p.get("hint")] + ([case["ret"]] if case.get("ret") else [])
            tl = [len(h["elts"]) for h in hints if h["k"] == "tuple"]
            ref = GC.reference(case)
            rep.case(str(b), {**b, "impl": im.get("kind") or im["v"], "name": im.get("name")}, nontrivial=bool(tl) and (1 in tl or max(tl) > 1))
            rep.count(f"tuple_lens_{sorted(set(tl))}:ref_{ref['v']}:impl_{im['v']}")
            rec = {"case": b, "reference": ref, "impl": im, "model": mo}
            if im["v"] == "harness":
                rep.violation({"what": "the call did not finish", **rec})
            elif im["v"] == "accept" and ref["v"] not in ("accept", "unknown"):
                rep.violation({"what": "a tuple element that violates its annotation (in the shared context) was accepted", **rec})
            elif ref["v"] == "accept" and im["v"] not in ("accept", "identity"):
                rep.violation({"what": "a conforming tuple was rejected", **rec})
            elif im["v"] == "reject" and mo.get("v") == "reject" and im.get("name") != mo.get("name"):
                rep.violation({"what": "the report names the wrong tuple element", **rec})
            elif not ctxrun.same_report(im, mo):
                rep.disagreement({"what": "model and implementation differ", **rec})
            if rep.many_violations():
                break
    finally:
        worker.close()
    return {}
