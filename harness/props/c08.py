"""C08 - rejections are DLTypeErrors (hence TypeErrors) of the right kind with factually correct reports, and the
checker raises nothing else.

Streams: single perturbation of a conforming context (report compared exactly with the model's, whose
factuality is what the Coq development proves) and multi-fault inputs (verdict, DLTypeError-ness and a direct
factuality test of the implementation's own report).  Arithmetic exceptions escaping from undefined
expressions are the listed known finding K1, anything else is a violation.
"""

from __future__ import annotations

import re

from harness import ctxrun
from harness import gen_ctx as GC
from harness.common import ImplWorker, Model, Report, rng_for, depth
from harness.props.c01 import sig_case

ARITH = {"ZeroDivisionError", "ValueError"}


def factual(case: dict, im: dict) -> str | None:
    """None when the report is true of the named tensor, else what is wrong with it."""
    items = {it["name"]: it for it in GC.flatten(case)}
    kind = im.get("kind")
    if kind in ("Unsupported", "ScopeProvider"):
        return None
    it = items.get(im.get("name"))
    if it is None:
        return f"no annotated tensor is called {im.get('name')!r}"
    v = it["v"]
    if v is None or v.get("k") != "arr":
        return "the named value is not an array"
    shape = v["shape"]
    dims = it["h"]["dims"]
    if kind == "NDims":
        if im["actual"] != len(shape):
            return "actual ndims is not the tensor's rank"
        has_marker = any(d["k"] in ("anon", "star") for d in dims)
        if not has_marker and im["expected"] != len(dims):
            return "expected ndims is not the number of declared axes"
        if im["expected"] == im["actual"]:
            return "expected == actual"
        return None
    if kind == "Dtype":
        return None if v["dt"] not in GC.CLASSES[it["h"]["cls"]] else "the dtype belongs to the class"
    if kind == "Shape":
        i = im["idx"]
        if not (0 <= i < len(shape)):
            return "axis index outside the actual tensor"
        if shape[i] != im["actual"]:
            return "actual is not the size at that axis"
        if im["expected"] == im["actual"]:
            return "expected == actual"
        return None
    if kind == "InvalidRef":
        return None
    if kind == "Duplicate":
        return "duplicate tensor name reported for distinct names"
    return f"unknown report kind {kind}"


def corpus() -> list[dict]:
    c = []
    c.append(sig_case([("x", "a b"), ("y", "a/b")], [(2, 0), (1,)]))          # K1: division by a size-0 axis
    c.append(sig_case([("x", "a b"), ("y", "isqrt(a-b)")], [(2, 3), (1,)]))  # K1: isqrt of a negative value
    c.append(sig_case([("x", "a b"), ("y", "a^(b-3)")], [(0, 2), (1,)]))     # K1: 0 to a negative power
    c.append(sig_case([("x", ("a b", "b c"))], [((2, 3), (4, 4))]))           # tuple element naming x[1]
    c.append(sig_case([("x", "a ... 3")], [(2, 5, 5, 4)]))                    # index in the actual tensor
    c.append(sig_case([("x", "a")], [(2,)], ret="a+1", retval=(2,)))
    c.append(sig_case([("x", "a"), ("y", "zz+1")], [(2,), (3,)]))             # unbound reference
    return c


def run(tier: str, seed: int, rep: Report, model: Model) -> dict:
    rnd = rng_for("C08", seed)
    n = depth(tier, 1400, 40000)
    rep.rule = ("conforming contexts with exactly one perturbation (report compared field by field) or several (verdict, exception type, "
                "factuality of the report); distinct = distinct case; non-trivial = the implementation rejected")
    rep.rule += "; plus contexts in which a named expression meets an already bound name, with every single-axis resize; invalid-reference reports compared with the reference's missing name and bound names"
    cases, exact = [], []
    for c in corpus():
        cases.append(c)
        exact.append(True)
    for _ in range(n):
        base = GC.gen_case(rnd)
        if rnd.random() < 0.7:
            p = GC.perturb(rnd, base)
            if p:
                cases.append(p[0])
                exact.append(True)
        else:
            c = base
            for _ in range(rnd.choice([2, 3, 4])):
                p = GC.perturb(rnd, c)
                if p:
                    c = p[0]
            cases.append(c)
            exact.append(False)
    # directed: an axis with two demanded values (a named expression whose name is already bound), every single resize
    nreb = 0
    for base in GC.rebound_cases(rnd, depth(tier, 25, 600)):
        for c in GC.all_resizes(base):
            cases.append(c)
            exact.append(True)
            nreb += 1
    rep.streams["rebound_named_expression_resizes"] = nreb
    rep.streams["corpus"] = len(corpus())
    rep.streams["one_fault"] = sum(exact) - len(corpus()) - nreb
    rep.streams["multi_fault"] = len(exact) - sum(exact)
    worker = ImplWorker("harness.ctxrun")
    try:
        for (case, im, mo, raw), ex in zip(ctxrun.run_cases(cases, model, worker), exact):
            if im.get("detail", {}).get("__skipped__"):
                rep.count("not_run_after_timeouts")
                continue
            ref = GC.reference(case)
            b = ctxrun.brief(case)
            rep.case(str(b), {**b, "impl": im}, nontrivial=im["v"] == "reject")
            rep.count(("one" if ex else "multi") + f":{im['v']}:{im.get('kind') or im.get('exn') or ''}")
            rec = {"case": b, "reference": ref, "impl": im, "model": mo}
            if im["v"] == "harness":
                rep.violation({"what": "the call did not finish", **rec})
            elif im["v"] == "crash":
                if im["exn"] in ARITH and ref["v"] == "undefined" and ref.get("kind") == im["exn"] and mo.get("v") == "crash" and mo.get("exn") == im["exn"]:
                    if not rep.known("K1", rec):
                        rep.violation({"what": f"{im['exn']} escaped from the checker", **rec})
                else:
                    rep.violation({"what": f"{im['exn']} (not a DLTypeError) came out of the checker", **rec})
            elif im["v"] == "reject":
                why = factual(case, im)
                if why is None and im.get("kind") == "InvalidRef" and ref["v"] == "undefined" and ref.get("kind") == "KeyError" and ex:
                    # the reference knows which name is unbound where, and which names are bound at that point
                    if im.get("name") != ref["name"] or im.get("missing") != ref["missing"]:
                        why = f"the unbound reference is {ref['missing']!r} in {ref['name']!r}"
                    elif sorted(v for v in (im.get("valid") or []) if re.fullmatch(r"[a-zA-Z][a-zA-Z0-9_]*", v)) != ref["bound"] and not any("[" in v for v in (im.get("valid") or [])):
                        # (expression axes are remembered under their own text; only identifiers are names)
                        why = f"the names bound at that point are {ref['bound']}"

                if str(im.get("kind", "")).startswith("Unparsed"):
                    rep.violation({"what": "the error message does not have the documented fields", **rec})
                elif why is not None:
                    rep.violation({"what": "the report is not true of the tensor: " + why, **rec})
                elif ex and not ctxrun.same_report(im, mo):
                    # exactly one fault: there is exactly one factual first-come report
                    if mo.get("v") == "reject" and (mo.get("kind") != im.get("kind") or mo.get("name") != im.get("name")):
                        rep.violation({"what": "wrong error kind or tensor name for the single fault", **rec})
                    elif mo.get("v") == "reject" and factual(case, mo) is None and ref["v"] == "reject":
                        # one fault, one first-come report: the model's (proved factual, Reports.v) names the same tensor and kind
                        # but other numbers - the implementation's index / expected / actual is not the fault's
                        rep.violation({"what": "the numbers of the report (index / expected / actual) are not those of the single fault", **rec})
                    else:
                        rep.disagreement({"what": "model and implementation report differently", **rec})
                elif not ctxrun.same_verdict(im, mo):
                    rep.disagreement({"what": "model and implementation differ in verdict", **rec})
            elif not ctxrun.same_verdict(im, mo):
                rep.disagreement({"what": "model and implementation differ in verdict", **rec})
            if rep.many_violations():
                break
    finally:
        worker.close()
    return {}
