"""C07 - arguments are validated before the body runs; the result before it is returned.

Stream: conforming contexts with one violation placed in an argument (any position, tuple elements and
defaults included) or only in the return value.  Observed: the side-effect log written by the wrapped body
(how often it ran) and whether a value or an exception reached the caller.
"""

from __future__ import annotations

import copy

from harness import ctxrun
from harness import gen_ctx as GC
from harness.common import ImplWorker, Model, Report, rng_for, depth
from harness.props.c01 import sig_case


def run(tier: str, seed: int, rep: Report, model: Model) -> dict:
    rnd = rng_for("C07", seed)
    n = depth(tier, 1000, 40000)
    rep.rule = ("conforming contexts with a return hint, one fault placed in a single argument position or only in the return value "
                "(resize / add / drop axis / dtype / None / non-array); distinct = distinct case; non-trivial = the fault makes the context inconsistent")
    rep.rule += "; a third of the cases with trailing parameters left at (possibly violating) defaults; signatures with an un-annotated parameter called cls / self; bodies that return their own argument under a return annotation that is a one-step variation of the parameter's; 40% of the cases after an earlier conforming call of the same decorated function; faults that are a changed scope-provider value under unchanged arguments"
    cases, where = [], []
    cases.append(sig_case([("x", "a b")], [(2, 3)], ret="a b", retval=(2, 4)))
    where.append("ret")
    cases.append(sig_case([("x", "a b"), ("y", "b")], [(2, 3), (4,)], ret="a b", retval=(2, 3)))
    where.append("args")
    # an un-annotated parameter that merely is CALLED cls / self, after the tensors (plain functions, static methods)
    for nm in ("cls", "self"):
        for shapes, wh in (([(2, 4), (4,)], "args"), ([(2, 3), (4,)], "args"), ([(2, 3), (3,)], "ret")):
            c = sig_case([("x", "a 3"), ("y", "3")], shapes, ret="a", retval=(5,) if wh == "ret" else (2,))
            c["params"].append({"name": nm, "hint": None, "default": {"k": "int"}})
            cases.append(c)
            where.append(wh)
    tries = 0
    while len(cases) < n and tries < n * 5:
        tries += 1
        base = GC.gen_case(rnd, with_ret=1.0)
        w = rnd.choice(["args", "ret"])
        p = GC.perturb(rnd, base, where=w) if rnd.random() < 0.85 else None
        if not p and base.get("provider") and isinstance(base["provider"].get("scope"), dict) and base["provider"]["scope"]:
            # the fault is a changed provider value: the very same arguments no longer conform
            c = copy.deepcopy(base)
            k = rnd.choice(sorted(c["provider"]["scope"]))
            c["provider"]["scope"][k] += rnd.choice([1, 2, 5])
            ra_, rall_ = GC.reference(c, "args")["v"], GC.reference(c, "all")["v"]
            if ra_ in ("accept", "unknown") and rall_ in ("accept", "unknown"):
                continue
            w = "args" if ra_ != "accept" else "ret"
            c["warmup"] = {"args": base["args"], "scope": base["provider"]["scope"], "retval": base["retval"]}
            rep.streams["provider_value_changed_after_a_conforming_call"] = rep.streams.get("provider_value_changed_after_a_conforming_call", 0) + 1
            cases.append(c)
            where.append(w)
            continue
        if p:
            c = p[0]
            if rnd.random() < 0.4:
                # the same decorated function has already been called once, with the conforming values
                c["warmup"] = {"args": base["args"], "scope": (base.get("provider") or {}).get("scope") if isinstance((base.get("provider") or {}).get("scope"), dict) else None,
                               "retval": base["retval"]}
                rep.streams["after_a_conforming_call"] = rep.streams.get("after_a_conforming_call", 0) + 1
            if rnd.random() < 0.35:
                # trailing parameters get their (possibly violating) value as a declared default and the caller omits them:
                # a default is validated before the body like a passed value
                j = rnd.randrange(len(c["params"]))
                for q in c["params"][j:]:
                    if q["name"] in c["args"]:
                        q["default"] = c["args"][q["name"]]
                        if rnd.random() < 0.8:
                            c["args"].pop(q["name"])
                rep.streams["with_omitted_defaults"] = rep.streams.get("with_omitted_defaults", 0) + 1
            from harness import impl as _I
            if _I.maybe_lazy(rnd, c, 0.2).get("lazy_hints"):
                rep.streams["forward_reference_hints"] = rep.streams.get("forward_reference_hints", 0) + 1
            cases.append(c)
            where.append(w)
    # the body returns its own argument: the same object is demanded to fit the return annotation as well
    own = GC.returns_argument_cases(rnd, depth(tier, 300, 6000))
    rep.streams["body_returns_its_argument"] = len(own)
    for c in own:
        cases.append(c)
        where.append("ret")
    worker = ImplWorker("harness.ctxrun")
    try:
        for (case, im, mo, raw), w in zip(ctxrun.run_cases(cases, model, worker), where):
            if im.get("detail", {}).get("__skipped__"):
                rep.count("not_run_after_timeouts")
                continue
            ra = GC.reference(case, "args")
            rall = GC.reference(case, "all")
            b = ctxrun.brief(case)
            called = raw.get("called")
            rep.case(str(b), {**b, "fault_in": w, "body_runs": called, "impl": im.get("kind") or im["v"]}, nontrivial=rall["v"] != "accept")
            rep.count(f"fault_{w}:args_{ra['v']}:all_{rall['v']}:runs_{called}:impl_{im['v']}")
            rec = {"case": b, "fault_in": w, "reference_args": ra, "reference_all": rall, "impl": im, "body_runs": called, "model": mo}
            if im["v"] in ("harness",):
                rep.violation({"what": "the call did not finish", **rec})
            elif im["v"] == "identity":
                pass
            elif ra["v"] != "accept":
                if called != 0:
                    rep.violation({"what": "the body ran although an argument violates its annotation", **rec})
                elif im["v"] == "accept":
                    rep.violation({"what": "a violating argument was accepted", **rec})
            elif rall["v"] != "accept":
                if called != 1:
                    rep.violation({"what": f"only the return value violates its annotation but the body ran {called} times", **rec})
                elif im["v"] == "accept":
                    rep.violation({"what": "a violating return value was handed to the caller", **rec})
            if im["v"] not in ("harness", "identity") and (im.get("called") != mo.get("called") or not ctxrun.same_verdict(im, mo)):
                rep.disagreement({"what": "model and implementation differ (verdict or whether the body ran)", **rec})
            if rep.many_violations():
                break
    finally:
        worker.close()
    return {}
