"""C14 - functions, dataclasses, NamedTuples and pydantic models give the same verdict and report.

The same ordered (name, annotation, value) list is rendered as the parameters of a dltyped function, the
fields of a dltyped dataclass, of a dltyped NamedTuple and of a pydantic model; values are arrays of the
declared library or None for optional fields, passed positionally or by keyword in shuffled order.  The four
outcomes are compared with each other (the property) and with the model's (the tie).
"""

from __future__ import annotations

import copy

from harness import ctxrun, forms
from harness import gen_ctx as GC
from harness.common import ImplWorker, Model, Report, rng_for, depth
from harness.impl import parse_model_outcome

KEYS = ("v", "kind", "name", "idx", "expected", "actual", "missing", "valid", "exn")
FORMS = ("fn", "dc", "nt", "pyd")


def in_domain(case: dict) -> bool:
    for it in GC.flatten(case):
        v = it["v"]
        if v is None:
            return False
        if v.get("k") == "none":
            if not it["opt"]:
                return False
        elif v.get("k") != "arr" or v["lib"] != it["h"]["lib"]:
            return False
    return True


def run(tier: str, seed: int, rep: Report, model: Model) -> dict:
    rnd = rng_for("C14", seed)
    n = depth(tier, 500, 15000)
    rep.rule = ("ordered field lists (optional fields, markers, expressions, plain fields) with values that are arrays of the declared library or "
                "None for optional fields, conforming or with one / several faults, rendered in the four forms with shuffled keyword order; "
                "distinct = distinct (fields, values); non-trivial = at least two annotated fields")
    rep.rule += '; plus field lists with tuple-typed fields rendered as function, dataclass and NamedTuple; half of the faulty cases after an earlier conforming use of the same class / function'
    bases = []
    tries = 0
    while len(bases) < n and tries < n * 6:
        tries += 1
        c = GC.gen_case(rnd, with_provider=0, with_ret=0, tuples=0, optionals=0.3, plain=0.2)
        conforming = {k_: v for k_, v in c["args"].items()}
        k = rnd.random()
        nf = 0
        if k > 0.35:
            for _ in range(1 if k < 0.8 else 2):
                p = GC.perturb(rnd, c)
                if p:
                    c = p[0]
                    nf += 1
        c["nfaults"] = nf
        for p in c["params"]:
            if p["hint"]["k"] == "plain":
                c["args"][p["name"]] = {"k": "int"}
                conforming[p["name"]] = {"k": "int"}
        if nf and rnd.random() < 0.5:
            c["warm"] = conforming     # the same class / function has been used once before, with the conforming values
        if in_domain(c):
            bases.append(c)
    # tuple-typed fields (plain and annotated elements in any position, optional elements): the three forms dltype decorates itself
    ntup = 0
    tries = 0
    while ntup < n // 3 and tries < n * 4:
        tries += 1
        c = GC.gen_case(rnd, with_provider=0, with_ret=0, tuples=0.6, optionals=0.2, plain=0.15)
        if not any(p["hint"]["k"] == "tuple" for p in c["params"]):
            continue
        k = rnd.random()
        if k > 0.4:
            p = GC.perturb(rnd, c)
            if p:
                c = p[0]
                c["nfaults"] = 1
        for p in c["params"]:
            if p["hint"]["k"] == "plain":
                c["args"][p["name"]] = {"k": "int"}
        if in_domain(c) and all(isinstance(c["args"][p["name"]], dict) and (p["hint"]["k"] != "tuple" or c["args"][p["name"]].get("k") == "tup") for p in c["params"]):
            c["forms3"] = True
            bases.append(c)
            ntup += 1
    rep.streams["four_forms"] = len(bases) - ntup
    rep.streams["tuple_fields_three_forms"] = ntup
    cases = []
    for c in bases:
        names = [p["name"] for p in c["params"]]
        for form in FORMS:
            if form == "pyd" and c.get("forms3"):
                form = "fn"   # placeholder keeping four slots per base: the function form twice
            order = list(names)
            rnd.shuffle(order)
            cases.append({"form": form, "fields": [{"name": p["name"], "hint": p["hint"]} for p in c["params"]], "values": dict(c["args"]),
                          "order": order, "npos": 0 if form == "pyd" else rnd.randrange(len(names) + 1), **({"warm": c["warm"]} if "warm" in c else {})})
    answers = model.ask_many([forms.form_case_sx(c) for c in cases])
    worker = ImplWorker("harness.ctxrun")
    try:
        results = worker.call_many("impl_form", cases, timeout=20.0)
    finally:
        worker.close()
    for i, base in enumerate(bases):
        four = {}
        mods = {}
        for j, form in enumerate(("fn", "dc", "nt", "pyd")):
            r = results[4 * i + j]
            four[form] = ctxrun.norm_impl(r) if form == "fn" else ({k: r[k] for k in KEYS if k in r} if "v" in r else {"v": "harness", "detail": r})
            try:
                mods[form] = parse_model_outcome(answers[4 * i + j].split(" ; ")[0])
            except Exception:  # noqa: BLE001
                mods[form] = {"v": "driver", "raw": answers[4 * i + j]}
        b = ctxrun.brief(base)
        ref = GC.reference(base)
        rep.case(str(b), {**b, "fn": four["fn"].get("kind") or four["fn"]["v"]}, nontrivial=len(GC.flatten(base)) >= 2)
        rep.count(f"ref_{ref['v']}:fn_{four['fn']['v']}")
        rec = {"case": b, "reference": ref, "impl": four, "model": mods}
        if any(x["v"] == "harness" for x in four.values()):
            if any(x.get("detail", {}).get("__skipped__") for x in four.values()):
                continue
            rep.violation({"what": "a construction did not finish", **rec})
            continue
        if four["fn"]["v"] == "identity":
            continue
        if ref["v"] == "undefined" and ref.get("kind") in ("ValueError", "ZeroDivisionError", "OverflowError"):
            # an expression axis without arithmetic value under these sizes: the arithmetic exception that escapes is the known
            # finding K1 (C08); pydantic re-wraps a ValueError raised inside a validator as its own ValidationError, which is
            # pydantic's documented behaviour and not a difference between the entry points' verdicts
            rep.count("arithmetically_undefined_not_compared")
            continue
        canon = {f: tuple(str(four[f].get(k)) for k in KEYS) for f in four}
        if len(set(canon.values())) != 1:
            rep.violation({"what": "the four entry points disagree on identical inputs", **rec})
        else:
            # several faults: which one is reported first is the code's business (verdict compared); one fault: the whole report
            keys = KEYS if base.get("nfaults", 0) <= 1 else ("v",)
            for f in four:
                if tuple(str(mods[f].get(k)) for k in keys) != tuple(str(four[f].get(k)) for k in keys):
                    rep.disagreement({"what": f"model and implementation differ for form {f}", **rec})
                    break
        if rep.many_violations():
            break
    return {"forms": ["function", "dataclass", "NamedTuple", "pydantic"]}
