"""C02 - no false rejects; a conforming call runs the body exactly once with the caller's arguments and hands
back the very object the body returned.

Streams: generated conforming contexts in every call style (positional, keyword, mixed, omitted defaults incl.
unhashable ones), boundary corpus (one-element tuples, zero absorbed axes, rank 0, size-0 axes, long-lived
provider dict).  Oracle: gen_ctx.reference says a consistent assignment exists (and names inside expressions
are bound earlier by construction), so anything but a clean return is the failing input.
"""

from __future__ import annotations

import copy

from harness import ctxrun
from harness import gen_ctx as GC
from harness.common import ImplWorker, Model, Report, rng_for, depth
from harness.impl import H_PLAIN
from harness.props.c01 import sig_case


def corpus() -> list[dict]:
    c = []
    c.append(sig_case([("x", ("a b",))], [((2, 3),)], ret=("a b",), retval=((2, 3),)))            # one-element tuples
    c.append(sig_case([("x", "a ... b")], [(2, 3)]))                                                # zero absorbed axes
    c.append(sig_case([("x", "*g a"), ("y", "*g a")], [(4,), (4,)]))
    c.append(sig_case([("x", None)], [()]))                                                         # rank 0
    c.append(sig_case([("x", "a b"), ("y", "a*b")], [(0, 3), (0,)]))                                # size-0 axes
    c.append(sig_case([("x", "a n")], [(2, 5)], provider={"kind": "free", "scope": {"n": 5}, "fresh": False}))
    d = sig_case([("x", "a b")], [(2, 3)])
    d["params"].append({"name": "opts", "hint": None, "default": {"k": "list"}})                  # unhashable default
    c.append(d)
    # positional-only parameters bind names that later regular parameters use (signature order, not __annotations__ order)
    d = sig_case([("x", "a"), ("y", "a+1")], [(2,), (3,)])
    d["params"][0]["posonly_end"] = True
    d["positional"] = ["x"]
    c.append(d)
    d = sig_case([("x", "a b"), ("y", "b"), ("z", "a*b y=b")], [(2, 3), (3,), (6, 3)])
    d["params"][1]["posonly_end"] = True
    d["positional"] = ["x", "y"]
    c.append(d)
    return c


def styles(rnd, case: dict) -> dict:
    c = copy.deepcopy(case)
    names = [p["name"] for p in c["params"]]
    r = rnd.random()
    if r < 0.35:
        c["positional"] = list(names)
    elif r < 0.6:
        c["positional"] = names[: rnd.randrange(len(names) + 1)]
    else:
        c["positional"] = []
    # some of the positionally passed leading parameters are declared positional-only
    if c["positional"] and rnd.random() < 0.3:
        c["params"][rnd.randrange(len(c["positional"]))]["posonly_end"] = True
    # a trailing defaulted parameter that the caller omits (its default is checked like a passed value)
    if rnd.random() < 0.35:
        last = c["params"][-1]
        if last["name"] not in c["positional"]:
            last["default"] = c["args"].pop(last["name"])
    if rnd.random() < 0.2:
        c["params"].append({"name": "opts", "hint": None, "default": {"k": "list"}})
    if rnd.random() < 0.5:
        # keywords written in another order than the parameters are declared: checking follows the declaration
        c["kw_order"] = rnd.sample(names, len(names))
    # hints as forward references resolved at the first call; half of them after a call made while they were unresolvable
    from harness import impl as _I
    return _I.maybe_lazy(rnd, c, 0.2)


def run(tier: str, seed: int, rep: Report, model: Model) -> dict:
    rnd = rng_for("C02", seed)
    n = depth(tier, 1000, 40000)
    rep.rule = ("conforming contexts (as C01) in a random call style: positional / keyword (in declaration or any other order) / mixed / omitted defaults / unhashable default; "
                "distinct = distinct (signature, values, style); non-trivial = at least two annotated tensors")
    cases = corpus()
    for _ in range(n):
        cases.append(styles(rnd, GC.gen_case(rnd, with_ret=0.6)))
    rep.streams["corpus"] = len(corpus())
    rep.streams["conforming_styles"] = n
    worker = ImplWorker("harness.ctxrun")
    try:
        for case, im, mo, raw in ctxrun.run_cases(cases, model, worker):
            if im.get("detail", {}).get("__skipped__"):
                rep.count("not_run_after_timeouts")
                continue
            ref = GC.reference(case)
            b = ctxrun.brief(case)
            b["positional"] = case.get("positional")
            rep.case(str(b), {**b, "impl": im["v"]}, nontrivial=len(GC.flatten(case)) >= 2)
            rep.count(f"ref_{ref['v']}:impl_{im['v']}")
            rec = {"case": b, "reference": ref, "impl": im, "model": mo}
            if ref["v"] != "accept":
                continue  # None patterns can make a generated context non-conforming; C01/C08 judge those
            if im["v"] == "identity":
                if not ctxrun.same_verdict(im, mo):
                    rep.disagreement({"what": "model and implementation differ", **rec})
                continue
            if im["v"] != "accept":
                rep.violation({"what": "a conforming call was not accepted", **rec})
            elif raw.get("called") != 1:
                rep.violation({"what": f"the body ran {raw.get('called')} times", **rec})
            elif not raw.get("same_object"):
                rep.violation({"what": "the caller did not receive the object the body returned", **rec})
            elif not raw.get("args_identical"):
                rep.violation({"what": "the body did not receive the caller's argument objects", **rec})
            elif not ctxrun.same_report(im, mo):
                rep.disagreement({"what": "model and implementation differ", **rec})
            if rep.many_violations():
                break
    finally:
        worker.close()
    return {}
