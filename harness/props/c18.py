"""C18 - symbolic shapes mean what the Python operator expression means.

Random operator trees are built with the real public classes by eval() of generated Python source (so Python's
own precedence, associativity and reflected-operator dispatch build the tree); compared: str(Shape[...]) with
the model's printer, and the value the resulting annotation demands of an axis (public front door) with plain
integer evaluation of the same Python expression.  Negative constants (literal or folded) print as (0-n) since F15.
"""

from __future__ import annotations

import math
import re
import warnings

from harness.common import ImplWorker, Model, Report, rng_for, sx_int, sx_scope, sx_str, unbin, unhex, depth

warnings.simplefilter("ignore")
NAMES = ["a", "b", "c"]
OPS = {"+": "+", "-": "-", "*": "*", "//": "/", "**": "^"}
PREC = {"+": 1, "-": 1, "*": 2, "//": 2, "**": 3}


# tree: ("int", n) plain Python int | ("L", n) LiteralAxis | ("var", x) | ("bin", op, l, r) | ("isqrt", a) | ("fun2", "Min"|"Max", a, b) | ("group", a)
def gen(rnd, depth: int, exponent: bool = False):
    r = rnd.random()
    if exponent:
        return ("int", rnd.choice([0, 1, 2, 3])) if r < 0.6 else ("var", rnd.choice(NAMES))
    if depth <= 0 or r < 0.3:
        q = rnd.random()
        if q < 0.5:
            return ("var", rnd.choice(NAMES))
        if q < 0.8:
            n = rnd.choice([0, 1, 2, 3, 4, 7, 10, -1, -4])
            return ("int", n, "enum") if rnd.random() < 0.15 else ("int", n)
        return ("L", rnd.choice([0, 1, 2, 3, 5, -2]))
    if r < 0.8:
        op = rnd.choice(list(OPS))
        l = gen(rnd, depth - 1)
        rr = gen(rnd, depth - 1, exponent=(op == "**"))
        if l[0] == "int" and rr[0] == "int":
            l = ("L", l[1])          # two plain ints would be folded by Python itself
        return ("bin", op, l, rr)
    if r < 0.84 and depth >= 2:
        # ONE sub-expression object used as both operands of an operator (grid = h // p; grid * grid)
        return ("share", rnd.choice(["+", "-", "*", "//"]), gen(rnd, depth - 1))   # not **: s ** s is astronomically large
    if r < 0.87:
        return ("isqrt", gen(rnd, depth - 1))
    if r < 0.95:
        return ("fun2", rnd.choice(["Min", "Max"]), gen(rnd, depth - 1), gen(rnd, depth - 1))
    return ("group", gen(rnd, depth - 1))


def py_src(t) -> str:
    """Fully parenthesised Python source that builds the tree with the public classes."""
    k = t[0]
    if k == "int":
        if len(t) > 2:
            return f"_IE({t[1]})"                      # the same integer as a member of an enum.IntEnum
        return str(t[1]) if t[1] >= 0 else f"({t[1]})"
    if k == "L":
        return f"dltype.LiteralAxis({t[1]})"
    if k == "var":
        return f"dltype.VariableAxis({t[1]!r})"
    if k == "bin":
        return f"({py_src(t[2])} {t[1]} {py_src(t[3])})"
    if k == "share":
        inner = py_src(t[2])
        if t[2][0] == "int":
            inner = f"dltype.LiteralAxis({t[2][1]})"      # two plain ints would be folded by Python itself
        return f"(lambda _s: (_s {t[1]} _s))({inner})"
    if k == "isqrt":
        return f"dltype.ISqrt({py_src(t[1])})"
    if k == "fun2":
        return f"dltype.{t[1]}({py_src(t[2])}, {py_src(t[3])})"
    return f"dltype.Group({py_src(t[1])})"


def int_eval(t, sc):
    k = t[0]
    if k in ("int", "L"):
        return t[1]
    if k == "var":
        return sc[t[1]]
    if k == "isqrt":
        return math.isqrt(int_eval(t[1], sc))
    if k == "fun2":
        f = min if t[1] == "Min" else max
        return f(int_eval(t[2], sc), int_eval(t[3], sc))
    if k == "group":
        return int_eval(t[1], sc)
    if k == "share":
        t = ("bin", t[1], t[2], t[2])
    a, b = int_eval(t[2], sc), int_eval(t[3], sc)
    o = t[1]
    if o == "+":
        return a + b
    if o == "-":
        return a - b
    if o == "*":
        return a * b
    if o == "//":
        return a // b
    if b < 0 or b > 64 or abs(a) > 10**6:
        raise OverflowError
    return a**b


def sym_sx(t) -> str:
    k = t[0]
    if k in ("int", "L"):
        return f"(lit {sx_int(t[1])})"
    if k == "var":
        return f"(var {sx_str(t[1])})"
    if k == "share":
        return f"(bin {OPS[t[1]]} {sym_sx(t[2])} {sym_sx(t[2])})"
    if k == "bin":
        return f"(bin {OPS[t[1]]} {sym_sx(t[2])} {sym_sx(t[3])})"
    if k == "isqrt":
        return f"(isqrt {sym_sx(t[1])})"
    if k == "fun2":
        return f"(fun2 {t[1].lower()} {sym_sx(t[2])} {sym_sx(t[3])})"
    return f"(group {sym_sx(t[1])})"


def undefined_constant(t) -> bool:
    """Does printing meet a constant folded by dltype that has no value (isqrt of a negative, // 0, a negative exponent)?"""
    k = t[0]
    if k in ("int", "L", "var"):
        return False
    kids = [x for x in t[1:] if isinstance(x, tuple)]
    if kids and all(x[0] in ("int", "L") for x in kids) and k != "group":
        try:
            int_eval(t, {})
            return False
        except Exception:  # noqa: BLE001
            return True
    return any(undefined_constant(x) for x in kids)


_EXPECTED = re.compile(r"expected=(-?\d+)")


_ie = []


def int_enum():
    """An enum.IntEnum with one member per integer the generators use (users keep channel counts and the like in such enums)."""
    if not _ie:
        import enum

        vals = [0, 1, 2, 3, 4, 5, 7, 10, 16, -1, -2, -4]
        _ie.append(enum.IntEnum("_IE", {("N" if v < 0 else "P") + str(abs(v)): v for v in vals}))
    return _ie[0]


_prelude_done = []


def prelude() -> None:
    """Once per worker process, before anything is judged: print constants that are EQUAL to small integers but are not ints
    (integral floats, booleans), plainly and inside sums.  Whatever the library remembers about them must not colour how the
    integers themselves are printed afterwards."""
    if _prelude_done:
        return
    _prelude_done.append(1)
    import dltype

    a = dltype.VariableAxis("a")
    for v in list(range(0, 17)) + [100, 112, 256, 257, 512, 1000]:
        for spelled in (float(v), bool(v) if v in (0, 1) else float(-v)):
            for build in (lambda c: dltype.LiteralAxis(c), lambda c: a + c, lambda c: dltype.Shape[a, dltype.LiteralAxis(c)]):
                try:
                    str(build(spelled))
                except BaseException:  # noqa: BLE001, S110
                    pass


def impl_sym(a: dict) -> dict:
    from typing import Annotated

    import numpy as np

    import dltype

    prelude()

    class P:
        s: dict = {}

        def get_dltype_scope(self):  # noqa: ANN202
            return dict(self.s)

    p = P()
    try:
        obj = eval(a["src"], {"dltype": dltype, "_IE": int_enum()})  # noqa: S307
        shape = dltype.Shape[obj]
        text = str(shape)
    except BaseException as e:  # noqa: BLE001
        return {"v": "build", "exn": type(e).__name__}
    out = {"v": "ok", "text": text}
    try:
        ann = dltype.TensorTypeBase[shape]
    except BaseException as e:  # noqa: BLE001
        out["annot"] = type(e).__name__
        return out

    def f(x):  # noqa: ANN001, ANN202
        return None

    f.__annotations__ = {"x": Annotated[np.ndarray, ann]}
    g = dltype.dltyped(p)(f)
    vals = []
    for sc in a["scopes"]:
        p.s = sc
        got = None
        for probe in (np.zeros((0,)), np.zeros((1,))):
            try:
                g(probe)
            except dltype.DLTypeShapeError as e:
                got = int(_EXPECTED.search(str(e)).group(1))
                break
            except BaseException as e:  # noqa: BLE001
                got = type(e).__name__
                break
        vals.append(got)
    out["values"] = vals
    return out


def gen_axes(rnd):
    """A Shape[...] of 1-5 axes: expression trees, plain ints, ConstantAxis, at most one AnonymousAxis / Ellipsis."""
    n = rnd.choice([1, 2, 2, 3, 3, 4, 5])
    marker_at = rnd.randrange(n) if rnd.random() < 0.5 else None
    axes = []
    for i in range(n):
        if i == marker_at:
            q = rnd.random()
            axes.append(("anon", "ellipsis") if q < 0.3 else ("anon", "axis") if q < 0.6 else ("star", rnd.choice(["batch", "g", "rest_1"])))
            continue
        q = rnd.random()
        if q < 0.2:
            axes.append(("const", rnd.choice(["rgb", "k", "C_out"]), rnd.choice([0, 1, 3, 12])))
        elif q < 0.35:
            axes.append(("expr", ("int", rnd.choice([0, 1, 2, 16]), "enum") if rnd.random() < 0.3 else ("int", rnd.choice([0, 1, 2, 16]))))
        else:
            t = gen(rnd, rnd.choice([0, 1, 2, 3]))
            axes.append(("expr", t))
    return axes


def axes_src(axes) -> str:
    parts = []
    for a in axes:
        if a[0] == "expr":
            parts.append(py_src(a[1]))
        elif a[0] == "const":
            parts.append(f"dltype.ConstantAxis({a[1]!r}, {a[2]})")
        elif a == ("anon", "ellipsis"):
            parts.append("...")
        elif a[0] == "anon":
            parts.append("dltype.AnonymousAxis(...)")
        else:
            parts.append(f"dltype.AnonymousAxis({a[1]!r})")
    return "dltype.Shape[" + ", ".join(parts) + ("," if len(parts) == 1 else "") + "]"


def axes_sx(axes) -> str:
    out = []
    for a in axes:
        if a[0] == "expr":
            out.append(f"(expr {sym_sx(a[1])})")
        elif a[0] == "const":
            out.append(f"(const {sx_str(a[1])} {sx_int(a[2])})")
        elif a[0] == "anon":
            out.append("anon")
        else:
            out.append(f"(star {sx_str(a[1])})")
    return "(sshape (" + " ".join(out) + "))"


def impl_shape(a: dict) -> dict:
    """Worker side: str(Shape[...]), the annotation built from it, and the annotation built from the printed string."""
    import dltype

    prelude()
    try:
        shape = eval(a["src"], {"dltype": dltype, "_IE": int_enum()})  # noqa: S307
        text = str(shape)
    except BaseException as e:  # noqa: BLE001
        return {"v": "build", "exn": type(e).__name__}
    out = {"v": "ok", "text": text}
    try:
        ann = dltype.TensorTypeBase[shape]
    except BaseException as e:  # noqa: BLE001
        out["annot"] = type(e).__name__
        return out
    try:
        twin = dltype.TensorTypeBase[text]
        out["same_as_string"] = repr(ann) == repr(twin) and ann.multiaxis_index == twin.multiaxis_index and ann.multiaxis_name == twin.multiaxis_name
    except BaseException as e:  # noqa: BLE001
        out["same_as_string"] = f"string form raised {type(e).__name__}"
    out.update({"mi": ann.multiaxis_index, "mn": ann.multiaxis_name, "an": bool(ann.anonymous_multiaxis), "n": len(ann.expected_shape)})
    return out


_DIM = re.compile(r"\[([^|\]]*)\|([^|\]]*)\|([01]+)\]")


def _parsed_meaning(ans: str):
    """The model parser's answer for a shape string without the text of unnamed expression axes: postfix, flags, marker."""
    if not ans.startswith("OK "):
        return None
    head, _, tail = ans[3:].partition(" mi=")
    dims = []
    for ident, post, flags in _DIM.findall(head):
        unnamed_expression = flags[2] == "1" and flags[5] == "0"
        dims.append((None if unnamed_expression else ident, post, flags))
    return dims, tail


def same_up_to_parentheses(model: Model, mtext: str, itext: str) -> bool:
    """Do two printed shapes parse (model parser, tied to the implementation's by C05 / C06) to the same postfix programs
    and flags?  Then they demand the same sizes (evaluate reads d_post only: C18_value_reads_postfix_only); the texts can
    differ in redundant parentheses only."""
    a, b = model.ask_many([f"(parse {sx_str(mtext)})", f"(parse {sx_str(itext)})"])
    ma, mb = _parsed_meaning(a), _parsed_meaning(b)
    return ma is not None and ma == mb


def text_tie(rep: Report, model: Model, mtext, res: dict, rec: dict) -> None:
    if mtext is None or res["text"] == mtext:
        return
    if isinstance(res["text"], str) and same_up_to_parentheses(model, mtext, res["text"]):
        rep.count("printed_text_differs_same_postfix")
        return
    rep.disagreement({"what": "model printer and str(Shape[...]) differ", "model_text": mtext, **rec})


def run_shapes(tier: str, rnd, rep: Report, model: Model) -> None:
    n = depth(tier, 500, 20000)
    shapes = [gen_axes(rnd) for _ in range(n)]
    shapes = [[("star", "batch"), ("const", "rgb", 3), ("expr", ("bin", "*", ("var", "a"), ("bin", "//", ("var", "b"), ("int", 2)))), ("expr", ("int", 4))]] + shapes
    rep.streams["whole_shapes"] = len(shapes)
    answers = model.ask_many([axes_sx(ax) for ax in shapes])
    worker = ImplWorker("harness.props.c18")
    try:
        results = worker.call_many("impl_shape", [{"src": axes_src(ax)} for ax in shapes], timeout=20.0)
    finally:
        worker.close()
    for ax, ans, res in zip(shapes, answers, results):
        if "__skipped__" in res:
            continue
        src = axes_src(ax)
        rec = {"python": src, "impl": res, "model": ans}
        rep.case(src, {"python": src, "printed": res.get("text")}, nontrivial=len(ax) >= 2)
        if "v" not in res:
            rep.violation({"what": "building the shape did not finish", **rec})
            continue
        neg = any(a[0] == "expr" and undefined_constant(a[1]) for a in ax)
        mtext = unhex(ans.split()[1]) if ans.startswith("OK ") else None
        if res["v"] == "build":
            rep.count("shape_build_" + res["exn"])
            if not (ans.startswith("PRINT_ERR") or neg):
                rep.violation({"what": f"building / printing the shape raised {res['exn']}", **rec})
            continue
        text_tie(rep, model, mtext, res, rec)
        if "annot" in res:
            rep.count("shape_annotation_" + res["annot"])
            if neg or ans.startswith("PRINT_ERR"):
                rep.count("shape_constant_without_integer_value")
            else:
                rep.violation({"what": f"TensorType[Shape[...]] raised {res['annot']} for a well-formed shape", **rec})
            continue
        want_mi = next((i for i, a in enumerate(ax) if a[0] in ("anon", "star")), None)
        want_mn = next((a[1] for a in ax if a[0] == "star"), None)
        rep.count("shape_ok")
        if res.get("same_as_string") is not True:
            rep.violation({"what": "TensorType[Shape[...]] is not the annotation of the printed string", **rec})
        elif res["mi"] != want_mi or res["mn"] != want_mn or res["n"] != len(ax):
            rep.violation({"what": "the multi-axis position / name / number of dimensions is not the shape's", "expected": [want_mi, want_mn, len(ax)], **rec})
        if rep.many_violations():
            break


def run(tier: str, seed: int, rep: Report, model: Model) -> dict:
    rnd = rng_for("C18", seed)
    n = depth(tier, 1500, 50000)
    rep.rule = ("operator trees of depth <= 4 over VariableAxis a,b,c, plain ints, LiteralAxis, + - * // ** (exponent: small literal or variable), "
                "Min, Max, ISqrt, Group, built by Python's own evaluation of generated source; 3 non-negative scopes each; distinct = distinct "
                "source; non-trivial = at least two operators")
    rep.rule += "; shared sub-expression objects; negative literals; whole Shape[...] values (ConstantAxis, AnonymousAxis, plain ints) against the model's print_sshape and the annotation built from the printed string; every operator / constructor x operand kind on either side against the model's operand dispatch"
    trees = [gen(rnd, rnd.choice([1, 2, 2, 3, 3, 4])) for _ in range(n)]
    # the formerly wrong shapes first
    A, B, C = ("var", "a"), ("var", "b"), ("var", "c")
    trees = [("bin", "*", ("bin", "+", A, B), C), ("bin", "-", A, ("bin", "-", B, C)), ("bin", "**", A, ("bin", "**", B, C)),
             ("bin", "**", ("bin", "**", A, B), C), ("bin", "//", A, ("bin", "*", B, C)), ("bin", "+", A, ("bin", "-", ("L", 1), ("L", 3)))] + trees
    trees = [t for t in trees if t[0] not in ("int",)]
    tasks = []
    for t in trees:
        scopes = [{x: rnd.choice([0, 1, 2, 3, 5, 9]) for x in NAMES} for _ in range(3)]

        def cheap(sc) -> bool:
            try:
                int_eval(t, sc)
            except OverflowError:
                return False      # a power tower: the implementation would compute an astronomically large number (DESIGN 10)
            except Exception:  # noqa: BLE001
                pass
            return True

        scopes = [sc if cheap(sc) else {x: 2 for x in NAMES} for sc in scopes]
        scopes = [sc for sc in scopes if cheap(sc)] or [{x: 1 for x in NAMES}]
        tasks.append({"src": py_src(t), "scopes": scopes})
    answers = model.ask_many([f"(sym {sym_sx(t)} ())" for t in trees])
    worker = ImplWorker("harness.props.c18")
    try:
        results = worker.call_many("impl_sym", tasks, timeout=20.0)
    finally:
        worker.close()
    for t, task, ans, res in zip(trees, tasks, answers, results):
        if "__skipped__" in res:
            continue
        nops = task["src"].count("(") - task["src"].count("Axis(")
        rec = {"python": task["src"], "impl": res, "model": ans}
        rep.case(task["src"], {"python": task["src"], "printed": res.get("text")}, nontrivial=nops >= 2)
        if "v" not in res:
            rep.violation({"what": "building the shape did not finish", **rec})
            continue
        neg = undefined_constant(t)
        mtext = unhex(ans.split()[1]) if ans.startswith("OK ") else None
        if res["v"] == "build":
            rep.count("build_" + res["exn"])
            # constant folding of an undefined constant (isqrt of a negative, // 0) raises while printing
            if not (ans.startswith("PRINT_ERR") or neg):
                rep.violation({"what": f"building / printing the shape raised {res['exn']}", **rec})
            continue
        text_tie(rep, model, mtext, res, rec)
        if "annot" in res:
            rep.count("annotation_" + res["annot"])
            if neg or ans.startswith("PRINT_ERR"):
                rep.count("constant_without_integer_value")   # e.g. 2 ** -2 folded to 0.25: outside the integer expressions of the property
            else:
                rep.violation({"what": f"TensorType[Shape[...]] raised {res['annot']} for a printable tree", **rec})
            continue
        ok = True
        for sc, got in zip(task["scopes"], res["values"]):
            try:
                want = int_eval(t, sc)
            except (ZeroDivisionError, ValueError, OverflowError):
                continue
            if got != want:
                rep.violation({"what": "the annotation demands a different size than Python's evaluation of the expression", "scope": sc, "python_value": want, "demanded": got, **rec})
                ok = False
                break
        rep.count("value_ok" if ok else "value_wrong")
        if rep.many_violations():
            break
    run_shapes(tier, rng_for("C18", seed, "shapes"), rep, model)
    # arithmetic on constant / anonymous axes is refused: every operator and constructor x every operand kind on either side,
    # against the model's operand dispatch (mk_bin / mk_isqrt / mk_fun2; theorem C18_constant_axes_refused)
    import dltype

    OPND = {
        "int": ("3", "(int 11)"), "var": ("dltype.VariableAxis('a')", f"(sym (var {sx_str('a')}))"), "lit": ("dltype.LiteralAxis(2)", "(sym (lit 10))"),
        "computed": ("(dltype.VariableAxis('a') + 1)", f"(sym (bin + (var {sx_str('a')}) (lit 1)))"),
        "group": ("dltype.Group(dltype.VariableAxis('a') - 1)", f"(sym (group (bin - (var {sx_str('a')}) (lit 1))))"),
        "const": ("dltype.ConstantAxis('rgb', 3)", f"(const {sx_str('rgb')} 11)"), "anon": ("dltype.AnonymousAxis(...)", "anon"),
        "star": ("dltype.AnonymousAxis('b')", f"(star {sx_str('b')})"),
    }
    combos = []
    for pyop, mop in OPS.items():
        for ka, kb in ((x, y) for x in OPND for y in OPND):
            if ka == "int" and kb == "int":
                continue
            combos.append((f"{OPND[ka][0]} {pyop} {OPND[kb][0]}", f"(mk {mop} {OPND[ka][1]} {OPND[kb][1]})", ka in ("const", "anon", "star") or kb in ("const", "anon", "star")))
    for ctor, mop in (("Min", "min"), ("Max", "max")):
        for ka, kb in ((x, y) for x in OPND for y in OPND):
            combos.append((f"dltype.{ctor}({OPND[ka][0]}, {OPND[kb][0]})", f"(mk {mop} {OPND[ka][1]} {OPND[kb][1]})", ka in ("const", "anon", "star") or kb in ("const", "anon", "star")))
    for ka in OPND:
        combos.append((f"dltype.ISqrt({OPND[ka][0]})", f"(mk isqrt {OPND[ka][1]})", ka in ("const", "anon", "star")))
    rep.streams["operand_kinds"] = len(combos)
    manswers = model.ask_many([m for _, m, _ in combos])
    for (src, _, bad), ans in zip(combos, manswers):
        rep.case(src, None)
        try:
            obj = eval(src, {"dltype": dltype})  # noqa: S307
            got = "OK " + str(obj)
        except TypeError:
            got = "TypeError"
        except BaseException as e:  # noqa: BLE001
            got = "OTHER " + type(e).__name__
        rep.count("operand_kinds:" + got.split()[0])
        mtxt = ("OK " + unhex(ans.split()[1])) if ans.startswith("OK ") else ("TypeError" if ans == "BUILD_ERR TypeError" else ans)
        if bad and got != "TypeError":
            rep.violation({"what": "arithmetic on a constant / anonymous axis was not refused with TypeError", "python": src, "got": got})
        elif not bad and not got.startswith("OK "):
            rep.violation({"what": "an operation between operable operands did not build an axis", "python": src, "got": got})
        elif got != mtxt and got.startswith("OK ") and mtxt.startswith("OK ") and same_up_to_parentheses(model, mtxt[3:], got[3:]):
            rep.count("printed_text_differs_same_postfix")
        elif got != mtxt:
            rep.disagreement({"what": "model of the operand dispatch / printer and implementation differ", "python": src, "got": got, "model": mtxt})
    return {}
