"""C01 - no false accepts: an accepted context has one consistent assignment of integers to names.

Streams (function form; C14 carries the result to the class forms): boundary corpus (the three formerly
accepted inconsistent contexts and their neighbours), generated conforming contexts, single and multiple
perturbations, exhaustive small scope (thorough).  Oracle: gen_ctx.reference, a specification-level
consistency pass that is independent of the model's data structures (dims are ASTs, not flags / postfix).
A case the implementation accepts while no consistent assignment exists is the failing input.
"""

from __future__ import annotations

import copy
import itertools

from harness import ctxrun
from harness import gen_ctx as GC
from harness import gen_expr as G
from harness.common import ImplWorker, Model, Report, rng_for, depth
from harness.impl import H_ann, H_opt, H_tuple, V_NONE, V_arr, V_tup


def sig_case(sig: list[tuple], arrays: list, ret=None, retval=None, provider=None, lib="np", dt="f32") -> dict:
    """sig: [(param name, shape string | (tuple of shape strings))], arrays: shapes (or tuples of shapes)."""
    params, args = [], {}

    def ann(shape):
        h = H_ann("TensorTypeBase", shape, lib)
        h["dims"] = G.dims_from_string(shape)
        assert h["dims"] is not None, shape
        return h

    def hv(spec, val):
        if isinstance(spec, tuple):
            hs, vs = zip(*[hv(s, v) for s, v in zip(spec, val)])
            return H_tuple(list(hs)), V_tup(list(vs))
        if spec is not None and spec.endswith("?"):
            return H_opt(ann(spec[:-1])), (dict(V_NONE) if val is None else V_arr(lib, dt, val))
        return ann(spec), (dict(V_NONE) if val is None else V_arr(lib, dt, val))

    for (name, spec), val in zip(sig, arrays):
        h, v = hv(spec, val)
        params.append({"name": name, "hint": h})
        args[name] = v
    case = {"form": "fn", "params": params, "args": args, "provider": provider, "ret": None, "retval": None}
    if ret is not None:
        case["ret"], case["retval"] = hv(ret, retval)
    return case


def boundary_corpus() -> list[dict]:
    c = []
    # D1: a named literal never bound its name
    c.append(sig_case([("x", "b c=3"), ("y", "b c")], [(2, 3), (2, 5)]))
    c.append(sig_case([("x", "b c=3"), ("y", "b c")], [(2, 3), (2, 3)]))
    c.append(sig_case([("x", "c"), ("y", "c=3")], [(5,), (3,)]))
    # D2: the number of axes of a *group was never compared
    c.append(sig_case([("x", "*g c"), ("y", "*g c")], [(2, 3, 4), (2, 4)]))
    c.append(sig_case([("x", "*g c"), ("y", "*g c")], [(4,), (2, 4)]))
    c.append(sig_case([("x", "*g c"), ("y", "c *g")], [(2, 3, 4), (4, 2, 3)]))
    c.append(sig_case([("x", "*g c"), ("y", "c *g")], [(2, 3, 4), (4, 2, 3, 1)]))
    c.append(sig_case([("x", "*g")], [(2, 3)], ret="*g c", retval=(2, 7)))
    # D3: a bound name short-cut its own expression
    c.append(sig_case([("x", "a b"), ("y", "b=a+2")], [(2, 3), (3,)]))
    c.append(sig_case([("x", "a b"), ("y", "b=a+2")], [(2, 4), (4,)]))
    c.append(sig_case([("x", "a b"), ("y", "b=a+2")], [(2, 4), (5,)]))
    c.append(sig_case([("x", "a")], [(2,)], provider={"kind": "free", "scope": {"m": 7}, "fresh": True}, ret="m=a*2", retval=(7,)))
    c.append(sig_case([("x", "a")], [(2,)], provider={"kind": "free", "scope": {"m": 4}, "fresh": True}, ret="m=a*2", retval=(4,)))
    # a size of 0 is a size like any other (cached values must not be tested for truthiness)
    c.append(sig_case([("x", "*g c"), ("y", "*g c")], [(0, 3), (5, 3)]))
    c.append(sig_case([("x", "*g c"), ("y", "*g c")], [(4, 0, 3), (4, 7, 3)]))
    c.append(sig_case([("x", "c"), ("y", "a"), ("z", "c=a+1")], [(0,), (4,), (5,)]))
    c.append(sig_case([("x", "c"), ("y", "c=3")], [(0,), (3,)]))
    c.append(sig_case([("x", "a b"), ("y", "a*b")], [(0, 3), (0,)]))
    c.append(sig_case([("x", "a")], [(0,)], provider={"kind": "free", "scope": {"a": 0}, "fresh": True}))
    c.append(sig_case([("x", "a")], [(3,)], provider={"kind": "free", "scope": {"a": 0}, "fresh": True}))
    # provider sizes belong to the assignment; conflict with a literal
    c.append(sig_case([("x", "n c=3")], [(2, 3)], provider={"kind": "free", "scope": {"c": 4}, "fresh": True}))
    c.append(sig_case([("x", "n 3")], [(2, 3)], provider={"kind": "free", "scope": {"n": 5}, "fresh": True}))
    # tuples and optionals share the context
    c.append(sig_case([("x", ("a b", "b c")), ("y", "c a")], [((2, 3), (3, 4)), (4, 2)]))
    c.append(sig_case([("x", ("a b", "b c")), ("y", "c a")], [((2, 3), (3, 4)), (4, 3)]))
    c.append(sig_case([("x", "a b?"), ("y", "b")], [None, (9,)]))
    # expressions: cached under their own text, zero sizes, marker absorbing zero axes
    c.append(sig_case([("x", "a b a*b"), ("y", "a*b")], [(2, 3, 6), (7,)]))
    c.append(sig_case([("x", "a b"), ("y", "a*b ... b")], [(0, 3), (0, 3)]))
    c.append(sig_case([("x", "a ... b"), ("y", "b a")], [(2, 3), (3, 2)]))
    c.append(sig_case([("x", "a ... b"), ("y", "b a")], [(2, 5, 5, 3), (3, 3)]))
    return c


def small_scope(limit: int) -> list[dict]:
    """All signatures of 2 tensors x <= 2 dims over a 7-form alphabet x all shapes over {0,1,2} of fitting rank."""
    forms = ["a", "b", "a=2", "b=a+1", "a*2", "2", "*g"]
    out = []
    dimlists = [list(t) for n in (1, 2) for t in itertools.product(forms, repeat=n) if sum(1 for d in t if d == "*g") <= 1]
    for d1, d2 in itertools.product(dimlists, repeat=2):
        s1, s2 = " ".join(d1), " ".join(d2)
        if G.dims_from_string(s1) is None or G.dims_from_string(s2) is None:
            continue
        r1 = [len(d1)] if "*g" not in d1 else [len(d1) - 1, len(d1)]
        r2 = [len(d2)] if "*g" not in d2 else [len(d2) - 1, len(d2), len(d2) + 1]
        for ra, rb in itertools.product(r1, r2):
            for sh1 in itertools.product((1, 2, 3), repeat=ra):
                for sh2 in itertools.product((1, 2, 3), repeat=rb):
                    out.append(sig_case([("x", s1), ("y", s2)], [sh1, sh2]))
                    if len(out) >= limit:
                        return out
    return out


def judge(rep: Report, case: dict, im: dict, mo: dict, label: str, exact: bool) -> None:
    ref = GC.reference(case)
    b = ctxrun.brief(case)
    rep.case(str(b), {"stream": label, **b, "reference": ref["v"], "impl": im.get("kind") or im["v"]}, nontrivial=len(GC.flatten(case)) >= 2)
    rep.count(f"{label}:ref_{ref['v']}:impl_{im['v']}")
    rec = {"stream": label, "case": b, "reference": ref, "impl": im, "model": mo}
    if im["v"] == "harness":
        rep.violation({"what": "the checked call did not finish", **rec})
        return
    if im["v"] == "accept" and ref["v"] not in ("accept", "unknown"):
        rep.violation({"what": "accepted although no consistent assignment exists", **rec})
        return
    if exact:
        if not ctxrun.same_report(im, mo):
            rep.disagreement({"what": "model and implementation differ", **rec})
    elif not ctxrun.same_verdict(im, mo):
        rep.disagreement({"what": "model and implementation differ in verdict", **rec})


def run(tier: str, seed: int, rep: Report, model: Model) -> dict:
    rnd = rng_for("C01", seed)
    n = depth(tier, 1200, 40000)
    rep.rule = ("contexts generated from a chosen assignment (1-4 parameters, tuples, optionals, return, provider; every dim form; markers; "
                "sizes in {0,1,2,3,5,7}) kept conforming, with one perturbation, or with several; distinct = distinct (signature, values); "
                "non-trivial = at least two annotated tensors")
    cases, labels = [], []
    for c in boundary_corpus():
        cases.append(c)
        labels.append(("corpus", True))
    for _ in range(n):
        base = GC.gen_case(rnd)
        r = rnd.random()
        if r < 0.3:
            cases.append(base)
            labels.append(("conforming", True))
        elif r < 0.75:
            p = GC.perturb(rnd, base)
            if p:
                cases.append(p[0])
                labels.append(("one_fault", True))
        else:
            c = base
            for _ in range(rnd.choice([2, 3])):
                p = GC.perturb(rnd, c)
                if p:
                    c = p[0]
            cases.append(c)
            labels.append(("multi_fault", False))
    # directed: contexts in which a named expression meets a name that is already bound (two demands on one axis),
    # conforming and with every single-axis resize
    for base in GC.rebound_cases(rnd, depth(tier, 15, 400)):
        cases.append(base)
        labels.append(("rebound_conforming", True))
        for c in GC.all_resizes(base, alts=1):
            cases.append(c)
            labels.append(("rebound_resized", True))
    if tier == "thorough":
        ss = small_scope(60000)
        rep.streams["exhaustive_small_scope"] = len(ss)
        for c in ss:
            cases.append(c)
            labels.append(("small_scope", True))
    for lab, _ in labels:
        rep.streams[lab] = rep.streams.get(lab, 0) + 1
    worker = ImplWorker("harness.ctxrun")
    try:
        for (case, im, mo, raw), (lab, exact) in zip(ctxrun.run_cases(cases, model, worker), labels):
            if im.get("detail", {}).get("__skipped__"):
                rep.count("not_run_after_timeouts")
                continue
            judge(rep, case, im, mo, lab, exact)
            if rep.many_violations():
                break
    finally:
        worker.close()
    return {}
