"""C19 - decorated torch modules trace, script and compile to the same results (partial).

What Coq carries: the wrapper is the identity on conforming inputs (C02) and raises on non-conforming ones
(C01/C08); props/C19.v derives, under the explicit hypothesis that a capture mechanism maps extensionally equal
eager functions to equal captured ones, that capturing the wrapped function equals capturing the original.
That hypothesis is about torch and cannot be exhibited by the model; this module tests it on a family of
modules: eager, torch.jit.trace, torch.jit.script (quick) and torch.compile (thorough), outputs compared with
undecorated twins, non-conforming inputs must raise the dltype error.  A mode in which the undecorated twin
itself cannot be captured is skipped for that module and counted.
"""

import warnings

from harness.common import ImplWorker, Model, Report

warnings.simplefilter("ignore")

MODULES = {
    "one_param": {
        "params": "x: {A}[torch.Tensor, dltype.FloatTensor['b c h w']]", "ret": "{A}[torch.Tensor, dltype.FloatTensor['b c h w']]",
        "plain_params": "x: torch.Tensor", "plain_ret": "torch.Tensor", "body": "return torch.multiply(x, 2)",
        "good": [[(1, 2, 3, 4)], [(2, 1, 1, 5)]], "bad": [[(1, 2, 3)]],
    },
    "two_params_shared": {
        "params": "x: {A}[torch.Tensor, dltype.FloatTensor['b n']], y: {A}[torch.Tensor, dltype.FloatTensor['b n']]",
        "ret": "{A}[torch.Tensor, dltype.FloatTensor['b n']]", "plain_params": "x: torch.Tensor, y: torch.Tensor", "plain_ret": "torch.Tensor",
        "body": "return x + y", "good": [[(2, 3), (2, 3)], [(1, 1), (1, 1)]], "bad": [[(2, 3), (3, 3)]],
    },
    "expression_return": {
        "params": "x: {A}[torch.Tensor, dltype.FloatTensor['b c']]", "ret": "{A}[torch.Tensor, dltype.FloatTensor['b c*2']]",
        "plain_params": "x: torch.Tensor", "plain_ret": "torch.Tensor", "body": "return torch.cat([x, x], dim=1)",
        "good": [[(2, 3)], [(4, 1)]], "bad": [[(2, 3, 1)]],
    },
    "multiaxis": {
        "params": "x: {A}[torch.Tensor, dltype.FloatTensor['*g c']]", "ret": "{A}[torch.Tensor, dltype.FloatTensor['*g c']]",
        "plain_params": "x: torch.Tensor", "plain_ret": "torch.Tensor", "body": "return x.abs() + 1.0",
        "good": [[(2, 3, 4)], [(5,)]], "bad": [[()]],
    },
    "tuple_return": {
        "params": "x: {A}[torch.Tensor, dltype.FloatTensor['b c']]",
        "ret": "tuple[{A}[torch.Tensor, dltype.FloatTensor['b c']], {A}[torch.Tensor, dltype.FloatTensor['c b']]]",
        "plain_params": "x: torch.Tensor", "plain_ret": "tuple[torch.Tensor, torch.Tensor]", "body": "return x * 3.0, x.t()",
        "good": [[(2, 3)], [(1, 4)]], "bad": [[(2,)]],
    },
    "free_provider": {
        "params": "x: {A}[torch.Tensor, dltype.FloatTensor['b width']]", "ret": "{A}[torch.Tensor, dltype.FloatTensor['b width']]",
        "plain_params": "x: torch.Tensor", "plain_ret": "torch.Tensor", "body": "return x - 1.0", "deco": "dltype.dltyped(PROVIDER)",
        "good": [[(2, 6)], [(3, 6)]], "bad": [[(2, 5)]],
    },
    # a provider that hands out the mapping it keeps (a loaded configuration): conforming inputs of different batch sizes in a row
    "kept_dict_provider": {
        "params": "x: {A}[torch.Tensor, dltype.FloatTensor['b width']]", "ret": "{A}[torch.Tensor, dltype.FloatTensor['b width']]",
        "plain_params": "x: torch.Tensor", "plain_ret": "torch.Tensor", "body": "return x * 0.5", "deco": "dltype.dltyped(KEPT)",
        "good": [[(2, 6)], [(3, 6)], [(2, 6)]], "bad": [[(2, 5)]],
    },
    # the module is its own provider ("self"), its mapping kept on the instance
    "self_provider": {
        "params": "x: {A}[torch.Tensor, dltype.FloatTensor['b width']]", "ret": "{A}[torch.Tensor, dltype.FloatTensor['b width*2']]",
        "plain_params": "x: torch.Tensor", "plain_ret": "torch.Tensor", "body": "return torch.cat([x, x], dim=1)", "deco": "dltype.dltyped('self')",
        "extra": "    def get_dltype_scope(self):\n        return CONFIG\n",
        "good": [[(2, 6)], [(5, 6)], [(1, 6)]], "bad": [[(2, 4)]],
    },
    # the same with the provider method exported to TorchScript (so that the scripted module still is a provider)
    "self_provider_exported": {
        "params": "x: {A}[torch.Tensor, dltype.FloatTensor['b width']]", "ret": "{A}[torch.Tensor, dltype.FloatTensor['b width*2']]",
        "plain_params": "x: torch.Tensor", "plain_ret": "torch.Tensor", "body": "return torch.cat([x, x], dim=1)", "deco": "dltype.dltyped('self')",
        "extra": "    @torch.jit.export\n    def get_dltype_scope(self) -> Dict[str, int]:\n        return {'width': 6}\n",
        "good": [[(2, 6)], [(5, 6)], [(1, 6)]], "bad": [[(2, 4)]],
    },
}


def impl_module(a: dict) -> dict:
    from typing import Annotated

    import torch

    import dltype

    spec = MODULES[a["name"]]

    deco = spec.get("deco", "dltype.dltyped()")
    src = (
        "import torch\nimport dltype\nfrom typing import Annotated, Dict\n"
        "class _P:\n    def get_dltype_scope(self):\n        return {'width': 6}\nPROVIDER = _P()\n"
        "CONFIG = {'width': 6}\nclass _K:\n    def get_dltype_scope(self):\n        return CONFIG\nKEPT = _K()\n"
        f"class Checked(torch.nn.Module):\n{spec.get('extra', '')}    @{deco}\n    def forward(self, {spec['params'].format(A='Annotated')}) -> {spec['ret'].format(A='Annotated')}:\n        {spec['body']}\n"
        f"class Plain(torch.nn.Module):\n    def forward(self, {spec['plain_params']}) -> {spec['plain_ret']}:\n        {spec['body']}\n"
    )
    # TorchScript reads the source of what it compiles: the classes live in a real file, in a scratch directory
    import importlib.util
    import shutil
    import tempfile

    tmp = tempfile.mkdtemp(prefix="dltype_c19_")
    try:
        path = f"{tmp}/c19_{a['name']}.py"
        with open(path, "w") as fh:
            fh.write(src)
        sp = importlib.util.spec_from_file_location(f"c19_{a['name']}", path)
        mod = importlib.util.module_from_spec(sp)
        import sys

        sys.modules[sp.name] = mod
        sp.loader.exec_module(mod)
        return _run_modes(a, spec, mod.Checked, mod.Plain)
    finally:
        shutil.rmtree(tmp, ignore_errors=True)


def _run_modes(a: dict, spec: dict, Checked, Plain) -> dict:
    import torch

    import dltype

    torch.manual_seed(1)

    def inputs(shapes):
        return [torch.rand(*s) if len(s) else torch.rand(()) for s in shapes]

    def same(x, y) -> bool:
        if isinstance(x, (tuple, list)):
            return len(x) == len(y) and all(same(p, q) for p, q in zip(x, y))
        return torch.equal(x, y)

    out = {"modes": {}}
    good, bad = spec["good"], spec["bad"]
    for mode in a["modes"]:
        rec = {"ran": 0, "problems": []}
        try:
            if mode == "eager":
                cap_p, cap_c = Plain(), Checked()
            elif mode == "trace":
                ex = inputs(good[0])
                cap_p = torch.jit.trace(Plain(), tuple(ex))
                cap_c = None
            elif mode == "script":
                cap_p = torch.jit.script(Plain())
                cap_c = None
            else:
                cap_p = torch.compile(Plain())
                cap_c = None
                cap_p(*inputs(good[0]))
        except BaseException as e:  # noqa: BLE001
            rec["skipped"] = f"the undecorated twin cannot be captured: {type(e).__name__}"
            out["modes"][mode] = rec
            continue
        try:
            if mode == "trace":
                cap_c = torch.jit.trace(Checked(), tuple(inputs(good[0])))
            elif mode == "script":
                cap_c = torch.jit.script(Checked())
            elif mode == "compile":
                cap_c = torch.compile(Checked())
        except BaseException as e:  # noqa: BLE001
            rec["problems"].append(f"capturing the decorated module failed: {type(e).__name__}: {str(e)[:150]}")
            out["modes"][mode] = rec
            continue
        for shapes in good:
            xs = inputs(shapes)
            try:
                want = cap_p(*xs)
                got = cap_c(*xs)
                rec["ran"] += 1
                if not same(got, want):
                    rec["problems"].append(f"outputs differ for input shapes {shapes}")
            except BaseException as e:  # noqa: BLE001
                rec["problems"].append(f"conforming input {shapes} raised {type(e).__name__}: {str(e)[:120]}")
        for shapes in bad:
            xs = inputs(shapes)
            if mode == "trace":
                # a traced graph has no Python left in it; the property asks for eager, scripted and compiled
                try:
                    torch.jit.trace(Checked(), tuple(xs))
                    rec["problems"].append(f"tracing with non-conforming example input {shapes} did not raise")
                except dltype.DLTypeError:
                    rec["ran"] += 1
                except BaseException as e:  # noqa: BLE001
                    rec["problems"].append(f"tracing with non-conforming input {shapes} raised {type(e).__name__}")
                continue
            try:
                cap_c(*xs)
                rec["problems"].append(f"non-conforming input {shapes} was accepted")
            except dltype.DLTypeError:
                rec["ran"] += 1
            except BaseException as e:  # noqa: BLE001
                if "DLType" in str(e) or "Invalid" in str(e):
                    rec["ran"] += 1          # torch wraps Python exceptions of ignored functions in its own error type
                    rec["wrapped_as"] = type(e).__name__
                else:
                    rec["problems"].append(f"non-conforming input {shapes} raised {type(e).__name__}: {str(e)[:120]}")
        out["modes"][mode] = rec
    return out


def impl_decorated_while_tracing(_: dict) -> dict:
    """A function decorated WHILE torch.jit.trace is recording (a helper defined inside forward, a module imported lazily on the
    first run): being traced is not being scripted - the decoration must still produce a checking wrapper, so later eager calls
    of that function are checked like any other."""
    from typing import Annotated

    import torch

    import dltype

    T = Annotated[torch.Tensor, dltype.FloatTensor["b 3"]]
    made = {}

    class M(torch.nn.Module):
        def forward(self, x):
            if "f" not in made:
                def helper(t):
                    return t * 2.0

                helper.__annotations__ = {"t": T, "return": T}
                made["raw"] = helper
                made["f"] = dltype.dltyped()(helper)
            return made["f"](x)

    problems = []
    try:
        torch.jit.trace(M(), (torch.zeros(2, 3),))
    except BaseException as e:  # noqa: BLE001
        return {"n": 0, "problems": [], "skipped": f"tracing failed: {type(e).__name__}"}
    f = made.get("f")
    if f is None or f is made.get("raw"):
        problems.append("a function decorated while torch.jit.trace was recording was returned undecorated (never checked afterwards)")
    else:
        try:
            f(torch.zeros(2, 3))
        except BaseException as e:  # noqa: BLE001
            problems.append(f"a conforming eager call of a function decorated during tracing raised {type(e).__name__}")
        for bad in (torch.zeros(2, 4), torch.zeros(2, 3, 1), torch.zeros(2, 3, dtype=torch.int32)):
            try:
                f(bad)
                problems.append(f"a non-conforming eager call {tuple(bad.shape)} {bad.dtype} of a function decorated during tracing was accepted")
            except dltype.DLTypeError:
                pass
            except BaseException as e:  # noqa: BLE001
                problems.append(f"non-conforming eager call of a function decorated during tracing: {type(e).__name__} instead of a DLTypeError")
    return {"n": 5, "problems": problems}


def run(tier: str, seed: int, rep: Report, model: Model) -> dict:
    modes = ["eager", "trace", "script"] + (["compile"] if tier == "thorough" else [])
    rep.rule = (f"{len(MODULES)} module shapes (one / several tensor parameters, expression and multi-axis annotations, tuple return, free provider) "
                f"x modes {modes} x conforming and non-conforming inputs, compared with undecorated twins; distinct = (module, mode); all non-trivial")
    rep.notes.append("partial: what torch's tracer / TorchScript / dynamo do with the wrapper is runtime behaviour the Coq model cannot exhibit; this is a test")
    worker = ImplWorker("harness.props.c19")
    try:
        results = worker.call_many("impl_module", [{"name": n, "modes": modes} for n in MODULES], timeout=600.0, max_timeouts=2)
        dwt = worker.call("impl_decorated_while_tracing", {}, timeout=300.0)
    finally:
        worker.close()
    for name, res in zip(MODULES, results):
        if "modes" not in res:
            rep.violation({"what": "the module run did not finish", "module": name, "detail": res})
            continue
        for mode, rec in res["modes"].items():
            rep.case((name, mode), {"module": name, "mode": mode, **rec})
            if "skipped" in rec:
                rep.count(f"{mode}:skipped")
                continue
            rep.count(f"{mode}:ran", rec["ran"])
            for p in rec["problems"]:
                if name == "self_provider" and mode == "script" and "DLTypeScopeProviderError" in p and rep.known("K3", {"module": name, "mode": mode, "what": p}):
                    continue      # the listed finding: a scripted module is no provider unless it exports get_dltype_scope
                rep.violation({"what": p, "module": name, "mode": mode})
    rep.case("decorated_while_tracing", dwt)
    rep.count("decorated_while_tracing:" + ("skipped" if dwt.get("skipped") else "ran"))
    for pr in dwt.get("problems", ["the decorated-while-tracing run did not finish"] if "problems" not in dwt else []):
        rep.violation({"what": pr, "module": "helper decorated inside forward", "mode": "trace"})
    return {"modes": modes}
