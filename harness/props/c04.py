"""C04 - each tensor class accepts exactly its documented dtypes, on every backend.

The DTYPES tuples are reflected into coq/gen/GenDtypes.v on every run and props/C04.v re-proves the table
against the hand-written documented categories.  The one modelled piece, `tensor.dtype in DTYPES`
(dtype_eq), is validated here exhaustively: every exported class x every dtype numpy, torch and jax can put
on an array in this installation runs through the real check() and must agree with the model and with the
documented category.
"""

from __future__ import annotations

from harness import impl as I
from harness.common import ImplWorker, Model, Report, rng_for

FLOAT_STD = {"f16", "f32", "f64"}
SIGNED = {"i8", "i16", "i32", "i64"}
UNSIGNED = {"u8", "u16", "u32", "u64"}


def documented(cls: str, lib: str, dt: str) -> bool:
    """The README's categories, written independently of the code and of the Coq spec."""
    t = lib == "torch"
    return {
        "TensorTypeBase": True,
        "FloatTensor": dt in FLOAT_STD or (dt == "bf16" and t) or (dt == "longdouble" and not t),
        "Float16Tensor": dt == "f16" or (dt == "bf16" and t),
        "IEEE754HalfFloatTensor": dt == "f16",
        "BFloat16Tensor": dt == "bf16" and t,
        "Float32Tensor": dt == "f32",
        "Float64Tensor": dt == "f64",
        "DoubleTensor": dt == "f64",
        "IntTensor": dt in SIGNED | UNSIGNED,
        "SignedIntTensor": dt in SIGNED,
        "UnsignedIntTensor": dt in UNSIGNED,
        "BoolTensor": dt == "bool",
    }.get(cls, dt == {"Int8Tensor": "i8", "Int16Tensor": "i16", "Int32Tensor": "i32", "Int64Tensor": "i64", "UInt8Tensor": "u8",
                      "UInt16Tensor": "u16", "UInt32Tensor": "u32", "UInt64Tensor": "u64"}.get(cls))


def impl_accepts(a: dict) -> dict:
    import dltype

    t = getattr(dltype, a["cls"])("n m")
    x = I.mk_array(a["lib"], a["dt"], (2, 3))
    got = I.dtok_of_entry(x.dtype) if a["lib"] != "torch" else I.dtok_of_entry(x.dtype)
    try:
        t.check(x, "x")
        return {"v": "accept", "array_dtype": got}
    except BaseException as e:  # noqa: BLE001
        out = I.canon_exc(e)
        out["array_dtype"] = got
        return out


def impl_accepts_sequence(a: dict) -> dict:
    """ONE annotation object checks arrays of many dtypes one after the other (an annotation alias serves every call of every
    function that uses it): each answer must be the one a fresh object gives, whatever was checked before."""
    import dltype

    t = getattr(dltype, a["cls"])("n m")
    vs = []
    for dt in a["dts"]:
        x = I.mk_array(a["lib"], dt, (2, 3))
        try:
            t.check(x, "x")
            vs.append("accept")
        except BaseException as e:  # noqa: BLE001
            o = I.canon_exc(e)
            vs.append(o.get("kind") or o.get("exn") or o["v"])
    return {"vs": vs}


def sequence_sweep(rep, fresh: dict, rnd, libs_dts: dict, prop: str) -> None:
    """fresh: (cls, lib, dt) -> "accept" / kind as answered by a fresh annotation object; libs_dts: lib -> dtypes."""
    tasks = []
    for cls in I.TENSOR_CLASSES:
        for lib, dts in libs_dts.items():
            order = list(dts)
            rnd.shuffle(order)
            for o in (order, order[::-1], sorted(dts)):
                tasks.append({"cls": cls, "lib": lib, "dts": list(o)})
    w = ImplWorker("harness.props.c04")
    try:
        res = w.call_many("impl_accepts_sequence", tasks)
    finally:
        w.close()
    rep.streams["one_annotation_object_many_dtypes"] = len(tasks)
    for t, r in zip(tasks, res):
        if "vs" not in r:
            continue
        for i, (dt, v) in enumerate(zip(t["dts"], r["vs"])):
            want = fresh.get((t["cls"], t["lib"], dt))
            if want is not None and v != want:
                rep.violation({"what": "an annotation object that has checked other dtypes before answers differently from a fresh one",
                               "class": t["cls"], "library": t["lib"], "dtype": dt, "checked_before": t["dts"][:i], "got": v, "fresh": want})
                break


def np_spellings() -> list[str]:
    """Every way numpy can name a dtype here: one-character typecodes (incl. 'q'/'Q' long long, 'l', 'i', 'g' ...), the
    sized names, and each of them byte-swapped.  The dtype's category is decided by numpy's own dtype equality with the
    canonical dtypes (I.dtok_of_entry) - nothing of dltype is involved in that classification."""
    import numpy as np

    names = [c for c in np.typecodes["All"] if c not in "OVMmSUa"] + ["U3", "S2", "M8[s]", "m8[s]"]
    names += ["int8", "int16", "int32", "int64", "uint8", "uint16", "uint32", "uint64", "float16", "float32", "float64", "longdouble", "bool",
              "intc", "uintc", "int_", "uint", "longlong", "ulonglong", "intp", "uintp", "short", "ushort", "byte", "ubyte", "half", "single",
              "double", "csingle", "cdouble", "clongdouble"]
    out = []
    for n in names:
        try:
            np.dtype(n)
        except TypeError:
            continue
        out.append(n)
        out.append(n + "|swapped")
    return list(dict.fromkeys(out))


def impl_accepts_spelling(a: dict) -> dict:
    import numpy as np

    import dltype

    name, _, sw = a["spelling"].partition("|")
    d = np.dtype(name)
    if sw:
        d = d.newbyteorder()
    x = np.zeros((2, 3), dtype=d)
    tok = I.dtok_of_entry(x.dtype)
    try:
        getattr(dltype, a["cls"])("n m").check(x, "x")
        return {"v": "accept", "array_dtype": tok, "dtype_str": x.dtype.str, "scalar_type": x.dtype.type.__name__}
    except BaseException as e:  # noqa: BLE001
        out = I.canon_exc(e)
        out.update({"array_dtype": tok, "dtype_str": x.dtype.str, "scalar_type": x.dtype.type.__name__})
        return out


def impl_user_subclasses(_: dict) -> dict:
    """User-defined tensor classes: a subclass with its own DTYPES accepts exactly those, whether built by call or by subscript,
    whatever other classes exist - including another class of the same __name__ (class factory, re-executed notebook cell) - and in
    whatever order they were first used."""
    import numpy as np

    import dltype

    problems, n = [], 0

    def make(name, dtypes, base=dltype.TensorTypeBase):
        return type(name, (base,), {"DTYPES": dtypes})

    def verdict(ann, dt):
        try:
            ann.check(np.zeros((2, 3), dtype=dt), "x")
            return True
        except dltype.DLTypeDtypeError:
            return False

    for order in (0, 1):
        A_ = make("ImageTensor", (np.uint8,))
        B_ = make("ImageTensor", (np.float32,), base=dltype.FloatTensor)
        C_ = make("MaskTensor", (np.bool_,))
        pairs = [(A_, {"u8": True, "f32": False, "bool": False}), (B_, {"u8": False, "f32": True, "bool": False}), (C_, {"u8": False, "f32": False, "bool": True})]
        if order:
            pairs.reverse()
        for how in ("subscript", "call", "subscript"):
            for cls, want in pairs:
                ann = cls["n m"] if how == "subscript" else cls("n m")
                for k, dt in (("u8", np.uint8), ("f32", np.float32), ("bool", np.bool_)):
                    n += 1
                    got = verdict(ann, dt)
                    if type(ann) is not cls or got != want[k]:
                        problems.append({"what": "a user-defined tensor class does not accept exactly its own DTYPES", "class": cls.__name__, "dtypes": [str(d) for d in cls.DTYPES],
                                         "built_by": how, "array_dtype": k, "accepted": got, "expected": want[k], "type_is_the_class": type(ann) is cls})
    return {"n": n, "problems": problems}


def run(tier: str, seed: int, rep: Report, model: Model) -> dict:
    tasks = []
    for cls in I.TENSOR_CLASSES:
        for lib, table in (("np", I.NP_DT), ("torch", I.TORCH_DT), ("jax", I.JAX_DT)):
            kinds = list(table) + (["other"] if lib == "np" else [])
            for dt in kinds:
                if I.available(lib, dt):
                    tasks.append({"cls": cls, "lib": lib, "dt": dt})
    rep.rule = ("every exported tensor class x every dtype kind numpy / torch / jax can put on an array here (bool, ints, f16/32/64, bf16, "
                "float8 variants, long double, complex, str); exhaustive; distinct = (class, library, dtype); non-trivial = class is not TensorTypeBase")
    rep.rule += '; plus every numpy spelling of every dtype (typecodes, C names, byte-swapped) x every class, and user-defined tensor classes (own DTYPES, two classes of one __name__, call and subscript)'
    rep.exhaustive = True
    reqs = [f"(dtype ({' '.join(I.class_dtoks(t['cls']))}) {t['lib']} {t['dt']})" for t in tasks]
    answers = model.ask_many(reqs)
    worker = ImplWorker("harness.props.c04")
    try:
        results = worker.call_many("impl_accepts", tasks)
    finally:
        worker.close()
    for t, ans, res in zip(tasks, answers, results):
        if "__skipped__" in res:
            continue
        doc = documented(t["cls"], t["lib"], t["dt"])
        rec = {"class": t["cls"], "library": t["lib"], "dtype": t["dt"], "documented": doc, "model_accepts": ans == "1", "impl": res}
        if "v" not in res:
            rep.violation({"what": "check did not finish", **rec})
            continue
        rep.case((t["cls"], t["lib"], t["dt"]), rec, nontrivial=t["cls"] != "TensorTypeBase")
        acc = res["v"] == "accept"
        rep.count(f"{t['lib']}:{'accept' if acc else res.get('kind', res['v'])}")
        if not acc and not (res["v"] == "reject" and res.get("kind") == "Dtype"):
            rep.violation({"what": "rejected with something other than the dtype error", **rec})
        elif acc != doc:
            rep.violation({"what": "class accepts a dtype outside its documented category" if acc else "class rejects a dtype of its documented category", **rec})
        elif acc != (ans == "1"):
            rep.disagreement({"what": "model of `dtype in DTYPES` and implementation differ", **rec})
    fresh = {(t["cls"], t["lib"], t["dt"]): ("accept" if r["v"] == "accept" else r.get("kind") or r.get("exn") or r["v"])
             for t, r in zip(tasks, results) if "v" in r}
    libs_dts: dict = {}
    for t in tasks:
        if t["dt"] not in libs_dts.setdefault(t["lib"], []):
            libs_dts[t["lib"]].append(t["dt"])
    sequence_sweep(rep, fresh, rng_for("C04", seed), libs_dts, "C04")
    # the same dtype under every spelling numpy offers (typecodes, C names, byte order): the verdict follows the category
    sp_tasks = [{"cls": cls, "spelling": sp} for cls in I.TENSOR_CLASSES for sp in np_spellings()]
    rep.streams["numpy_dtype_spellings"] = len(sp_tasks)
    worker = ImplWorker("harness.props.c04")
    try:
        sp_results = worker.call_many("impl_accepts_spelling", sp_tasks)
    finally:
        worker.close()
    for t, res in zip(sp_tasks, sp_results):
        if "__skipped__" in res:
            continue
        if "v" not in res or "array_dtype" not in res:
            rep.violation({"what": "check did not finish", "class": t["cls"], "spelling": t["spelling"], "impl": res})
            continue
        tok = res["array_dtype"].split(":", 1)[1]
        doc = documented(t["cls"], "np", tok)
        acc = res["v"] == "accept"
        rec = {"class": t["cls"], "library": "np", "spelling": t["spelling"], "dtype": tok, "documented": doc, "impl": res}
        rep.case((t["cls"], "np-spelling", t["spelling"]), rec, nontrivial=t["cls"] != "TensorTypeBase")
        rep.count(f"spelling:{'accept' if acc else res.get('kind', res['v'])}")
        if not acc and not (res["v"] == "reject" and res.get("kind") == "Dtype"):
            rep.violation({"what": "rejected with something other than the dtype error", **rec})
        elif acc != doc and tok != "other":
            rep.violation({"what": "a dtype of the documented category is " + ("rejected" if doc else "accepted outside it") + " under another numpy spelling of the same dtype", **rec})
        elif acc != doc:
            # a dtype numpy does not consider equal to any canonical one (e.g. byte-swapped): the model of `in DTYPES` says no
            rep.disagreement({"what": "model of `dtype in DTYPES` (numpy dtype equality) and implementation differ", **rec})
    w4 = ImplWorker("harness.props.c04")
    try:
        us = w4.call("impl_user_subclasses", {}, timeout=60.0)
    finally:
        w4.close()
    rep.case("user_subclasses", {"n": us.get("n")})
    rep.count("user_subclass_observations", us.get("n", 0))
    for pr in us.get("problems", [{"what": "the user-subclass run did not finish", "detail": us}] if "problems" not in us else []):
        rep.violation(pr)
    return {"tables": {c: I.class_dtoks(c) for c in I.TENSOR_CLASSES}}
