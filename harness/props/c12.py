"""C12 - scope providers pre-bind dimension names for exactly the current call.

Streams: (a) histories over one decorated function with a free provider whose mapping changes between calls
(rebinding or in-place update of a long-lived dict), every call compared with the model run with the
provider's value at that moment; (b) single calls with `"self"` providers on methods, objects that do not
implement the protocol, and `"self"` on a function without self/cls (TypeError at decoration).
"""

from __future__ import annotations

import copy

from harness import ctxrun, history
from harness import gen_ctx as GC
from harness import impl as I
from harness.common import ImplWorker, Model, Report, rng_for, depth
from harness.props.c01 import sig_case
from harness.props.c09 import KEYS, expected_for, scopes_along, within_resource_bound


def impl_family(fam: dict) -> dict:
    return history.run_family(fam)


def impl_fn(case: dict) -> dict:
    return I.run_fn_case(case)


def gen_history(rnd) -> dict | None:
    base = GC.gen_case(rnd, tuples=0.1, plain=0.1, optionals=0.1, with_provider=1.0, with_ret=0.4)
    scope0 = dict(base["provider"]["scope"])
    f = {"name": "f0", "params": [{"name": p["name"], "hint": p["hint"]} for p in base["params"]],
         "ret": {"name": "return", "hint": base["ret"]} if base.get("ret") else None, "provider": "P0"}
    fam = {"aliases": {}, "functions": [f], "order": ["f0"], "providers": {"P0": {"scope": scope0, "fresh": rnd.random() < 0.5}}, "steps": [], "threads": 0}
    for _ in range(rnd.choice([3, 5, 7])):
        if rnd.random() < 0.4:
            sc = dict(fam["steps"][-1]["scope"]) if fam["steps"] and "scope" in fam["steps"][-1] else dict(scope0)
            r = rnd.random()
            if sc and r < 0.6:
                k = rnd.choice(list(sc))
                sc[k] = rnd.choice(GC.SIZES)
            elif r < 0.8:
                sc[rnd.choice(GC.NAME_POOL + ["unused2"])] = rnd.choice(GC.SIZES)
            else:
                sc = {}
            fam["steps"].append({"set_provider": "P0", "scope": sc, "in_place": rnd.random() < 0.5})
        else:
            c = base
            if rnd.random() < 0.35:
                p = GC.perturb(rnd, base)
                if p:
                    c = p[0]
            fam["steps"].append({"fn": "f0", "args": copy.deepcopy(c["args"]), "retval": copy.deepcopy(c.get("retval"))})
    return fam


def impl_self_history(spec: dict) -> dict:
    """Worker side: one class whose method is decorated with "self"; several instances with their own values; calls
    through the bound method or through the class attribute."""
    case = spec["case"]
    ns = I.base_ns()
    log: list = []
    retbox = [None]
    ns.update({"LOG": log, "RETVAL": retbox, "RAISE": False, "BodyError": I.BodyError, "PROVIDER": None, "DEFAULTS": {}})
    src = I.fn_source(case)
    cls_src = ("class K:\n" + "".join("    " + ln + "\n" for ln in src.splitlines())
               + "    def __init__(self, sc):\n        self.scope = sc\n        self.calls = 0\n"
               + "    def get_dltype_scope(self):\n        self.calls += 1\n        return dict(self.scope)\n")
    try:
        exec(compile(cls_src, "<case>", "exec", dont_inherit=True), ns)  # noqa: S102
    except BaseException as e:  # noqa: BLE001
        return {"v": "decerr", "exn": type(e).__name__, "src": cls_src}
    K = ns["K"]
    insts = [K(dict(sc)) for sc in spec["instances"]]
    outcomes = []
    for st in spec["steps"]:
        if "set" in st:
            insts[st["set"]].scope = dict(st["scope"])
            outcomes.append({"v": "set"})
            continue
        args = {k: I.value_obj(v) for k, v in st["args"].items()}
        retbox[0] = I.value_obj(st["retval"]) if st.get("retval") is not None else None
        inst = insts[st["inst"]]
        before = [x.calls for x in insts]
        try:
            if st.get("via") == "class":
                K.f(inst, **args)
            elif st.get("via") == "selfkw":
                K.f(self=inst, **args)
            else:
                inst.f(**args)
            o = {"v": "accept"}
        except BaseException as e:  # noqa: BLE001
            o = I.canon_exc(e)
        o["consulted"] = [x.calls - b for x, b in zip(insts, before)]
        outcomes.append(o)
    return {"v": "ok", "outcomes": outcomes, "src": cls_src}


def impl_same_class(_: dict) -> dict:
    """Objects of ONE class that differ in whether they satisfy the provider protocol (the method is an instance attribute, or is
    attached / removed between calls): each call is judged on the object it is given, in every order, across functions."""
    import types
    from typing import Annotated

    import numpy as np

    import dltype

    T = Annotated[np.ndarray, dltype.FloatTensor["a n"]]
    good, bad = np.zeros((2, 5), dtype=np.float32), np.zeros((2, 6), dtype=np.float32)
    problems, n = [], 0

    def outcome(fn, *args):
        try:
            fn(*args)
            return "accept"
        except dltype.DLTypeError as e:
            return type(e).__name__
        except BaseException as e:  # noqa: BLE001
            return "OTHER " + type(e).__name__

    for order in ("without_first", "with_first"):
        class Cfg:
            pass

        without, with_ = Cfg(), Cfg()
        with_.get_dltype_scope = lambda: {"n": 5}

        def f(x):
            return None

        def g(x):
            return None

        f.__annotations__ = {"x": T}     # this module has postponed annotations: give the real objects
        g.__annotations__ = {"x": T}
        fw, fo = dltype.dltyped(with_)(f), dltype.dltyped(without)(g)
        seq = [(fo, "DLTypeScopeProviderError", good), (fw, "accept", good), (fw, "DLTypeShapeError", bad), (fo, "DLTypeScopeProviderError", good)]
        if order == "with_first":
            seq = [seq[1], seq[0], seq[2], seq[3]]
        for fn, want, arr in seq:
            n += 1
            got = outcome(fn, arr)
            if got != want:
                problems.append({"what": "two objects of one class, only one of which is a scope provider: a call was judged by the other object",
                                 "order": order, "expected": want, "got": got})

        def m(self, x):
            return None

        m.__annotations__ = {"x": T}
        M = type("M", (), {"m": dltype.dltyped("self")(m)})

        a, b = M(), M()
        b.get_dltype_scope = lambda: {"n": 5}
        seq = [(a, "DLTypeScopeProviderError", good), (b, "accept", good), (b, "DLTypeShapeError", bad), (a, "DLTypeScopeProviderError", good)]
        if order == "with_first":
            seq = [seq[1], seq[0], seq[2], seq[3]]
        for inst, want, arr in seq:
            n += 1
            got = outcome(inst.m, arr)
            if got != want:
                problems.append({"what": '"self" provider: instances of one class, only one of which has get_dltype_scope: judged by the other instance',
                                 "order": order, "expected": want, "got": got})
        # the method is attached later, then removed again
        c = M()
        n += 3
        r1 = outcome(c.m, good)
        c.get_dltype_scope = types.MethodType(lambda self: {"n": 5}, c)
        r2 = outcome(c.m, good)
        del c.get_dltype_scope
        r3 = outcome(c.m, good)
        if (r1, r2, r3) != ("DLTypeScopeProviderError", "accept", "DLTypeScopeProviderError"):
            problems.append({"what": "an object that gains and loses get_dltype_scope between calls is not judged as it is at each call", "got": [r1, r2, r3]})
    return {"n": n, "problems": problems}


def gen_self_history(rnd) -> dict:
    base = GC.gen_case(rnd, tuples=0.1, plain=0.1, optionals=0.1, with_provider=1.0, with_ret=0.4)
    base["provider"]["kind"] = "self"
    base["method"] = True
    scope0 = dict(base["provider"]["scope"])
    used = [x for x in scope0 if x in base.get("rho", {})] or list(scope0)
    insts = [scope0]
    for _ in range(rnd.choice([1, 2])):
        sc = dict(scope0)
        if used and rnd.random() < 0.8:
            k = rnd.choice(used)
            sc[k] = rnd.choice([v for v in GC.SIZES if v != sc[k]])
        elif sc and rnd.random() < 0.5:
            sc.pop(rnd.choice(list(sc)))
        insts.append(sc)
    steps = []
    cur = [dict(sc) for sc in insts]
    for _ in range(rnd.choice([3, 4, 6])):
        if rnd.random() < 0.15:
            i = rnd.randrange(len(insts))
            sc = dict(cur[i])
            if sc:
                k = rnd.choice(list(sc))
                sc[k] = rnd.choice(GC.SIZES)
            cur[i] = sc
            steps.append({"set": i, "scope": sc})
            continue
        c = base
        if rnd.random() < 0.25:
            p = GC.perturb(rnd, base)
            if p:
                c = p[0]
        i = rnd.randrange(len(insts))
        steps.append({"inst": i, "args": copy.deepcopy(c["args"]), "retval": copy.deepcopy(c.get("retval")),
                      "via": rnd.choice(["bound", "bound", "class", "selfkw"]), "scope_now": dict(cur[i])})
    return {"case": {k: base[k] for k in ("form", "params", "ret", "provider", "method")} | {"args": {}, "retval": None}, "instances": insts, "steps": steps}


def single_cases(rnd, n: int) -> list[tuple[str, dict]]:
    out = []
    c = sig_case([("x", "a n")], [(2, 5)], provider={"kind": "free", "scope": "bad"})
    out.append(("bad_free_provider", c))
    c = sig_case([("x", "a n")], [(2, 5)], provider={"kind": "self", "scope": {"n": 5}})
    out.append(("self_on_function", c))                       # no self / cls parameter: TypeError at decoration
    for n_val, shape in ((5, (2, 5)), (6, (2, 5))):
        c = sig_case([("x", "a n")], [shape], provider={"kind": "self", "scope": {"n": n_val}})
        c["method"] = True
        out.append(("self_method", c))
    c = sig_case([("x", "a n")], [(2, 5)], provider={"kind": "self", "scope": "bad"})
    c["method"] = True
    out.append(("self_not_a_provider", c))
    c = sig_case([("x", "a n=3")], [(2, 3)], provider={"kind": "free", "scope": {"n": 4}})
    out.append(("conflict_with_literal", c))
    c = sig_case([("x", "a k*2")], [(2, 6)], provider={"kind": "free", "scope": {"k": 3, "unused": 9}})
    out.append(("used_in_expression", c))
    for _ in range(n):
        base = GC.gen_case(rnd, with_provider=1.0)
        kind = rnd.random()
        if kind < 0.3:
            base["provider"]["kind"] = "self"
            base["method"] = True
            if rnd.random() < 0.2:
                base["provider"]["scope"] = "bad"
        elif kind < 0.4:
            base["provider"]["scope"] = "bad"
        if rnd.random() < 0.4:
            p = GC.perturb(rnd, base)
            if p:
                base = p[0]
        out.append(("generated", base))
    return out


def run(tier: str, seed: int, rep: Report, model: Model) -> dict:
    rnd = rng_for("C12", seed)
    n_hist = depth(tier, 200, 6000)
    n_single = depth(tier, 400, 12000)
    rep.rule = ("histories of 3-7 steps over one function with a provider (fresh or long-lived dict; values changed by rebinding or in place; "
                "empty / unused / used-in-expression names) and single calls with self / bad providers; distinct = distinct history or case; "
                "non-trivial = the provider value changes during the history (or the provider is self / bad)")
    rep.rule += '; plus histories over several instances of one class with a "self" provider (bound method, class attribute, self= keyword) and objects of one class that differ in having get_dltype_scope'
    hists = []
    while len(hists) < n_hist:
        h = gen_history(rnd)
        if h and within_resource_bound(h):
            hists.append(h)
    # (no case beyond the reference's resource bound reaches the extracted model: a power of millions of bits stalls it, DESIGN 10)
    singles = [(lb, c) for lb, c in single_cases(rnd, n_single) if not ctxrun.beyond_resource_bound(c)]
    selfs = []
    while len(selfs) < depth(tier, 150, 5000):
        sh = gen_self_history(rnd)
        if not any(ctxrun.beyond_resource_bound({**sh["case"], "provider": {"kind": "self", "scope": dict(st["scope_now"]), "fresh": True}, "args": st["args"],
                                                 "retval": st.get("retval")}) for st in sh["steps"] if "inst" in st):
            selfs.append(sh)
    rep.streams.update({"provider_histories": n_hist, "single_calls": len(singles), "self_instance_histories": len(selfs)})
    worker = ImplWorker("harness.props.c12")
    try:
        hres = worker.call_many("impl_family", hists, timeout=60.0)
        sres = worker.call_many("impl_fn", [c for _, c in singles])
        selfres = worker.call_many("impl_self_history", selfs, timeout=60.0)
        same = worker.call("impl_same_class", {}, timeout=60.0)
    finally:
        worker.close()
    for fam, res in zip(hists, hres):
        if "__skipped__" in res:
            continue
        changes = sum(1 for s in fam["steps"] if "set_provider" in s)
        brief = {"function": ctxrun.brief({"params": fam["functions"][0]["params"], "args": {}, "ret": (fam["functions"][0]["ret"] or {}).get("hint"), "provider": fam["providers"]["P0"]}),
                 "steps": [(s.get("fn") or "set", s.get("scope")) for s in fam["steps"]]}
        rep.case(str(brief) + str(fam["steps"]), brief, nontrivial=changes > 0)
        rep.count(f"history:{res.get('v')}")
        rec = {"history": brief, "steps": fam["steps"]}
        if res.get("v") != "ok":
            rep.violation({"what": "the function could not be decorated / run", "result": {k: v for k, v in res.items() if k != "src"}, **rec})
            continue
        exp = expected_for(fam, model, scopes_along(fam))
        for i, (o, e) in enumerate(zip(res["outcomes"], exp)):
            if e is None:
                continue
            if tuple(str(o.get(k)) for k in KEYS) != tuple(str(e.get(k)) for k in KEYS):
                rep.violation({"what": "a call was not checked against the provider's current values", "step": i, "got": o, "expected": e, **rec})
                break
        if rep.many_violations():
            break
    # (c) "self" providers: several instances of one class, each call against the values of ITS instance at that moment
    for spec, res in zip(selfs, selfres):
        if "__skipped__" in res:
            continue
        differing = len({str(sorted(sc.items())) for sc in spec["instances"]}) > 1
        brief = {"method": ctxrun.brief({**spec["case"], "args": {}}), "instances": spec["instances"],
                 "steps": [(("set", st["set"], st["scope"]) if "set" in st else (st["inst"], st["via"])) for st in spec["steps"]]}
        rep.case(str(brief) + str(spec["steps"]), brief, nontrivial=differing)
        rep.count(f"self_history:{res.get('v')}")
        rec = {"self_history": brief, "steps": spec["steps"]}
        if res.get("v") != "ok":
            rep.violation({"what": "the class could not be defined", "result": {k: v for k, v in res.items() if k != "src"}, **rec})
            continue
        calls = [(i, st) for i, st in enumerate(spec["steps"]) if "inst" in st]
        reqs = []
        for _, st in calls:
            c = copy.deepcopy(spec["case"])
            c["provider"] = {"kind": "self", "scope": dict(st["scope_now"]), "fresh": True}
            c["args"], c["retval"] = st["args"], st.get("retval")
            reqs.append(I.fn_case_sx(c))
        for (i, st), ans in zip(calls, model.ask_many(reqs) if reqs else []):
            e = ctxrun.norm_model(ans)
            if e.get("v") == "identity":
                e = {"v": "accept"}
            o = res["outcomes"][i]
            if tuple(str(o.get(k)) for k in KEYS) != tuple(str(e.get(k)) for k in KEYS):
                rep.violation({"what": "a method call was not checked against the values of the instance it was called on", "step": i, "got": o, "expected": e, **rec})
                break
            others = [n for j, n in enumerate(o.get("consulted", [])) if j != st["inst"] and n]
            if others:
                rep.violation({"what": "another instance's provider was consulted for this call", "step": i, "got": o, **rec})
                break
        if rep.many_violations():
            break
    # (d) protocol membership is a fact about the object at the time of the call, not about its class
    rep.case("same_class_providers", same)
    rep.count("same_class_observations", same.get("n", 0))
    for pr in same.get("problems", [{"what": "the same-class provider run did not finish", "detail": same}] if "problems" not in same else []):
        rep.violation(pr)
    answers = model.ask_many([I.fn_case_sx(c) for _, c in singles])
    for (label, case), raw, ans in zip(singles, sres, answers):
        if "__skipped__" in raw:
            continue
        im, mo = ctxrun.norm_impl(raw), ctxrun.norm_model(ans)
        b = ctxrun.brief(case)
        b["method"] = bool(case.get("method"))
        rep.case(str(b), {**b, "impl": im.get("kind") or im.get("exn") or im["v"]}, nontrivial=True)
        rep.count(f"{label}:{im['v']}:{im.get('kind') or im.get('exn') or ''}")
        rec = {"case": b, "label": label, "impl": im, "model": mo}
        prov = case["provider"]
        if label == "self_on_function":
            if not (im["v"] == "decerr" and im.get("exn") == "TypeError"):
                rep.violation({"what": '"self" on a function without self/cls was not refused with TypeError at decoration', **rec})
        elif im["v"] == "identity":
            pass  # nothing is annotated: the decorator returns the function itself
        elif prov.get("scope") == "bad":
            if not (im["v"] == "reject" and im.get("kind") == "ScopeProvider"):
                rep.violation({"what": "an object that does not implement the protocol did not give DLTypeScopeProviderError", **rec})
        else:
            ref = GC.reference(case)
            if im["v"] == "accept" and ref["v"] not in ("accept", "unknown"):
                rep.violation({"what": "accepted although a tensor contradicts the provided sizes", "reference": ref, **rec})
            elif ref["v"] == "accept" and im["v"] not in ("accept", "identity"):
                rep.violation({"what": "rejected although the tensors match the provided sizes", "reference": ref, **rec})
            elif raw.get("provider_calls") not in (None, 1) and im["v"] != "identity":
                rep.violation({"what": f"the provider was consulted {raw.get('provider_calls')} times for one call", **rec})
        if not ctxrun.same_report(im, mo) and im["v"] not in ("harness",):
            rep.disagreement({"what": "model and implementation differ", **rec})
    return {}
