"""C05 - dimension expressions evaluate to their arithmetic value.

Tie: grammar stream.  For every generated AST: the printed string is given to the implementation (through
the public front door: a provider supplies the scope, a one-axis TensorTypeBase[<expr>] parameter is called
with shape (0,) / (1,) and the `expected=` field of the shape error is the value) and to the extracted model;
the reference value is computed on the AST itself (gen_expr.den), independent of both parsers.
"""

from __future__ import annotations

import itertools
import re
import warnings

from harness import gen_expr as G
from harness import impl as I
from harness.common import ImplWorker, Model, Report, rng_for, sx_scope, sx_str, unbin, depth

warnings.simplefilter("ignore")
import numpy as np  # noqa: E402
from typing import Annotated  # noqa: E402

import dltype  # noqa: E402

_EXPECTED = re.compile(r"expected=(-?\d+)")


class _P:
    def __init__(self) -> None:
        self.s: dict[str, int] = {}

    def get_dltype_scope(self) -> dict[str, int]:
        return dict(self.s)


_prov = _P()
_Z0 = np.zeros((0,))
_Z1 = np.zeros((1,))


def front_door(expr: str):
    """Build (once per string) a checked function whose only parameter has the one-axis shape `expr`."""
    ann = dltype.TensorTypeBase[expr]  # SyntaxError propagates to the caller

    def f(x):  # noqa: ANN001, ANN202
        return None

    f.__annotations__ = {"x": Annotated[np.ndarray, ann]}
    return dltype.dltyped(_prov)(f), ann


def read_value(fn, scope: dict[str, int]):
    """('val', n) | ('exn', class name) | ('ref', missing name)."""
    _prov.s = scope
    for probe in (_Z0, _Z1):
        try:
            fn(probe)
        except dltype.DLTypeShapeError as e:
            return ("val", int(_EXPECTED.search(str(e)).group(1)))
        except dltype.DLTypeInvalidReferenceError as e:
            m = re.search(r"missing_ref=(\S*) valid_refs=", str(e))
            return ("ref", m.group(1) if m else "?")
        except dltype.DLTypeError as e:
            return ("exn", type(e).__name__)
        except BaseException as e:  # noqa: BLE001
            return ("exn", type(e).__name__)
    return ("exn", "accepted-both-0-and-1")


_fast = []


def fast_path():
    if _fast:
        return _fast[0]
    _fast.append(_fast_path())
    return _fast[0]


def _fast_path():
    try:
        from dltype._lib import _parser  # optional, private

        _parser.expression_from_string("a+1").evaluate({"a": 1})
        return _parser
    except Exception:  # noqa: BLE001
        return None


_fd_cache: dict = {}
_repr_first: dict = {}


def impl_eval(a: dict) -> dict:
    """Runs in the worker: the value the implementation gives expression a['s'] under scope a['sc']."""
    s, sc = a["s"], {k: int(v) for k, v in a["sc"].items()}
    viol = []
    try:
        if a["front"] or fast_path() is None:
            if s not in _fd_cache:
                _fd_cache[s] = front_door(s)
            fn, ann = _fd_cache[s]
            iv = read_value(fn, sc)
            r = I.ann_text(ann)
            # parsing is deterministic and scope independent: same postfix before / after evaluations
            if s in _repr_first and _repr_first[s] != r:
                viol.append({"what": "annotation changed after evaluation", "before": _repr_first[s], "after": r})
            _repr_first.setdefault(s, r)
            if a.get("post") and a["post"] not in r:
                viol.append({"what": "postfix program differs from the grammar's", "repr": r, "expected_postfix": a["post"]})
            r2 = I.ann_text(dltype.TensorTypeBase[s])
            if r2 != r:
                viol.append({"what": "parsing the same string twice gives different annotations", "a": r, "b": r2})
        else:
            d = fast_path().expression_from_string(s)
            try:
                iv = ("val", int(d.evaluate(dict(sc))))
            except KeyError as ke:
                iv = ("ref", ke.args[0])
            except BaseException as ex:  # noqa: BLE001
                iv = ("exn", type(ex).__name__)
    except SyntaxError:
        iv = ("parse", "SyntaxError")
    except BaseException as ex:  # noqa: BLE001
        iv = ("parse", type(ex).__name__)
    return {"iv": [iv[0], str(iv[1])], "viol": viol}


def model_value(ans: str):
    w = ans.split()
    if w[0] == "OK":
        return ("val", unbin(w[1]))
    if w[0] == "PARSE_ERR":
        return ("parse", w[1])
    ex = w[1]
    if ex.startswith("KeyError:"):
        return ("ref", bytes.fromhex(ex.split(":s", 1)[1]).decode())
    return ("exn", ex)


def scopes_for(rnd, e, n: int):
    vs = sorted(G.variables(e))
    out = []
    for i in range(n):
        mode = rnd.random()
        sc = {}
        for v in vs:
            if mode < 0.55:
                sc[v] = rnd.choice([0, 1, 2, 3, 4, 5, 7, 8, 16, 64])
            elif mode < 0.8:
                sc[v] = rnd.choice([0, 1, 2, 3, 10**30, 2**64 + 1, 12345678901234567890])
            else:
                sc[v] = rnd.choice([-7, -2, -1, 0, 1, 2, 3, 9])
        if i == n - 1 and vs and rnd.random() < 0.3:
            sc.pop(rnd.choice(vs))  # an unbound name: the invalid-reference report
        out.append(sc)
    return out


def all_small_asts(max_size: int):
    """Every stratified AST up to a size over {a, b, 2, 3} and all operators (thorough tier)."""
    atoms = [("var", "a"), ("var", "b"), ("lit", 2), ("lit", 3)]
    by_size_level: dict[tuple[int, int], list] = {}

    def build(size: int, level: int):
        key = (size, level)
        if key in by_size_level:
            return by_size_level[key]
        res = []
        if level > 3:
            if size == 1:
                res = list(atoms)
            else:
                for inner in build(size - 1, 1):
                    res.append(("paren", inner))
                    res.append(("isqrt", inner))
                for sa in range(1, size - 1):
                    for a, b in itertools.product(build(sa, 1), build(size - 1 - sa, 1)):
                        res.append(("fun2", "min", a, b))
                        res.append(("fun2", "max", a, b))
        else:
            res = list(build(size, level + 1))
            ops = [o for o, p in G.INFIX.items() if p == level]
            for sl in range(1, size - 1):
                for l, r in itertools.product(build(sl, level), build(size - 1 - sl, level + 1)):
                    for o in ops:
                        res.append(("bin", o, l, r))
        by_size_level[key] = res
        return res

    out = []
    for s in range(1, max_size + 1):
        out += build(s, 1)
    return out


def run(tier: str, seed: int, rep: Report, model: Model) -> dict:
    rnd = rng_for("C05", seed)
    n_random = depth(tier, 3000, 40000)
    n_front = depth(tier, 400, 3000)
    n_scopes = 3 if tier == "quick" else 5
    parser = fast_path()
    rep.rule = (
        "stratified ASTs (all operators, nesting <= 5, shared names, literals incl. 0 and 30-digit numbers) printed to strings; "
        f"{n_scopes} scopes each incl. negative, huge and unbound; distinct = distinct (string, scope); non-trivial = AST size >= 3"
    )
    asts = []
    for _ in range(n_random):
        asts.append(G.gen_level(rnd, 1, rnd.choice([1, 2, 2, 3, 3, 4, 5])))
    if tier == "thorough":
        small = all_small_asts(4)
        rep.streams["exhaustive_small_asts"] = len(small)
        asts += small
    # named forms
    named = []
    for _ in range(n_random // 10):
        e = G.gen_level(rnd, 1, 2)
        x = rnd.choice(["n", "m0", "out_dim"])
        if x not in G.variables(e):
            named.append((x, e))
    rep.streams["random_asts"] = n_random
    rep.streams["named"] = len(named)

    cases = []  # (string, ast, scope, via_front)
    for i, e in enumerate(asts):
        s = G.print_expr(e)
        for sc in scopes_for(rnd, e, n_scopes):
            cases.append((s, e, sc, i < n_front or parser is None))
    # directed: the exponentiation table at its edges (negative exponents go through floats in the code: truncation,
    # and the parity of an exponent beyond 2**53 is lost; the model carries exactly that)
    pw = ("bin", "^", ("var", "a"), ("var", "b"))
    pow_edges = [(x, y) for x in (-3, -2, -1, 0, 1, 2, 3, 2**53, -(2**53) - 1, 10**30)
                 for y in (-1, -2, -3, -(2**53) + 1, -(2**53), -(2**53) - 1, -(2**53) - 2, -(10**30) - 1, -(2**64) - 1, 0, 1, 2, 3)]
    rep.streams["pow_edges"] = len(pow_edges)
    for x, y in pow_edges:
        cases.append((G.print_expr(pw), pw, {"a": x, "b": y}, False))
        cases.append(("isqrt(" + G.print_expr(pw) + ")", ("isqrt", pw), {"a": x, "b": y}, False))
    for x, e in named:
        s = x + "=" + G.print_expr(e)
        for sc in scopes_for(rnd, e, 2):
            cases.append((s, e, sc, True))

    # resource bound (DESIGN 10): cases whose reference evaluation meets a huge power are not run anywhere
    kept = []
    for c in cases:
        if c[1][0] == "var" and c[1][1] not in c[2] and "=" not in c[0]:
            continue  # a bare unbound name is a binding occurrence for the checker, not an evaluation
        try:
            ref = ("val", G.den(c[1], c[2]))
        except G.Undefined as u:
            ref = ("ref", u.detail) if u.kind == "KeyError" else ("exn", u.kind)
        except G.TooBig:
            rep.count("skipped_too_big")
            continue
        kept.append((*c, ref))
    cases = kept
    answers = model.ask_many([f"(expr {sx_str(s)} {sx_scope(sc)})" for s, _, sc, _, _ in cases])
    worker = ImplWorker("harness.props.c05")
    try:
        results = worker.call_many("impl_eval", [
            {"s": s, "sc": {k: str(v) for k, v in sc.items()}, "front": via_front, "post": G.postfix_repr(e) if "=" not in s else None}
            for (s, e, sc, via_front, ref) in cases])
        for (s, e, sc, via_front, ref), ans, res in zip(cases, answers, results):
            mv = model_value(ans)
            case = {"expr": s, "scope": {k: str(v) for k, v in sc.items()}, "model": [mv[0], str(mv[1])], "reference": [ref[0], str(ref[1])]}
            if "__skipped__" in res:
                rep.count("not_run_after_timeouts")
                continue
            if "__timeout__" in res or "__error__" in res:
                rep.violation({"what": "the implementation did not produce the value of the expression (no answer / harness error)", "detail": res, **case})
                continue
            for v in res["viol"]:
                rep.violation({**v, **case})
            iv = (res["iv"][0], int(res["iv"][1]) if res["iv"][0] == "val" else res["iv"][1])
            rep.case((s, tuple(sorted(sc.items()))), {"expr": s, "scope": case["scope"], "value": str(iv[1]), "via": "front-door" if via_front else "evaluate()"}, nontrivial=G.size(e) >= 3)
            rep.count("outcome_" + iv[0] + ("_" + str(iv[1]) if iv[0] == "exn" else ""))
            rep.count("via_front" if via_front else "via_evaluate")
            case["impl"] = [iv[0], str(iv[1])]
            if ref[0] == "val":
                if iv != ref:
                    rep.violation({"what": "value differs from the arithmetic value of the expression", **case})
                    continue
            elif iv[0] in ("val", "parse"):
                rep.violation({"what": "an undefined expression produced a value", **case})
                continue
            if iv != mv:
                rep.disagreement({"what": "model and implementation differ", **case})
    finally:
        worker.close()
    return {"fast_path_available": parser is not None, "worker_restarts": worker.restarts}
