"""C03 - standalone check: rank, dtype, literal axes, multi-axis alignment.

Exhaustive small scope through the public TensorTypeBase(...).check(x): all shape strings of up to N dims
over {2, 3, a, c=2, ..., *b} (at most one marker) x all shapes over {1,2,3} up to a rank bound x two dtypes,
against (a) the specification evaluated directly (reference below: front/back alignment, written without
the implementation's index arithmetic) and (b) the extracted model.
"""

from __future__ import annotations

import itertools
import warnings

from harness import impl as I
from harness.common import ImplWorker, Model, Report, sx_str
from harness.impl import annot_sx, parse_model_outcome, sx_int

warnings.simplefilter("ignore")

DIMS = ["2", "3", "a", "c=2", "...", "*b"]
DIMS_BIG = ["257", "k=1000", "65536", "a", "...", "*b"]   # sizes beyond CPython's small-int cache, beyond a byte, beyond 16 bits
BIG_SIZES = (1, 256, 257, 1000, 65536)


class _Lits:
    """literal value of a dimension spelling: digits, or name=digits"""

    def __contains__(self, d: str) -> bool:
        return self.get(d) is not None

    def get(self, d: str):
        r = d.split("=", 1)[-1]
        return int(r) if r.isascii() and r.isdigit() else None

    def __getitem__(self, d: str) -> int:
        return self.get(d)


LITS = _Lits()


def reference(dims: list[str], cls_ok: bool, shape: tuple) -> dict:
    """The property's right-hand side, evaluated on the declared dims."""
    markers = [i for i, d in enumerate(dims) if d in ("...", "*b")]
    n = len(dims)
    r = len(shape)
    rank_err = None
    if markers:
        if r < n - 1:
            rank_err = {"v": "reject", "kind": "NDims", "expected": n - 1, "actual": r}
    elif r != n:
        rank_err = {"v": "reject", "kind": "NDims", "expected": n, "actual": r}
    if rank_err is not None:
        # the rank is wrong; when the dtype is wrong as well either error describes a mismatch (their order is the code's business)
        return rank_err if cls_ok else {"v": "reject", "any_of": [rank_err, {"v": "reject", "kind": "Dtype"}], "several": True}
    m = markers[0] if markers else None
    bad = [] if cls_ok else [{"v": "reject", "kind": "Dtype"}]
    for i, d in enumerate(dims):
        if d not in LITS:
            continue
        if m is not None and i > m:
            pos = r - (n - i)  # aligned from the back
        else:
            pos = i  # aligned from the front
        if shape[pos] != LITS[d]:
            bad.append({"v": "reject", "kind": "Shape", "idx": pos, "expected": LITS[d], "actual": shape[pos]})
    if bad:
        return {"v": "reject", "any_of": bad, "several": len(bad) > 1}
    return {"v": "accept"}


_ann_cache: dict = {}


def impl_check(a: dict) -> dict:
    import dltype

    key = (a["cls"], a["s"])
    if key not in _ann_cache:
        _ann_cache[key] = getattr(dltype, a["cls"])(a["s"])
    t = _ann_cache[key]
    x = I.mk_array(a["lib"], a["dt"], a["shape"])
    try:
        t.check(x, "x") if a.get("named", True) else t.check(x)
        return {"v": "accept"}
    except BaseException as e:  # noqa: BLE001
        return I.canon_exc(e)


def run(tier: str, seed: int, rep: Report, model: Model) -> dict:
    nd = 3 if tier == "quick" else 4
    maxrank = 4 if tier == "quick" else 5
    strings = []
    for n in range(1, nd + 1):
        for combo in itertools.product(DIMS, repeat=n):
            if sum(1 for d in combo if d in ("...", "*b")) <= 1:
                strings.append(list(combo))
    shapes = [()] + [s for r in range(1, maxrank + 1) for s in itertools.product((1, 2, 3), repeat=r)]
    # (class, lib, dtype, does the class accept it)
    dts = [("FloatTensor", "np", "f32", True), ("FloatTensor", "np", "i32", False)]
    if tier == "thorough":
        dts += [("IntTensor", "torch", "i64", True), ("TensorTypeBase", "jax", "u8", True)]
    rep.rule = (f"all shape strings of <= {nd} dims over {DIMS} with at most one marker x all shapes over {{1,2,3}} of rank <= {maxrank} "
                "(rank 0 included) x dtype in/out of the class; distinct = (string, shape, dtype); non-trivial = rank test passes")
    rep.rule += '; plus literal axes and sizes of 256 / 257 / 1000 / 65536 (numpy, every shape of at most 2M elements)'
    rep.exhaustive = True
    tasks = []
    for dims in strings:
        s = " ".join(dims)
        for shape in shapes:
            # prune: ranks far from the declared one add nothing beyond the first rank error
            if abs(len(shape) - len(dims)) > 2:
                continue
            for cls, lib, dt, ok in dts:
                tasks.append({"cls": cls, "s": s, "dims": dims, "lib": lib, "dt": dt, "shape": list(shape), "ok": ok})
    rep.streams["exhaustive"] = len(tasks)
    # large sizes: literal axes and actual sizes of 256 / 257 / 1000 / 65536 (numpy only, at most ~2M elements)
    nbig = 0
    for n in (1, 2, 3):
        for combo in itertools.product(DIMS_BIG, repeat=n):
            if sum(1 for d in combo if d in ("...", "*b")) > 1 or not any(d in LITS for d in combo):
                continue
            for r in range(max(0, n - 1), n + 2):
                for shape in itertools.product(BIG_SIZES, repeat=r):
                    prod = 1
                    for v in shape:
                        prod *= v
                    if prod > 2_000_000:
                        continue
                    tasks.append({"cls": "FloatTensor", "s": " ".join(combo), "dims": list(combo), "lib": "np", "dt": "f32", "shape": list(shape), "ok": True})
                    nbig += 1
    rep.streams["large_sizes"] = nbig
    reqs = []
    for t in tasks:
        h = {"cls": t["cls"], "shape": t["s"]}
        reqs.append(f"(check {annot_sx(h)} ({t['lib']} {t['dt']} ({' '.join(sx_int(v) for v in t['shape'])})) {sx_str('x')})")
    answers = model.ask_many(reqs)
    worker = ImplWorker("harness.props.c03")
    try:
        results = worker.call_many("impl_check", tasks)
    finally:
        worker.close()
    for t, ans, res in zip(tasks, answers, results):
        if "__skipped__" in res:
            rep.count("not_run_after_timeouts")
            continue
        ref = reference(t["dims"], t["ok"], tuple(t["shape"]))
        mo = parse_model_outcome(ans)
        case = {"class": t["cls"], "shape_string": t["s"], "tensor": [t["lib"], t["dt"], t["shape"]], "reference": ref, "model": mo, "impl": res}
        if "__timeout__" in res or "__error__" in res:
            rep.violation({"what": "check did not finish", **case})
            continue
        rep.case((t["cls"], t["s"], tuple(t["shape"]), t["dt"]), {"shape_string": t["s"], "tensor_shape": t["shape"], "dtype": t["dt"], "outcome": res.get("kind", res["v"])},
                 nontrivial=not (res["v"] == "reject" and res.get("kind") == "NDims"))
        rep.count("impl_" + (res.get("kind") or res["v"]))
        # specification
        ok = False
        if ref["v"] == "accept":
            ok = res["v"] == "accept"
        elif "any_of" in ref:
            ok = any(res.get("v") == "reject" and res.get("kind") == b["kind"] and res.get("name") == "x" and
                     all(res.get(k) == b[k] for k in b if k not in ("v", "kind")) for b in ref["any_of"])
        else:
            ok = res.get("v") == "reject" and res.get("kind") == ref["kind"] and res.get("name") == "x" and all(res.get(k) == ref[k] for k in ref if k not in ("v", "kind"))
        if not ok:
            rep.violation({"what": "check() outcome differs from the specification (rank / dtype / aligned literal axes)", **case})
            if rep.many_violations():
                break
            continue
        if ref.get("several"):
            # several aspects are wrong at once: which one is reported first is not part of the property; compare the verdict only
            if res.get("v") != mo.get("v"):
                rep.disagreement({"what": "model and implementation differ in verdict", **case})
        elif {k: v for k, v in res.items()} != mo:
            rep.disagreement({"what": "model and implementation report differently", **case})
    return {"dims_alphabet": DIMS, "max_dims": nd, "max_rank": maxrank}
