"""C15 - verdicts depend on arrays only through rank, sizes and dtype category.

Every generated context is executed under three library assignments (all numpy, all torch, randomly mixed
incl. jax) with the same shapes and equivalent (shared) dtypes; verdict and report must be identical, zero-size
and zero-rank arrays included, and equal to the model's.
"""

from __future__ import annotations

import copy

from harness import ctxrun
from harness import gen_ctx as GC
from harness.common import ImplWorker, Model, Report, rng_for, depth
from harness.impl import HOWS, LIBS, SHARED_DT, available

KEYS = ("v", "kind", "name", "idx", "expected", "actual", "missing", "valid", "exn", "called")


def relabel(case: dict, assign, how=None) -> dict:
    c = copy.deepcopy(case)
    k = [0]

    def hint(h, v):
        if h["k"] == "opt":
            hint(h["of"], v)
        elif h["k"] == "tuple":
            elts = v["elts"] if isinstance(v, dict) and v.get("k") == "tup" else []
            for i, eh in enumerate(h["elts"]):
                hint(eh, elts[i] if i < len(elts) else None)
        elif h["k"] == "ann":
            k[0] += 1
            lib = assign(k[0])
            h["lib"] = lib
            if isinstance(v, dict) and v.get("k") == "arr":
                v["lib"] = lib
                if how is not None:
                    v["how"] = how(k[0], lib)

    for p in c["params"]:
        if p.get("hint"):
            hint(p["hint"], c["args"].get(p["name"]))
    if c.get("ret"):
        hint(c["ret"], c.get("retval"))
    return c


def shared_only(case: dict) -> bool:
    return all(it["v"] is None or it["v"].get("k") != "arr" or it["v"]["dt"] in SHARED_DT for it in GC.flatten(case))


def run(tier: str, seed: int, rep: Report, model: Model) -> dict:
    rnd = rng_for("C15", seed)
    n = depth(tier, 400, 10000)
    libs = [l for l in LIBS if available(l, "f32")]
    rep.rule = ("contexts as in C01 (conforming / one fault / several) with shared dtypes, each run under 3 library assignments and once with "
                "arrays produced another way (Fortran / strided / transposed / broadcast / read-only / non-zero / MaskedArray / ndarray subclass; torch "
                "non-contiguous / expanded / requires_grad / Parameter / meta device; jax tracers); "
                "distinct = distinct base context; non-trivial = the three assignments really differ")
    rep.rule += '; each context also once with arrays produced another way (Fortran / strided / transposed / broadcast / read-only / non-zero / MaskedArray / ndarray subclass; torch non-contiguous / expanded / requires_grad / Parameter / meta; jax tracers)'
    bases = []
    while len(bases) < n:
        c = GC.gen_case(rnd)
        r = rnd.random()
        nf = 0
        if r > 0.35:
            for _ in range(1 if r < 0.8 else 2):
                p = GC.perturb(rnd, c)
                if p:
                    c = p[0]
                    nf += 1
        c["nfaults"] = nf
        if shared_only(c):
            bases.append(c)
    cases = []
    for c in bases:
        cases.append(relabel(c, lambda i: "np"))
        cases.append(relabel(c, lambda i: "torch" if "torch" in libs else "np"))
        pick = [rnd.choice(libs) for _ in range(64)]
        cases.append(relabel(c, lambda i, pick=pick: pick[i % 64]))
        # the same (shape, dtype) produced another way: layout, strides, flags, contents, subclasses, devices, jax tracers
        pick2 = [rnd.choice(libs) for _ in range(64)]
        hows = [rnd.random() for _ in range(64)]
        cases.append(relabel(c, lambda i, pick2=pick2: pick2[i % 64],
                             how=lambda i, lib, hows=hows: HOWS[lib][int(hows[i % 64] * len(HOWS[lib]))]))
    worker = ImplWorker("harness.ctxrun")
    try:
        out = ctxrun.run_cases(cases, model, worker)
    finally:
        worker.close()
    for i, base in enumerate(bases):
        three = out[4 * i : 4 * i + 4]
        if any(im.get("detail", {}).get("__skipped__") for _, im, _, _ in three):
            continue
        ims = [tuple(str(im.get(k)) for k in KEYS) for _, im, _, _ in three]
        mos = [tuple(str(mo.get(k)) for k in KEYS) for _, _, mo, _ in three]
        b = [ctxrun.brief(c) for c, _, _, _ in three]
        rep.case(str(b[0]), {"numpy": b[0], "mixed": b[2], "impl": three[0][1].get("kind") or three[0][1]["v"]}, nontrivial=b[0] != b[2])
        rep.count(f"impl_{three[0][1]['v']}")
        rec = {"cases": b, "impl": [im for _, im, _, _ in three], "model": [mo for _, _, mo, _ in three]}
        if any(im["v"] == "harness" for _, im, _, _ in three):
            rep.violation({"what": "a call did not finish", **rec})
        elif len(set(ims)) != 1:
            rep.violation({"what": "verdict or report changes with the array library or with how the array was produced", **rec})
        elif three[0][1]["v"] != "identity" and (ims != mos if base.get("nfaults", 0) <= 1 else [x[0] for x in ims] != [x[0] for x in mos]):
            rep.disagreement({"what": "model and implementation differ", **rec})
        if rep.many_violations():
            break
    # every exported class x every shared dtype: the answer must not depend on the library (this is also the search
    # for a concrete input when the finite theorem over the regenerated tables no longer checks)
    from harness import impl as I
    from harness.props import c04

    sweep = [{"cls": c, "lib": l, "dt": d} for c in I.TENSOR_CLASSES for d in SHARED_DT for l in libs]
    w2 = ImplWorker("harness.props.c04")
    try:
        sres = w2.call_many("impl_accepts", sweep)
    finally:
        w2.close()
    table: dict = {}
    for t, r in zip(sweep, sres):
        table.setdefault((t["cls"], t["dt"]), {})[t["lib"]] = r.get("v")
    for (c, d), per in table.items():
        rep.case(("dtype", c, d), None)
        rep.count("dtype_sweep")
        if len(set(per.values())) != 1:
            rep.violation({"what": "a class gives different answers for the same (shared) dtype depending on the array library", "class": c, "dtype": d, "per_library": per})
    fresh = {(t["cls"], t["lib"], t["dt"]): ("accept" if r.get("v") == "accept" else r.get("kind") or r.get("exn") or r.get("v"))
             for t, r in zip(sweep, sres) if "v" in r}
    c04.sequence_sweep(rep, fresh, rnd, {l: list(SHARED_DT) for l in libs}, "C15")
    return {"libraries": libs}
