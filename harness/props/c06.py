"""C06 - malformed shape strings raise SyntaxError when the annotation is built (and nothing else, ever).

Streams: corpus of formerly accepted malformed strings; exhaustive strings over a token alphabet; token-level
mutations of valid strings; printable-ASCII noise.  Observed through dltype.TensorTypeBase(s): exception
class or accepted; for accepted strings repr(), multiaxis_index / multiaxis_name / anonymous_multiaxis (all
public) are compared with the model's parse, and a checked call is made to see that nothing parse-related
surfaces later.  Oracle: gen_expr.shape_in_grammar, a recursive-descent recogniser of the documented
grammar written independently of model and code.
"""

from __future__ import annotations

import itertools
import json
import warnings

from harness import gen_expr as G
from harness import impl as I
from harness.common import CORPUS, ImplWorker, Model, Report, rng_for, sx_str, unbin, depth

warnings.simplefilter("ignore")
from typing import Annotated  # noqa: E402

import numpy as np  # noqa: E402

import dltype  # noqa: E402


class _P:
    def __init__(self) -> None:
        self.s: dict[str, int] = {}

    def get_dltype_scope(self) -> dict[str, int]:
        return dict(self.s)


_prov = _P()
ARITH = {"ZeroDivisionError", "ValueError", "OverflowError"}


def impl_parse(s: str) -> dict:
    """Runs in the worker."""
    try:
        t = dltype.TensorTypeBase(s)
    except SyntaxError:
        return {"v": "SyntaxError"}
    except BaseException as e:  # noqa: BLE001
        return {"v": "exn", "exn": type(e).__name__}
    out = {"v": "ok", "repr": I.ann_text(t), "mi": t.multiaxis_index, "mn": t.multiaxis_name, "an": bool(t.anonymous_multiaxis),
           "n": len(t.expected_shape)}
    # later use: a call with a tensor of a fitting rank, all names bound by a provider
    if "^" in s:
        return out  # powers of powers are a resource question, not a parsing one (DESIGN 10)
    try:
        def f(x):  # noqa: ANN001, ANN202
            return None

        f.__annotations__ = {"x": Annotated[np.ndarray, t]}
        g = dltype.dltyped(_prov)(f)
        names = set()
        for d in t.expected_shape:
            names |= {p for p in d.parsed_expression if isinstance(p, str)} if hasattr(d, "parsed_expression") else set()
        late = []
        for val in (2, 0):
            _prov.s = {n: val for n in names}
            rank = out["n"] - (1 if t.multiaxis_index is not None else 0)
            try:
                g(np.zeros((2,) * rank))
                late.append("accept")
            except dltype.DLTypeError:
                late.append("dltype")
            except BaseException as e:  # noqa: BLE001
                late.append(type(e).__name__)
        out["late"] = late
    except BaseException as e:  # noqa: BLE001
        out["late"] = ["decorate:" + type(e).__name__]
    return out


def model_repr(ans: str) -> dict:
    """Rebuild from the model's dump what repr() and the public attributes must show."""
    if ans.startswith("ERR"):
        return {"v": ans.split()[1]}
    body = ans[3:]
    dims_part, rest = body.rsplit(" mi=", 1)
    dims = []
    for chunk in dims_part.split("]["):
        chunk = chunk.strip("[]")
        ident, post, flags = chunk.rsplit("|", 2)[0].rsplit("|", 1)[0], chunk.rsplit("|", 2)[1], chunk.rsplit("|", 2)[2]
        toks = []
        for p in post.split():
            if p[0] == "i":
                toks.append(str(unbin(p[1:])))
            elif p[0] == "n":
                toks.append(repr(p[1:]))
            else:
                toks.append(p[1:])
        lst = "[" + ", ".join(toks) + "]"
        lit, anon = flags[0] == "1", flags[4] == "1"
        if anon:
            dims.append(f"Anonymous<{ident}>")
        elif lit:
            dims.append(f"Literal<{ident}={lst}>")
        else:
            dims.append(f"Identifier<{ident}={lst}>")
    mi, rest = rest.split(" mn=", 1)
    mn, rest = rest.split(" an=", 1)
    an = rest.split(" ")[0]
    tup = "(" + ", ".join(dims) + ("," if len(dims) == 1 else "") + ")"
    return {"v": "ok", "repr": f"TensorTypeBase[{tup}]", "mi": None if mi == "None" else int(mi), "mn": None if mn == "-" else mn, "an": an == "1"}


def corpus_strings() -> list[str]:
    p = CORPUS / "C06" / "malformed.json"
    return json.loads(p.read_text()) if p.exists() else []


def run(tier: str, seed: int, rep: Report, model: Model) -> dict:
    rnd = rng_for("C06", seed)
    L = 3 if tier == "quick" else 4
    n_mut = depth(tier, 4000, 150000)
    n_noise = depth(tier, 1500, 50000)
    strings: list[str] = []
    corpus = corpus_strings()
    strings += corpus
    rep.streams["corpus"] = len(corpus)
    ex = ["".join(t) for n in range(0, L + 1) for t in itertools.product(G.TOKEN_ALPHABET, repeat=n)]
    rep.streams[f"exhaustive_alphabet_len<={L}"] = len(ex)
    strings += ex
    # longer strings over a reduced alphabet (operand, literal, operator, brackets, comma, a unary and a binary function):
    # malformed strings that need nesting (a bare function name closing a group, an argument list after a group, ...)
    R = ["a", "1", "+", "(", ")", ",", "isqrt", "min"]
    LR = 5 if tier == "quick" else 6
    exr = ["".join(t) for n in range(L + 1, LR + 1) for t in itertools.product(R, repeat=n)]
    rep.streams[f"exhaustive_reduced_alphabet_len<={LR}"] = len(exr)
    strings += exr
    muts = []
    for _ in range(n_mut):
        r = rnd.random()
        if r < 0.5:
            s = G.print_expr(G.gen_level(rnd, 1, rnd.choice([1, 2, 2, 3])))
            if rnd.random() < 0.3:
                s = rnd.choice(["n", "m0"]) + "=" + s
        else:
            dims = []
            for _ in range(rnd.randrange(1, 4)):
                q = rnd.random()
                e = G.print_expr(G.gen_level(rnd, 1, rnd.choice([0, 1, 2])))
                if q < 0.2:
                    e = rnd.choice(["a", "b", "n"]) + "=" + e
                elif q < 0.35:
                    e = rnd.choice(["...", "*a", "*batch"])
                dims.append(e)
            s = " ".join(dims)
        for _ in range(rnd.choice([0, 1, 1, 1, 2, 3])):
            s = G.mutate(rnd, s)
        muts.append(s)
    rep.streams["mutated_valid"] = len(muts)
    strings += muts
    # identifier stream: legal and illegal names in every position a name can take (before '=', after '*', as operand)
    names = ["a", "Ab_1", "x9", "n_", "a__b", "_", "_n", "__x", "_1", "1a", "9", "a.b", "a-b", "a b", "", "A", "é", "a$", "$a", "a'", "min", "max",
             "isqrt", "mina", "Min", "a:", "[a]", "a,b", "...", "..", "*", "**", "None", "True", "in", "-"]
    ident = []
    for nm in names:
        for tmpl in ("{n}", "{n}=3", "{n}=b+1", "*{n}", "{n}+1", "2*{n}", "min({n},1)", "isqrt({n})", "b {n}", "{n}=", "x={n}", "x={n}+1", "({n})", "*{n} b", "{n}={n}"):
            ident.append(tmpl.format(n=nm))
    rep.streams["identifier_positions"] = len(ident)
    strings += ident
    noise = ["".join(chr(rnd.randrange(32, 127)) for _ in range(rnd.randrange(1, 10))) for _ in range(n_noise)]
    rep.streams["ascii_noise"] = len(noise)
    strings += noise
    strings = list(dict.fromkeys(strings))
    rep.rule = ("shape strings: corpus + all strings over a 19-token alphabet up to the length bound + 0-3 token mutations of valid "
                "strings + printable noise; distinct = distinct string; non-trivial = not the empty string")
    rep.rule += '; plus all strings of 4-5 (thorough: 6) tokens over a reduced 8-token alphabet'
    rep.exhaustive = False

    answers = model.ask_many([f"(parse {sx_str(s)})" for s in strings])
    worker = ImplWorker("harness.props.c06")
    try:
        results = worker.call_many("impl_parse", strings, timeout=15.0)
    finally:
        worker.close()
    for s, ans, res in zip(strings, answers, results):
        if "__skipped__" in res:
            rep.count("not_run_after_timeouts")
            continue
        ing = G.shape_in_grammar(s)
        mr = model_repr(ans)
        case = {"shape": s, "in_grammar": ing, "model": mr}
        if "__timeout__" in res or "__error__" in res:
            rep.violation({"what": "construction did not finish", "detail": res, **case})
            continue
        rep.case(s, {"shape": s, "impl": res["v"], "in_grammar": ing}, nontrivial=s != "")
        rep.count(("grammar_" if ing else "malformed_") + res["v"])
        case["impl"] = res
        if res["v"] == "exn":
            rep.violation({"what": f"construction raised {res['exn']}, not SyntaxError", **case})
            continue
        if not ing and res["v"] == "ok":
            rep.violation({"what": "a string outside the documented grammar was accepted", **case})
            continue
        if res["v"] == "ok":
            bad = [x for x in res.get("late", []) if x not in ("accept", "dltype") and x not in ARITH]
            if bad:
                rep.violation({"what": "a parse-related error surfaced during a call", "late": res["late"], **case})
                continue
        # correspondence with the model
        if res["v"] != mr["v"]:
            if ing and res["v"] == "SyntaxError":
                rep.violation({"what": "a string of the documented grammar was rejected", **case})
            else:
                rep.disagreement({"what": "model and implementation differ on acceptance", **case})
        elif res["v"] == "ok" and any(res[k] != mr[k] for k in ("repr", "mi", "mn", "an")):
            rep.disagreement({"what": "model and implementation parse the string differently", **case})
        if rep.many_violations():
            break
    return {"alphabet": G.TOKEN_ALPHABET, "length_bound": L}
