"""C10 - optional hints: None is skipped, everything else is still checked; general unions are refused.

Streams: contexts with optional hints in parameter, tuple-element and return position and every pattern of
None / conforming / violating values next to siblings that still have to be checked; hints without `| None`
given None; unions with alternatives other than None (TypeError at decoration).
"""

from __future__ import annotations

import copy

from harness import ctxrun
from harness import gen_ctx as GC
from harness.common import ImplWorker, Model, Report, rng_for, depth
from harness.impl import H_PLAIN, V_NONE
from harness.props.c01 import sig_case


def corpus() -> list[dict]:
    c = []
    a = sig_case([("x", ("a b?", "a b")), ("y", "b")], [(None, (2, 3)), (4,)])     # D4: later elements were skipped
    c.append(a)
    b = copy.deepcopy(a)
    b["args"]["y"]["shape"] = [3]
    c.append(b)
    c.append(sig_case([("x", "a b?"), ("y", "a")], [None, (2,)]))
    c.append(sig_case([("x", "a b?"), ("y", "a")], [(2, 3), (3,)]))
    c.append(sig_case([("x", "a b"), ("y", "a")], [None, (2,)]))                    # None for a non-optional hint
    d = sig_case([("x", "a b")], [(2, 3)], ret="a b?", retval=None)
    c.append(d)
    e = sig_case([("x", "a b")], [(2, 3)], ret="a b", retval=(2, 3))
    e["retval"] = dict(V_NONE)
    c.append(e)
    # every spelling of an optional hint means the same
    for sp in ("Optional", "T|None", "None|T", "Union[None,T]", "Union[T,None]"):
        for val in ((2,), (2, 3), None):
            o = sig_case([("x", "a b?"), ("y", "a")], [val, (2,)])
            o["params"][0]["hint"]["spell"] = sp
            c.append(o)
    # unions with alternatives other than None
    for alts, none in ((["ann", "plain"], False), (["ann", "ann"], False), (["ann", "plain"], True)):
        u = sig_case([("x", "a b")], [(2, 3)])
        h = u["params"][0]["hint"]
        u["params"][0]["hint"] = {"k": "union", "alts": [h if k == "ann" else dict(H_PLAIN) for k in alts], "none": none}
        c.append(u)
    return c


def run(tier: str, seed: int, rep: Report, model: Model) -> dict:
    rnd = rng_for("C10", seed)
    n = depth(tier, 1000, 40000)
    rep.rule = ("contexts rich in optional hints (parameters, tuple elements, return) with random None / conforming / violating values; "
                "plus unions with non-None alternatives; distinct = distinct case; non-trivial = at least one None at an annotated position")
    cases = corpus()
    for _ in range(n):
        base = GC.gen_case(rnd, optionals=0.6, tuples=0.4, plain=0.05, opt_tuples=0.25)
        r = rnd.random()
        if r < 0.4:
            cases.append(base)
        else:
            p = GC.perturb(rnd, base)
            cases.append(p[0] if p else base)
    worker = ImplWorker("harness.ctxrun")
    try:
        for case, im, mo, raw in ctxrun.run_cases(cases, model, worker):
            if im.get("detail", {}).get("__skipped__"):
                rep.count("not_run_after_timeouts")
                continue
            b = ctxrun.brief(case)
            has_union = any(p.get("hint") and p["hint"]["k"] == "union" for p in case["params"])
            nones = sum(1 for it in GC.flatten(case) if it["v"] is not None and it["v"].get("k") == "none")
            rep.case(str(b), {**b, "impl": im.get("kind") or im.get("exn") or im["v"]}, nontrivial=nones > 0 or has_union)
            rec = {"case": b, "impl": im, "model": mo}
            if has_union:
                rep.count(f"union:{im['v']}:{im.get('exn')}")
                if not (im["v"] == "decerr" and im.get("exn") == "TypeError"):
                    rep.violation({"what": "a union with an alternative other than None was not refused with TypeError at decoration", **rec})
                continue
            ref = GC.reference(case)
            rep.count(f"nones_{min(nones,2)}:ref_{ref['v']}:impl_{im['v']}")
            rec["reference"] = ref
            if im["v"] == "harness":
                rep.violation({"what": "the call did not finish", **rec})
            elif im["v"] == "accept" and ref["v"] not in ("accept", "unknown"):
                rep.violation({"what": "accepted although a tensor next to a skipped None violates its annotation (or None was given to a non-optional hint)", **rec})
            elif ref["v"] == "accept" and im["v"] not in ("accept", "identity"):
                rep.violation({"what": "rejected although every non-None value conforms", **rec})
            elif not ctxrun.same_report(im, mo):
                rep.disagreement({"what": "model and implementation differ", **rec})
            if rep.many_violations():
                break
    finally:
        worker.close()
    return {}
