"""C20 - import works for every installed-backend combination and the exports match it.

harness.tables runs dltype in a fresh interpreter for each of the 8 availability masks of {numpy, torch, jax}
(sys.meta_path finder raising ModuleNotFoundError) and regenerates coq/gen/GenConfig.v; props/C20.v re-proves
the configuration theorem against it.  This module re-reads the same observations: import outcome, supported
array types, DTYPES of each class, and one accepted / one rejected checked call per available library.
"""

from __future__ import annotations

from harness.common import Model, Report

LIBNAME = {"np": "numpy", "torch": "torch", "jax": "jax"}


def run(tier: str, seed: int, rep: Report, model: Model) -> dict:
    gen = getattr(rep, "gen", None)
    if gen is None:
        from harness import tables

        gen = tables.regenerate()
    probes = gen["probes"]
    full = probes["111"]
    rep.rule = "all 8 availability masks, each in a fresh interpreter; exhaustive; non-trivial = at least one library missing"
    rep.rule += '; the masks that leave numpy intact again with libraries failing by a plain ImportError (installed but broken)'
    rep.exhaustive = True
    for key, p in probes.items():
        n, t, j = (c == "1" for c in key)
        realisable = (not j) or n
        rec = {"mask": {"numpy": n, "torch": t, "jax": j}, "realisable": realisable,
               "observed": {k: v for k, v in p.items() if k not in ("classes",)}}
        rep.case(key, rec, nontrivial=not (n and t and j))
        if not realisable:
            rep.count("unrealisable_jax_without_numpy")
            n2, t2, j2 = n, t, False   # the probe masks jax together with numpy
        else:
            n2, t2, j2 = n, t, j
        if p.get("import") == "probe-failed":
            rep.violation({"what": "the probe interpreter did not report", **rec})
            continue
        if (p.get("has_numpy"), p.get("has_torch"), p.get("has_jax")) != (n2, t2, j2):
            rep.disagreement({"what": "the mask did not produce the intended availability", **rec})
            continue
        want_ok = n2 or t2
        if want_ok != (p["import"] == "ok"):
            rep.violation({"what": "import outcome differs from `numpy or torch importable`", **rec})
            continue
        if not want_ok:
            rep.count("import_error")
            if p["import"] != "ImportError":
                rep.violation({"what": "import failed with something other than ImportError", **rec})
            continue
        rep.count("import_ok")
        want_sup = sorted(LIBNAME[l] for l, present in (("np", n2), ("torch", t2), ("jax", j2)) if present)
        if p["supported"] != want_sup:
            rep.violation({"what": "SUPPORTED_TENSOR_TYPES differs from the importable libraries", "expected": want_sup, **rec})
        for cls, toks in p["classes"].items():
            if cls == "BFloat16Tensor" and not t2:
                if toks is not None:
                    rep.violation({"what": "BFloat16Tensor is exported without torch", "class": cls, **rec})
                continue
            want = [x for x in (full["classes"][cls] or []) if (x.startswith("T:") and t2) or (x.startswith("N:") and n2)]
            if sorted(set(toks or [])) != sorted(set(want)):   # as sets: order and repetition inside DTYPES mean nothing
                rep.violation({"what": "a class does not carry exactly the dtypes of the importable libraries", "class": cls, "got": toks, "expected": want, **rec})
        for lib, present in (("np", n2), ("torch", t2), ("jax", j2)):
            if present and p["works"].get(lib) != ["accept", "DLTypeShapeError"]:
                rep.violation({"what": f"checking does not work for {lib} in this configuration", "works": p["works"], **rec})
            for fname, res in (p.get("forms", {}).get(lib, {}) if present else {}).items():
                rep.count(f"form_{fname}:{lib}:{'ok' if res == ['accept', 'DLTypeShapeError'] else 'differs'}")
                if res != ["accept", "DLTypeShapeError"]:
                    rep.violation({"what": f"checking through the {fname} entry point does not work for {lib} in this configuration", "outcomes": res, **rec})
    # a library that is installed but broken (its import raises a plain ImportError, not ModuleNotFoundError) is not importable
    # either: every mask again in that mode, compared with the observation above
    from concurrent.futures import ThreadPoolExecutor

    from harness import tables

    keys = [k for k in probes if k != "111" and k[0] == "1"]   # numpy itself intact: torch and jax do not import without it
    masks = [tuple(c == "1" for c in k) for k in keys]
    with ThreadPoolExecutor(max_workers=7) as ex:
        broken = list(ex.map(lambda m: tables.probe(m, broken=True), masks))
    SAME = ("has_numpy", "has_torch", "has_jax", "import", "supported", "classes", "works", "forms")
    for key, p, b in zip(keys, (probes[k] for k in keys), broken):
        rep.case(key + ":broken-install", None)
        rep.count("broken_install_mode:" + str(b.get("import")))
        diff = {f: {"not_installed": p.get(f), "broken": b.get(f)} for f in SAME if p.get(f) != b.get(f)}
        if diff:
            rep.violation({"what": "a library whose import fails with a plain ImportError is not treated like a library that is not installed",
                           "mask": key, "differences": diff, "message": b.get("msg")})
    return {"masks": sorted(probes)}
