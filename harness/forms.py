"""The three class entry points (dataclass, NamedTuple, pydantic model) synthesised from one field list."""

from __future__ import annotations

from harness import impl as I
from harness.common import sx_bool, sx_str


def class_source(case: dict) -> str:
    form = case["form"]
    lines = []
    for f in case["fields"]:
        h = f["hint"]
        if form == "pyd" and h is not None:
            h = _call_form(h)
        src = "int" if h is None else I.hint_src(h)
        lines.append(f"    {f['name']}: {src}" + (" = None" if f.get("default_none") else ""))
    body = "\n".join(lines) + "\n"
    en = "" if "enabled" not in case else f"enabled={case['enabled']}"
    if form == "dc":
        opts = ", ".join(f"{k}={v}" for k, v in case.get("dc_opts", {}).items())
        return f"@dltype.dltyped_dataclass({en})\n@dataclasses.dataclass({opts})\nclass K:\n{body}"
    if form == "nt":
        return f"@dltype.dltyped_namedtuple({en})\nclass K(NamedTuple):\n{body}"
    if form == "pyd":
        cfg = "arbitrary_types_allowed=True" + (", validate_assignment=True" if case.get("validate_assignment") else "")
        return f"class K(pydantic.BaseModel):\n    model_config = pydantic.ConfigDict({cfg})\n{body}"
    raise ValueError(form)


def _call_form(h: dict) -> dict:
    h = dict(h)
    if h["k"] == "ann":
        h["call"] = True
    elif h["k"] == "opt":
        h["of"] = _call_form(h["of"])
    elif h["k"] == "tuple":
        h["elts"] = [_call_form(x) for x in h["elts"]]
    return h


def build_class(case: dict):
    ns = I.base_ns()
    exec(compile(class_source(case), '<case>', 'exec', dont_inherit=True), ns)  # noqa: S102
    return ns["K"]


def construct(K, case: dict, values: dict):
    objs = {k: I.value_obj(v) for k, v in values.items()}
    order = case.get("order") or list(objs)
    npos = case.get("npos", 0)
    names = [f["name"] for f in case["fields"]]
    pos = [objs[n] for n in names[:npos]]
    kw = {n: objs[n] for n in order if n not in names[:npos]}
    return K(*pos, **kw), objs


def run_form_case(case: dict) -> dict:
    """Worker side: define the class, construct once."""
    if case["form"] == "fn":
        fc = {"form": "fn", "params": [{"name": f["name"], "hint": f["hint"]} for f in case["fields"]], "args": case["values"],
              "provider": None, "ret": None, "retval": None, "positional": [f["name"] for f in case["fields"]][: case.get("npos", 0)],
              "kw_order": list(case.get("order") or [])}
        if "enabled" in case:
            fc["enabled"] = case["enabled"]
        if case.get("warm") is not None:
            fc["warmup"] = {"args": case["warm"], "scope": None, "retval": None}
        return I.run_fn_case(fc)
    try:
        K = build_class(case)
    except BaseException as e:  # noqa: BLE001
        c = I.canon_exc(e)
        return {"v": "decerr", "exn": type(e).__name__, "dl": c if c["v"] == "reject" else None, "src": class_source(case)}
    if case.get("warm") is not None:
        # an earlier construction of the same class; whatever it did, the measured one below is its own context
        try:
            construct(K, case, case["warm"])
        except BaseException:  # noqa: BLE001, S110
            pass
    try:
        construct(K, case, case["values"])
        return {"v": "accept"}
    except BaseException as e:  # noqa: BLE001
        out = I.canon_exc(e)
        out["raw_type"] = type(e).__name__
        return out


def form_case_sx(case: dict) -> str:
    """(construct enabled fields vals) for fn/dc/nt; (pydantic fields ((validate vals))) for pyd."""
    en = sx_bool(case.get("enabled", True))
    if case["form"] == "pyd":
        fields = []
        for f in case["fields"]:
            h = f["hint"]
            if h is None or h["k"] == "plain":
                continue
            opt = h["k"] == "opt"
            a = h["of"] if opt else h
            fields.append(f"({sx_str(f['name'])} {I.annot_sx(a, opt)})")
        vals = " ".join(f"({sx_str(k)} {I.value_sx(v)})" for k, v in case["values"].items())
        return f"(pydantic ({' '.join(fields)}) ((validate ({vals}))))"
    fields = " ".join(f"({sx_str(f['name'])} {I.hint_sx(f['hint'] or I.H_PLAIN)})" for f in case["fields"])
    vals = " ".join(f"({sx_str(k)} {I.value_sx(v)})" for k, v in case["values"].items())
    return f"(construct {en} ({fields}) ({vals}))"
