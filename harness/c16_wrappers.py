"""Decorators defined in ANOTHER module than the functions they wrap (functools.wraps): this module's globals know nothing of the
names the wrapped functions' string annotations mention."""

import functools


def timed(fn):
    @functools.wraps(fn)
    def wrapper(*args, **kwargs):
        CALLS.append(fn.__name__)
        return fn(*args, **kwargs)

    return wrapper


CALLS: list = []
