"""Generators over the documented dimension-expression grammar, its reference semantics (independent of
both the model parser and the implementation) and a malformed-string stream."""

from __future__ import annotations

import math
import random

NAMES = ["a", "b", "c", "dim", "x1", "n_k", "max_len", "minibatch", "isqrt2", "mina", "A9_", "in", "class", "is", "lambda", "None", "True"]
INFIX = {"+": 1, "-": 1, "*": 2, "/": 2, "^": 3}

# AST: ("lit", n) ("var", x) ("bin", op, l, r) ("isqrt", a) ("fun2", "min"|"max", a, b) ("paren", e)


def gen_atom(rnd: random.Random, depth: int, names=NAMES, lits=None):
    r = rnd.random()
    if depth <= 0 or r < 0.45:
        if rnd.random() < 0.5:
            return ("var", rnd.choice(names))
        if lits is None:
            n = rnd.choice([0, 1, 2, 3, 4, 5, 7, 10, 16, 100, 10**30 + 7]) if rnd.random() < 0.9 else rnd.randrange(0, 10**12)
        else:
            n = rnd.choice(lits)
        return ("lit", n)
    if r < 0.65:
        return ("paren", gen_level(rnd, 1, depth - 1, names, lits))
    if r < 0.8:
        return ("isqrt", gen_level(rnd, 1, depth - 1, names, lits))
    return ("fun2", rnd.choice(["min", "max"]), gen_level(rnd, 1, depth - 1, names, lits), gen_level(rnd, 1, depth - 1, names, lits))


def gen_level(rnd: random.Random, level: int, depth: int, names=NAMES, lits=None):
    """An expression that may stand where precedence >= level is required; infix chains associate left."""
    if level > 3:
        return gen_atom(rnd, depth, names, lits)
    e = gen_level(rnd, level + 1, depth, names, lits)
    ops = [o for o, p in INFIX.items() if p == level]
    while depth > 0 and rnd.random() < 0.45:
        e = ("bin", rnd.choice(ops), e, gen_level(rnd, level + 1, depth - 1, names, lits))
    return e


def print_expr(e) -> str:
    k = e[0]
    if k == "lit":
        return str(e[1])
    if k == "var":
        return e[1]
    if k == "bin":
        return print_expr(e[2]) + e[1] + print_expr(e[3])
    if k == "isqrt":
        return "isqrt(" + print_expr(e[1]) + ")"
    if k == "fun2":
        return e[1] + "(" + print_expr(e[2]) + "," + print_expr(e[3]) + ")"
    if k == "paren":
        return "(" + print_expr(e[1]) + ")"
    raise ValueError(e)


def postfix(e) -> list:
    k = e[0]
    if k == "lit":
        return [e[1]]
    if k == "var":
        return [e[1]]
    if k == "bin":
        return postfix(e[2]) + postfix(e[3]) + [("op", e[1])]
    if k == "isqrt":
        return postfix(e[1]) + [("op", "isqrt")]
    if k == "fun2":
        return postfix(e[2]) + postfix(e[3]) + [("op", e[1])]
    return postfix(e[1])


def postfix_repr(e) -> str:
    """How Python prints the implementation's postfix list (ints, quoted names, bare operator symbols)."""
    out = []
    for t in postfix(e):
        if isinstance(t, tuple):
            out.append(t[1])
        elif isinstance(t, int):
            out.append(str(t))
        else:
            out.append(repr(t))
    return "[" + ", ".join(out) + "]"


def variables(e) -> set:
    k = e[0]
    if k == "var":
        return {e[1]}
    if k == "lit":
        return set()
    if k == "bin":
        return variables(e[2]) | variables(e[3])
    if k == "fun2":
        return variables(e[2]) | variables(e[3])
    return variables(e[1])


def size(e) -> int:
    k = e[0]
    if k in ("lit", "var"):
        return 1
    if k in ("bin", "fun2"):
        return 1 + size(e[2]) + size(e[3])
    return 1 + size(e[1])


class Undefined(Exception):
    """The expression has no arithmetic value under the scope (kind = Python exception the code raises)."""

    def __init__(self, kind: str, detail: str = "") -> None:
        super().__init__(kind)
        self.kind, self.detail = kind, detail


class TooBig(Exception):
    pass


def den(e, sc: dict):
    """Reference value: precedence is in the tree; floor division, floor square root, exact powers."""
    k = e[0]
    if k == "lit":
        return e[1]
    if k == "var":
        if e[1] not in sc:
            raise Undefined("KeyError", e[1])
        return sc[e[1]]
    if k == "paren":
        return den(e[1], sc)
    if k == "isqrt":
        v = den(e[1], sc)
        if v < 0:
            raise Undefined("ValueError")
        return math.isqrt(v)
    a = den(e[2], sc)
    b = den(e[3], sc)
    o = e[1]
    if o == "+":
        return a + b
    if o == "-":
        return a - b
    if o == "*":
        if abs(a).bit_length() + abs(b).bit_length() > 6000:
            raise TooBig
        return a * b
    if o == "/":
        if b == 0:
            raise Undefined("ZeroDivisionError")
        return a // b
    if o == "min":
        return min(a, b)
    if o == "max":
        return max(a, b)
    if o == "^":
        if b >= 0:
            if b > 256 or (abs(a).bit_length() * b > 3000):
                raise TooBig
            return a**b
        # the code computes int(a**b) through a float: truncation of the real value; converting a huge base or
        # exponent to float raises OverflowError (near 2**1024: left to the resource bound)
        if abs(a) >= 2**1000 or abs(b) >= 2**1000:
            raise TooBig
        if a == 0:
            raise Undefined("ZeroDivisionError")
        if a == 1:
            return 1
        if a == -1:
            # float(b) is an even integer once |b| >= 2**53: the parity of the exponent is lost there
            return 1 if (abs(b) >= 2**53 or b % 2 == 0) else -1
        if abs(a) < 2**1000:
            return 0
        raise TooBig
    raise ValueError(e)


def to_sx(e) -> str:
    raise NotImplementedError


# ---- malformed stream -------------------------------------------------------------------------------------

TOKEN_ALPHABET = ["a", "b1", "_c", "1", "07", "+", "-", "*", "/", "^", "(", ")", ",", "=", "min", "max", "isqrt", "...", "*a", " "]
NOISE = ["a", "b", "ab", "x1", "a_b", "min", "max", "isqrt", "mina", "isqrt4", "_", "A", "...", ".", "..", "1", "2", "10",
         "007", "0", "(", ")", ",", "+", "-", "*", "/", "^", "=", " ", "  ", "[", "]", "%", "3a", "a3", "?", "**", "'", '"', "\\", "~"]


def mutate(rnd: random.Random, s: str) -> str:
    if not s:
        return rnd.choice(NOISE)
    k = rnd.randrange(5)
    i = rnd.randrange(len(s))
    if k == 0:
        return s[:i] + s[i + 1 :]
    if k == 1:
        return s[:i] + rnd.choice(NOISE) + s[i:]
    if k == 2:
        j = rnd.randrange(len(s))
        return s[:i] + s[j] + s[i + 1 :]
    if k == 3:
        j = rnd.randrange(len(s))
        i, j = min(i, j), max(i, j)
        return s[:i] + s[j:j + 1] + s[i + 1 : j] + s[i : i + 1] + s[j + 1 :]
    return s[:i] + rnd.choice(NOISE) + s[i + 1 :]


# ---- reference recogniser of the documented shape-string grammar (independent of model and code) ----------

import re

_IDENT = re.compile(r"^[a-zA-Z][a-zA-Z0-9_]*\Z")
_FUNCS = {"min": 2, "max": 2, "isqrt": 1}


def _lex(s: str):
    toks = []
    i = 0
    while i < len(s):
        c = s[i]
        if c in "+-*/^(),=":
            toks.append(c)
            i += 1
            continue
        j = i
        while j < len(s) and s[j] not in "+-*/^(),=":
            j += 1
        toks.append(("w", s[i:j]))
        i = j
    return toks


def _parse_expr(toks, i):
    """expr := operand (infix operand)* ; returns the index after the expression or None."""
    i = _parse_operand(toks, i)
    while i is not None and i < len(toks) and toks[i] in ("+", "-", "*", "/", "^"):
        i = _parse_operand(toks, i + 1)
    return i


def _parse_operand(toks, i):
    if i is None or i >= len(toks):
        return None
    t = toks[i]
    if t == "(":
        j = _parse_expr(toks, i + 1)
        if j is not None and j < len(toks) and toks[j] == ")":
            return j + 1
        return None
    if isinstance(t, tuple):
        w = t[1]
        if w in _FUNCS:
            if i + 1 >= len(toks) or toks[i + 1] != "(":
                return None
            j = _parse_expr(toks, i + 2)
            for _ in range(_FUNCS[w] - 1):
                if j is None or j >= len(toks) or toks[j] != ",":
                    return None
                j = _parse_expr(toks, j + 1)
            if j is not None and j < len(toks) and toks[j] == ")":
                return j + 1
            return None
        if w.isascii() and w.isdigit():
            return i + 1
        if _IDENT.match(w):
            return i + 1
    return None


def _names_in(toks) -> set:
    return {t[1] for t in toks if isinstance(t, tuple) and t[1] not in _FUNCS and not t[1].isdigit()}


def dim_in_grammar(d: str) -> str | None:
    """Classify one dimension string: 'anon' | 'star' | 'expr' or None when it is outside the grammar."""
    if d == "...":
        return "anon"
    if d.startswith("*") and _IDENT.match(d[1:]) and d[1:] not in _FUNCS:
        return "star"
    if d.startswith("*") and _IDENT.match(d[1:]):
        return None  # *min etc.: the tokeniser reads an operator
    name = None
    body = d
    if "=" in d:
        name, body = d.split("=", 1)
        if not _IDENT.match(name):
            return None
    if " " in body or body == "":
        return None
    toks = _lex(body)
    if "=" in toks:
        return None
    if _parse_expr(toks, 0) != len(toks):
        return None
    if name is not None and name in _names_in(toks):
        return None
    return "expr"


def shape_in_grammar(s: str) -> bool:
    dims = s.split(" ")
    dims = [d for d in dims if d != ""]
    if not dims:
        return False
    kinds = [dim_in_grammar(d) for d in dims]
    if any(k is None for k in kinds):
        return False
    return sum(1 for k in kinds if k in ("anon", "star")) <= 1


# ---- reference parser (precedence climbing over the documented grammar) -----------------------------------


def parse_expr(s: str):
    """AST of an expression string of the documented grammar, or None when it is outside the grammar."""
    toks = _lex(s)
    if "=" in toks or " " in s or not toks:
        return None
    pos = [0]

    def peek():
        return toks[pos[0]] if pos[0] < len(toks) else None

    def operand():
        t = peek()
        if t is None:
            return None
        if t == "(":
            pos[0] += 1
            e = level(1)
            if e is None or peek() != ")":
                return None
            pos[0] += 1
            return ("paren", e)
        if isinstance(t, tuple):
            w = t[1]
            pos[0] += 1
            if w in _FUNCS:
                if peek() != "(":
                    return None
                pos[0] += 1
                a = level(1)
                if a is None:
                    return None
                if _FUNCS[w] == 2:
                    if peek() != ",":
                        return None
                    pos[0] += 1
                    b = level(1)
                    if b is None or peek() != ")":
                        return None
                    pos[0] += 1
                    return ("fun2", w, a, b)
                if peek() != ")":
                    return None
                pos[0] += 1
                return ("isqrt", a)
            if w.isascii() and w.isdigit():
                return ("lit", int(w))
            if _IDENT.match(w):
                return ("var", w)
        return None

    def level(lv: int):
        if lv > 3:
            return operand()
        e = level(lv + 1)
        while e is not None and peek() in INFIX and INFIX[peek()] == lv:
            o = peek()
            pos[0] += 1
            r = level(lv + 1)
            if r is None:
                return None
            e = ("bin", o, e, r)
        return e

    e = level(1)
    if e is None or pos[0] != len(toks):
        return None
    return e


def dims_from_string(shape: str | None) -> list[dict] | None:
    """Specification-level reading of a shape string (None when outside the grammar)."""
    if shape is None:
        return []
    out = []
    for d in shape.split():
        if d == "...":
            out.append({"k": "anon", "s": d})
        elif d.startswith("*") and _IDENT.match(d[1:]) and d[1:] not in _FUNCS:
            out.append({"k": "star", "x": d[1:], "s": d})
        else:
            name, body = (d.split("=", 1) if "=" in d else (None, d))
            if name is not None and not _IDENT.match(name):
                return None
            e = parse_expr(body)
            if e is None:
                return None
            if name is None:
                if e[0] == "lit":
                    out.append({"k": "lit", "n": e[1], "s": d})
                elif e[0] == "var":
                    out.append({"k": "name", "x": e[1], "s": d})
                else:
                    out.append({"k": "expr", "e": e, "s": d})
            else:
                if name in variables(e):
                    return None
                if e[0] == "lit":
                    out.append({"k": "namelit", "x": name, "n": e[1], "s": d})
                else:
                    out.append({"k": "nameexpr", "x": name, "e": e, "s": d})
    if sum(1 for d in out if d["k"] in ("anon", "star")) > 1 or not out:
        return None
    return out
