"""Child process that executes implementation-side tasks so that the parent can enforce timeouts.

python -m harness.worker <module>   reads {"f": name, "a": arg} per line, answers one JSON line each.
"""

from __future__ import annotations

import importlib
import json
import sys
import warnings


def main() -> None:
    sys.set_int_max_str_digits(0)
    warnings.simplefilter("ignore")
    mod = importlib.import_module(sys.argv[1])
    out = sys.stdout
    sys.stdout = sys.stderr  # keep the protocol channel clean
    out.write("READY\n")
    out.flush()
    for line in iter(sys.stdin.readline, ""):
        try:
            req = json.loads(line)
            res = getattr(mod, req["f"])(req["a"])
            txt = json.dumps({"r": res}, default=str)
        except BaseException as e:  # noqa: BLE001
            txt = json.dumps({"__error__": f"{type(e).__name__}: {e}"[:500]})
        out.write(txt + "\n")
        out.flush()


if __name__ == "__main__":
    main()
