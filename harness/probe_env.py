"""Run in a fresh interpreter with DLTYPE_* variables set by the parent: python -m harness.probe_env <loglevel>.

For enabled in {default, True, False} and the three decorator kinds: does decorator(obj) return obj itself, and
what are the verdicts / reports of a fixed corpus of calls."""

from __future__ import annotations

import json
import logging
import sys
import warnings

warnings.simplefilter("ignore")
logging.basicConfig(level=getattr(logging, sys.argv[1]), stream=sys.stderr)
out: dict = {}
try:
    import dltype
except BaseException as e:  # noqa: BLE001
    print("PROBE " + json.dumps({"import": type(e).__name__}))
    sys.exit(0)
import dataclasses  # noqa: E402
from typing import Annotated, NamedTuple  # noqa: E402

import numpy as np  # noqa: E402

out["import"] = "ok"
A = Annotated[np.ndarray, dltype.FloatTensor["a b"]]
B = Annotated[np.ndarray, dltype.IntTensor["b a+1"]]
CALLS = [
    ((2, 3), "f32", (3, 3), "i32"), ((2, 3), "f32", (3, 4), "i32"), ((2, 3), "i32", (3, 3), "i32"), ((2,), "f32", (3, 3), "i32"),
    ((0, 3), "f32", (3, 1), "i64"), ((2, 3), "f64", (4, 3), "i8"), ((2, 3), "f32", (3, 3), "f32"), ((5, 1), "f16", (1, 6), "u8"),
]


def mk(shape, dt):
    return np.zeros(shape, dtype={"f32": np.float32, "f64": np.float64, "f16": np.float16, "i32": np.int32, "i64": np.int64, "i8": np.int8, "u8": np.uint8}[dt])


def verdict(fn):
    res = []
    for sa, da, sb, db in CALLS:
        try:
            fn(mk(sa, da), mk(sb, db))
            res.append("accept")
        except dltype.DLTypeError as e:
            res.append(type(e).__name__ + ": " + str(e).split("] ")[-1])
        except BaseException as e:  # noqa: BLE001
            res.append("OTHER " + type(e).__name__)
    return res


for label, kw in (("default", {}), ("True", {"enabled": True}), ("False", {"enabled": False})):
    def f(x: A, y: B) -> A:
        return x

    @dataclasses.dataclass
    class D:
        x: A
        y: B

    class N(NamedTuple):
        x: A
        y: B

    g = dltype.dltyped(**kw)(f)
    d_init = D.__init__
    D2 = dltype.dltyped_dataclass(**kw)(D)
    N2 = dltype.dltyped_namedtuple(**kw)(N)
    out[label] = {
        "fn_identity": g is f, "dc_identity": D2 is D and D2.__init__ is d_init, "nt_identity": N2 is N,
        "fn": verdict(g), "dc": verdict(lambda x, y: D2(x, y)), "nt": verdict(lambda x, y: N2(x, y)),
    }
out["DEBUG_MODE"] = bool(dltype.DEBUG_MODE)
print("PROBE " + json.dumps(out))
