"""Run in a fresh interpreter with DLTYPE_* variables set by the parent: python -m harness.probe_env <loglevel>.

For enabled in {default, True, False} and the three decorator kinds: does decorator(obj) return obj itself, and
what are the verdicts / reports of a fixed corpus of calls."""

from __future__ import annotations

import json
import logging
import sys
import warnings

warnings.simplefilter("ignore")
logging.basicConfig(level=getattr(logging, sys.argv[1]), stream=sys.stderr)
out: dict = {}
try:
    import dltype
except BaseException as e:  # noqa: BLE001
    print("PROBE " + json.dumps({"import": type(e).__name__}))
    sys.exit(0)
import dataclasses  # noqa: E402
from typing import Annotated, NamedTuple  # noqa: E402

import numpy as np  # noqa: E402

out["import"] = "ok"
A = Annotated[np.ndarray, dltype.FloatTensor["a b"]]
B = Annotated[np.ndarray, dltype.IntTensor["b a+1"]]
CALLS = [
    ((2, 3), "f32", (3, 3), "i32"), ((2, 3), "f32", (3, 4), "i32"), ((2, 3), "i32", (3, 3), "i32"), ((2,), "f32", (3, 3), "i32"),
    ((0, 3), "f32", (3, 1), "i64"), ((2, 3), "f64", (4, 3), "i8"), ((2, 3), "f32", (3, 3), "f32"), ((5, 1), "f16", (1, 6), "u8"),
]


def mk(shape, dt):
    return np.zeros(shape, dtype={"f32": np.float32, "f64": np.float64, "f16": np.float16, "i32": np.int32, "i64": np.int64, "i8": np.int8, "u8": np.uint8}[dt])


def verdict(fn):
    res = []
    for sa, da, sb, db in CALLS:
        try:
            fn(mk(sa, da), mk(sb, db))
            res.append("accept")
        except dltype.DLTypeError as e:
            res.append(type(e).__name__ + ": " + str(e).split("] ")[-1])
        except BaseException as e:  # noqa: BLE001
            res.append("OTHER " + type(e).__name__)
    return res


for label, kw in (("default", {}), ("True", {"enabled": True}), ("False", {"enabled": False})):
    def f(x: A, y: B) -> A:
        return x

    @dataclasses.dataclass
    class D:
        x: A
        y: B

    class N(NamedTuple):
        x: A
        y: B

    g = dltype.dltyped(**kw)(f)
    d_init = D.__init__
    D2 = dltype.dltyped_dataclass(**kw)(D)
    N2 = dltype.dltyped_namedtuple(**kw)(N)
    # decorations that name a scope provider: "self" on a plain function / on a method, a provider object, a non-provider
    class _Prov:
        calls = 0

        def get_dltype_scope(self):
            type(self).calls += 1
            return {"n": 5}

    Xn = Annotated[np.ndarray, dltype.FloatTensor["a n"]]
    provs = {}
    for pname, parg, as_method in (("self_on_function", "self", False), ("self_on_method", "self", True), ("provider_object", _Prov(), False),
                                   ("not_a_provider", object(), False)):
        def h(x: Xn):
            return None

        def hm(self, x: Xn):
            return None

        target = hm if as_method else h
        try:
            w = dltype.dltyped(parg, **kw)(target)
        except BaseException as e:  # noqa: BLE001
            provs[pname] = {"decoration": type(e).__name__}
            continue
        rec = {"decoration": "identity" if w is target else "wrapped"}
        inst = _Prov()
        _Prov.calls = 0
        for shape in ((2, 5), (2, 6)):
            try:
                (w(inst, mk(shape, "f32")) if as_method else w(mk(shape, "f32")))
                rec[str(shape)] = "accept"
            except dltype.DLTypeError as e:
                rec[str(shape)] = type(e).__name__
            except BaseException as e:  # noqa: BLE001
                rec[str(shape)] = "OTHER " + type(e).__name__
        rec["provider_consulted"] = _Prov.calls
        provs[pname] = rec
    # a function with an optional tensor that is None and a tuple of tensors: rejections of such calls must read the same
    from typing import Optional

    def h3(x: A, m: Optional[A] = None, t: tuple[A, B] = None) -> A:  # type: ignore[assignment]
        return x

    g3 = dltype.dltyped(**kw)(h3)
    opt_calls = []
    for sx, st0, st1, dt in (((2, 3), (2, 3), (3, 3), "f32"), ((2,), (2, 3), (3, 3), "f32"), ((2, 3), (2, 3), (3, 4), "f32"), ((2, 3), (4, 3), (3, 3), "f32"),
                              ((2, 3), (2, 3), (3, 3), "i32")):
        try:
            g3(mk(sx, dt), None, (mk(st0, "f32"), mk(st1, "i32")))
            opt_calls.append("accept")
        except dltype.DLTypeError as e:
            opt_calls.append(type(e).__name__ + ": " + str(e).split("] ")[-1])
        except BaseException as e:  # noqa: BLE001
            opt_calls.append("OTHER " + type(e).__name__)
    # a named expression that establishes its name for a later tensor
    NE1 = Annotated[np.ndarray, dltype.FloatTensor["a b c=a+b"]]
    NE2 = Annotated[np.ndarray, dltype.FloatTensor["c"]]

    def h4(x: NE1, y: NE2) -> NE2:
        return y

    g4 = dltype.dltyped(**kw)(h4)
    ne_calls = []
    for sx, sy in (((2, 3, 5), (5,)), ((2, 3, 5), (4,)), ((2, 3, 6), (6,)), ((1, 1, 2), (2,))):
        try:
            g4(mk(sx, "f32"), mk(sy, "f32"))
            ne_calls.append("accept")
        except dltype.DLTypeError as e:
            ne_calls.append(type(e).__name__ + ": " + str(e).split("] ")[-1])
        except BaseException as e:  # noqa: BLE001
            ne_calls.append("OTHER " + type(e).__name__)
    out[label] = {
        "fn_named_expr": ne_calls,
        "fn_opt": opt_calls,
        "providers": provs,
        "fn_identity": g is f, "dc_identity": D2 is D and D2.__init__ is d_init, "nt_identity": N2 is N,
        "fn": verdict(g), "dc": verdict(lambda x, y: D2(x, y)), "nt": verdict(lambda x, y: N2(x, y)),
    }
out["DEBUG_MODE"] = bool(dltype.DEBUG_MODE)
print("PROBE " + json.dumps(out))
