"""bin/vcheck replay <path>: show what a replay file recorded and run the same check again (same property, seed and tier, hence
the same generated inputs) against the current tree; says how many of the recorded failing inputs fail again.
Exit 1 while any of them (or anything new) fails, 0 when the run is clean."""

from __future__ import annotations

import contextlib
import io
import json
import os
import re
from pathlib import Path


def _key(v: dict) -> str:
    skip = {"impl", "model", "got", "result", "observed", "reference"}   # outcomes may differ in detail; inputs identify a record
    return json.dumps({k: x for k, x in v.items() if k not in skip}, sort_keys=True, default=str)


def replay(path: str) -> int:
    from harness import main as M

    rec = json.loads(Path(path).read_text())
    prop, seed, tier = rec["property"], rec.get("seed", 0), rec.get("tier", "quick")
    old = rec.get("violations", []) + rec.get("correspondence_disagreements", [])
    print(f"REPLAY property={prop} seed={seed} tier={tier} kind={rec.get('kind')} recorded={len(old)}")
    for v in old[:5]:
        print("  recorded:", json.dumps(v, default=str)[:400])
    if rec.get("kind") == "no-failing-input-found":
        print("  (no failing input was found then: " + str(rec.get("no_longer_checks")) + ")")
    os.environ["VERIF_SEED"] = str(seed)
    buf = io.StringIO()
    with contextlib.redirect_stdout(buf):
        rc = M.run_one(prop, tier, int(seed))
    out = buf.getvalue()
    new_path = None
    for line in out.splitlines():
        m = re.match(r"VIOLATION property=\S+ replay=(\S+)", line)
        if m:
            new_path = m.group(1)
        if line.startswith("KNOWN-FINDING"):
            print(line)
    if rc == 0 or new_path is None:
        print(f"REPLAY-RESULT property={prop}: the run is clean now, none of the {len(old)} recorded inputs fails")
        return 0
    new = json.loads(Path(new_path).read_text())
    now = new.get("violations", []) + new.get("correspondence_disagreements", [])
    keys = {_key(v) for v in now}
    again = [v for v in old if _key(v) in keys]
    print(f"REPLAY-RESULT property={prop}: {len(again)} of the {len(old)} recorded inputs fail again; the run reports {len(now)} failing input(s)")
    print(f"VIOLATION property={prop} replay={new_path}" + (" no-failing-input-found" if new.get("kind") == "no-failing-input-found" else ""))
    return 1
