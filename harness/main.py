"""vcheck entry point."""

from __future__ import annotations

import argparse
import importlib
import json
import os
import sys
import time

from harness import common


GEN_PROPS = ("C04", "C15", "C20")


def regen_tables(force: bool) -> dict | None:
    """coq/gen/*.v mirror what the running code exports; regenerated for the properties that use them."""
    missing = not (common.COQ / "gen" / "GenDtypes.v").exists() or not (common.COQ / "gen" / "GenConfig.v").exists()
    if force or missing:
        from harness import tables

        return tables.regenerate()
    return None


SRC_PROPS = ("C05", "C06", "C18")


def regen_source(force: bool) -> dict | None:
    """coq/gen/GenSrc.v: operator tables and formulas translated from the Python source (harness/srctie.py)."""
    if force or not (common.COQ / "gen" / "GenSrc.v").exists():
        from harness import srctie

        return srctie.regenerate()
    return None


def run_one(pid: str, tier: str, seed: int) -> int:
    rep = common.Report(pid, tier, seed)
    gen = regen_tables(pid in GEN_PROPS)
    src = regen_source(pid in SRC_PROPS)
    if src is not None:
        rep.notes.append("source tie (harness/srctie.py -> coq/gen/GenSrc.v): " + ("translated from this tree's source" if src.get("translated") else
                         "NOT available for this run, the source no longer has the translated shape (" + str(src.get("why")) + "); behavioural correspondence only"))
    build = common.ensure_built()
    if not build.get("ok"):
        # without the model nothing can be decided: that is a broken check, say so loudly
        print(f"BUILD FAILED: {build.get('error')}", file=sys.stderr)
        rep.disagreement({"build_error": build.get("error", "unknown")})
        return rep.finish(common.proof_status(pid, build))
    mod = importlib.import_module(f"harness.props.{pid.lower()}")
    stalled: list[str] = []
    for attempt in range(3):
        model = common.Model()
        try:
            if gen is not None:
                rep.gen = gen
            extra = mod.run(tier, seed + 7919 * attempt, rep, model) or {}
            break
        except common.ModelStalled as e:
            # safety net behind the generators' resource bound (DESIGN 10): nothing was decided about that input by either side;
            # start over with other generated inputs and say so in the evidence
            stalled.append(str(e))
            notes = rep.notes
            rep = common.Report(pid, tier, seed)
            rep.notes = notes + [f"inputs generated for seed {seed + 7919 * attempt} were abandoned: {e}"]
            if attempt == 2:
                raise
        finally:
            model.close()
    return rep.finish(common.proof_status(pid, build), extra)


def main() -> int:
    ap = argparse.ArgumentParser()
    ap.add_argument("what")
    ap.add_argument("path", nargs="?")
    ap.add_argument("--tier", default=os.environ.get("VERIF_TIER", "quick"), choices=["quick", "thorough"])
    a = ap.parse_args()
    seed = common.seed_from_env()
    if a.what == "setup":
        regen_tables(True)
        regen_source(True)
        st = common.ensure_built(verbose=True)
        print(json.dumps({k: v for k, v in st.items() if k != "props"}, indent=1))
        for pid, info in st.get("props", {}).items():
            print(pid, "compiled" if info["compiled"] else "NOT COMPILED")
        return 0 if st.get("ok") else 1
    if a.what == "replay":
        from harness import replay

        return replay.replay(a.path)
    if a.what == "all":
        rc = 0
        for pid in [f"C{n:02d}" for n in range(1, 21)]:
            t0 = time.time()
            r = run_one(pid, a.tier, seed)
            print(f"== {pid}: rc={r} {time.time()-t0:.1f}s", flush=True)
            rc |= r
        return rc
    return run_one(a.what.upper(), a.tier, seed)


if __name__ == "__main__":
    sys.exit(main())
