"""Runs function-form cases on the implementation (in a worker) and on the extracted model, and normalises
both outcomes for comparison."""

from __future__ import annotations

from harness import impl as I
from harness.common import ImplWorker, Model


def impl_fn(case: dict) -> dict:
    """Worker side."""
    return I.run_fn_case(case)


def impl_form(case: dict) -> dict:
    from harness import forms

    return forms.run_form_case(case)


def norm_impl(res: dict) -> dict:
    if "__timeout__" in res or "__error__" in res or "__skipped__" in res:
        return {"v": "harness", "detail": res}
    if res["v"] == "decerr":
        return {"v": "decerr", "exn": res["exn"]}
    out = {k: res[k] for k in ("v", "kind", "name", "idx", "expected", "actual", "missing", "valid", "exn") if k in res}
    if res.get("identity"):
        return {"v": "identity"}
    out["called"] = bool(res.get("called"))
    return out


def norm_model(line: str) -> dict:
    mo = I.parse_model_outcome(line)
    return mo


def run_cases(cases: list[dict], model: Model, worker: ImplWorker, timeout: float = 15.0):
    answers = model.ask_many([I.fn_case_sx(c) for c in cases])
    results = worker.call_many("impl_fn", cases, timeout=timeout)
    out = []
    for c, a, r in zip(cases, answers, results):
        try:
            mo = norm_model(a)
        except Exception as e:  # noqa: BLE001
            mo = {"v": "driver", "detail": a, "err": str(e)}
        out.append((c, norm_impl(r), mo, r))
    return out


def same_verdict(a: dict, b: dict) -> bool:
    return a.get("v") == b.get("v")


def same_report(a: dict, b: dict) -> bool:
    keys = ("v", "kind", "name", "idx", "expected", "actual", "missing", "valid", "exn", "called")
    return all(a.get(k) == b.get(k) for k in keys)


def brief(case: dict) -> dict:
    """A readable rendering of a case for evidence samples and replays."""
    def hs(h):
        if h is None:
            return None
        k = h["k"]
        if k == "ann":
            return f"{h['cls']}[{h['shape']!r}]@{h['lib']}"
        if k == "opt":
            return hs(h["of"]) + "|None"
        if k == "tuple":
            return "tuple[" + ", ".join(hs(x) for x in h["elts"]) + "]"
        return k

    def vs(v):
        if v is None or v == "raise":
            return v
        k = v["k"]
        if k == "arr":
            return f"{v['lib']}:{v['dt']}{tuple(v['shape'])}" + (f"~{v['how']}" if v.get('how') else '')
        if k == "tup":
            return "(" + ", ".join(vs(x) for x in v["elts"]) + ")"
        return k

    return {
        "params": {p["name"]: hs(p.get("hint")) for p in case["params"]},
        "ret": hs(case.get("ret")),
        "provider": case.get("provider"),
        "args": {k: vs(v) for k, v in case["args"].items()},
        "retval": vs(case.get("retval")),
    }
