"""Runs function-form cases on the implementation (in a worker) and on the extracted model, and normalises
both outcomes for comparison."""

from __future__ import annotations

from harness import impl as I
from harness.common import ImplWorker, Model


def impl_fn(case: dict) -> dict:
    """Worker side."""
    return I.run_fn_case(case)


def impl_form(case: dict) -> dict:
    from harness import forms

    return forms.run_form_case(case)


def norm_impl(res: dict) -> dict:
    if "__timeout__" in res or "__error__" in res or "__skipped__" in res:
        return {"v": "harness", "detail": res}
    if res["v"] == "decerr":
        return {"v": "decerr", "exn": res["exn"]}
    out = {k: res[k] for k in ("v", "kind", "name", "idx", "expected", "actual", "missing", "valid", "exn") if k in res}
    if res.get("identity"):
        return {"v": "identity"}
    out["called"] = bool(res.get("called"))
    return out


def norm_model(line: str) -> dict:
    mo = I.parse_model_outcome(line)
    return mo


def beyond_resource_bound(case: dict) -> bool:
    """An expression of the case meets a power beyond the reference's resource bound under these values (DESIGN 10): such a
    case is run nowhere - the extracted model's binary arithmetic would take hours on numbers of millions of bits."""
    from harness import gen_ctx as GC

    try:
        return GC.reference(case).get("v") == "unknown"
    except Exception:  # noqa: BLE001
        return False


SKIPPED = {"__skipped__": True, "why": "beyond the resource bound"}


def run_cases(cases: list[dict], model: Model, worker: ImplWorker, timeout: float = 15.0):
    big = [beyond_resource_bound(c) for c in cases]
    run = [c for c, b in zip(cases, big) if not b]
    answers_run = model.ask_many([I.fn_case_sx(c) for c in run])
    results_run = worker.call_many("impl_fn", run, timeout=timeout)
    it_a, it_r = iter(answers_run), iter(results_run)
    answers, results = [], []
    for b in big:
        if b:
            answers.append("SKIPPED")
            results.append(dict(SKIPPED))
        else:
            answers.append(next(it_a))
            results.append(next(it_r))
    out = []
    for c, a, r in zip(cases, answers, results):
        try:
            mo = norm_model(a)
        except Exception as e:  # noqa: BLE001
            mo = {"v": "driver", "detail": a, "err": str(e)}
        out.append((c, norm_impl(r), mo, r))
    return out


def same_verdict(a: dict, b: dict) -> bool:
    return a.get("v") == b.get("v")


def same_report(a: dict, b: dict) -> bool:
    keys = ("v", "kind", "name", "idx", "expected", "actual", "missing", "valid", "exn", "called")
    return all(a.get(k) == b.get(k) for k in keys)


def brief(case: dict) -> dict:
    """A readable rendering of a case for evidence samples and replays."""
    def hs(h):
        if h is None:
            return None
        k = h["k"]
        if k == "ann":
            return f"{h['cls']}[{h['shape']!r}]@{h['lib']}"
        if k == "opt":
            return hs(h["of"]) + "|None"
        if k == "tuple":
            return "tuple[" + ", ".join(hs(x) for x in h["elts"]) + "]"
        return k

    def vs(v):
        if v is None or v == "raise":
            return v
        k = v["k"]
        if k == "arr":
            return f"{v['lib']}:{v['dt']}{tuple(v['shape'])}" + (f"~{v['how']}" if v.get('how') else '')
        if k == "tup":
            return "(" + ", ".join(vs(x) for x in v["elts"]) + ")"
        return k

    return {
        "params": {p["name"]: hs(p.get("hint")) for p in case["params"]},
        "ret": hs(case.get("ret")),
        "provider": case.get("provider"),
        "args": {k: vs(v) for k, v in case["args"].items()},
        "retval": vs(case.get("retval")),
    }
