(* C20 - import works for every installed-backend combination and the exports match it.
   [observed] is regenerated on every run from fresh interpreters with a masking import hook, one per mask
   of {numpy, torch, jax}; [supported_types] / [restrict] are the hand model of the if/elif chains of
   _dtypes.py, __init__.py and the class families.  Eight cases, decided by computation. *)
From DL Require Import Base Dtypes Config GenDtypes GenConfig.

Fixpoint cls_lookup (c:cls) (l:list (cls * option (list dtok))) : option (option (list dtok)) :=
  match l with [] => None | (c', v) :: r => if (if in_dec (fun a b : cls => ltac:(decide equality)) c [c'] then true else false) then Some v else cls_lookup c r end.
Definition same_libs (a b:list lib) : bool :=
  forallb (fun x => existsb (lib_eqb x) b) a && forallb (fun x => existsb (lib_eqb x) a) b.
Definition dtok_eqb (a b:dtok) : bool :=
  match a, b with NP x, NP y | TO x, TO y => adtype_eqb x y | _, _ => false end.
(* DTYPES as a set: order and repetition inside the tuple mean nothing to `dtype in DTYPES` *)
Definition dtoks_eqb (a b:list dtok) : bool :=
  forallb (fun x => existsb (dtok_eqb x) b) a && forallb (fun x => existsb (dtok_eqb x) a) b.
(* what a configuration must export for class c *)
Definition expected_class (n t:bool) (c:cls) : option (list dtok) :=
  match c with
  | CBFloat16 => if t then Some (restrict n t (impl_dtypes c)) else None     (* BFloat16Tensor is None without torch *)
  | _ => Some (restrict n t (impl_dtypes c))
  end.
Definition class_ok (n t:bool) (o:observation) (c:cls) : bool :=
  match cls_lookup c (o_classes o), expected_class n t c with
  | Some (Some a), Some b => dtoks_eqb a b
  | Some None, None => true
  | _, _ => false
  end.
Definition config_ok (n t j:bool) : bool :=
  let o := observed n t j in
  (match o_has o with (a, b, c) => Bool.eqb a n && Bool.eqb b t && Bool.eqb c j end) &&
  Bool.eqb (o_import_ok o) (n || t) &&
  (o_import_ok o || o_import_error o) &&
  (if n || t then
     match supported_types n t j with
     | Some libs => same_libs (o_supported o) libs
     | None => false
     end && forallb (class_ok n t o) all_cls
   else true).

Theorem C20_config : forall n t j, realisable n t j = true -> config_ok n t j = true.
Proof. intros n t j. destruct n, t, j; vm_compute; intros; try reflexivity; discriminate. Qed.

(* the import succeeds exactly when numpy or torch is importable; otherwise it is an ImportError *)
Corollary C20_import : forall n t j, realisable n t j = true ->
  o_import_ok (observed n t j) = (n || t) /\ (n || t = false -> o_import_error (observed n t j) = true).
Proof. intros n t j. destruct n, t, j; vm_compute; intros; try discriminate; split; auto; discriminate. Qed.

(* the hand model agrees with itself: a family is selected exactly when supported types exist *)
Lemma family_iff_supported : forall n t j, realisable n t j = true ->
  (select_family n t = None <-> supported_types n t j = None).
Proof. intros n t j. destruct n, t, j; vm_compute; intros; try discriminate; split; intros; try discriminate; auto. Qed.

(* non-vacuity: the hypothesis holds for six of the eight masks and the observations differ between them *)
Example ex20_realisable : realisable true false true = true /\ realisable false true false = true /\ realisable false true true = false.
Proof. repeat split. Qed.
Example ex20_observations_differ :
  o_import_ok (observed false false false) = false /\ o_import_error (observed false false false) = true /\
  same_libs (o_supported (observed true true false)) [LNumpy; LTorch] = true /\
  cls_lookup CBFloat16 (o_classes (observed true false false)) = Some None /\
  match cls_lookup CBFloat16 (o_classes (observed false true false)) with Some (Some l) => dtoks_eqb l [TO KBF16] | _ => false end = true.
Proof. vm_compute. repeat split. Qed.
(* [config_ok] is not trivially true: it refuses the torch-only observation for a numpy-only installation *)
Example ex20_config_ok_discriminates :
  forallb (class_ok true false (observed false true false)) all_cls = false.
Proof. vm_compute. reflexivity. Qed.
Redirect "C20.assumptions.1" Print Assumptions C20_config.
