(* C14 - functions, dataclasses, NamedTuples and pydantic models give the same verdict.
   For an ordered field list and values that are arrays or None-for-optional:
   - the dataclass / NamedTuple constructor and the function wrapper queue exactly the same tensors
     ([add_fields] = [add_args]; the only difference is that the wrapper refuses parameters called self / cls);
     both then run one [assert_context] on a fresh context;
   - pydantic validates field by field on a context that lives in the validation data; each field validation is
     one [assert_one] (the standalone check in front of it is the first thing assert_one does anyway), so the
     whole validation equals one [assert_context] over the same queue, in field-declaration order whatever
     the keyword order (values are looked up by field name).
   Hence verdict and report coincide (they are the same [dres]). *)
From DL Require Import Base Lexer Parser Eval Shape Dtypes Check Context Hints Call Entry Structural.

Theorem C14_class_forms_queue_like_functions : forall ps vals q,
  Forall (fun p => ((fst p =? "self") || (fst p =? "cls"))%string = false) ps ->
  Forall (fun p => snd (snd p) <> []) ps ->
  add_fields ps vals q = add_args ps vals q.
Proof. exact add_fields_is_add_args. Qed.
Theorem C14_pydantic_is_one_context : forall fields vals c q, field_queue fields vals = Some q ->
  run_pydantic_from c fields vals = assert_context c q.
Proof. exact run_pydantic_is_one_context. Qed.
Theorem C14_field_validation_is_assert_one : forall c n a x,
  validate_field c n a x = assert_one c {| c_idx := 0; c_name := n; c_tensor := x; c_annot := a |}.
Proof. exact validate_field_is_assert_one. Qed.
Redirect "C14.assumptions.1" Print Assumptions C14_pydantic_is_one_context.
Redirect "C14.assumptions.2" Print Assumptions C14_class_forms_queue_like_functions.
