(* C14 - functions, dataclasses, NamedTuples and pydantic models give the same verdict.
   For an ordered field list and values that are arrays or None-for-optional:
   - the dataclass / NamedTuple constructor and the function wrapper queue exactly the same tensors
     ([add_fields] = [add_args]; the only difference is that the wrapper refuses parameters called self / cls);
     both then run one [assert_context] on a fresh context;
   - pydantic validates field by field on a context that lives in the validation data; each field validation is
     one [assert_one] (the standalone check in front of it is the first thing assert_one does anyway), so the
     whole validation equals one [assert_context] over the same queue, in field-declaration order whatever
     the keyword order (values are looked up by field name).
   Hence verdict and report coincide (they are the same [dres]). *)
From Coq Require Import Permutation.
From DL Require Import Base Lexer Parser Eval Shape Dtypes Check Context Hints Call Entry Structural KwOrder.

Theorem C14_class_forms_queue_like_functions : forall ps vals q,
  Forall (fun p => ((fst p =? "self") || (fst p =? "cls"))%string = false) ps ->
  Forall (fun p => snd (snd p) <> []) ps ->
  add_fields ps vals q = add_args ps vals q.
Proof. exact add_fields_is_add_args. Qed.
Theorem C14_pydantic_is_one_context : forall fields vals c q, field_queue fields vals = Some q ->
  run_pydantic_from c fields vals = assert_context c q.
Proof. exact run_pydantic_is_one_context. Qed.
Theorem C14_field_validation_is_assert_one : forall c n a x,
  validate_field c n a x = assert_one c {| c_idx := 0; c_name := n; c_tensor := x; c_annot := a |}.
Proof. exact validate_field_is_assert_one. Qed.
(* every form walks its parameters / fields in declaration order and finds the values by name: the order in which the
   caller writes the keywords (any permutation of the bound arguments, names distinct) changes nothing - neither verdict nor
   report nor whether the body runs *)
Theorem C14_keyword_order_irrelevant_function : forall w ps a b body, Permutation a b -> NoDup (map fst a) ->
  run_call w ps a body = run_call w ps b body.
Proof. exact run_call_kw_order. Qed.
Theorem C14_keyword_order_irrelevant_class_forms : forall ps a b, Permutation a b -> NoDup (map fst a) ->
  run_construct ps a = run_construct ps b.
Proof. exact run_construct_kw_order. Qed.
Theorem C14_keyword_order_irrelevant_pydantic : forall fields a b, Permutation a b -> NoDup (map fst a) ->
  run_pydantic fields a = run_pydantic fields b.
Proof. exact run_pydantic_kw_order. Qed.
(* non-vacuity: concrete wrappers, arguments and values that meet the hypotheses above *)
Definition ty0 : ttype := {| t_shape := []; t_mindex := None; t_mname := None; t_anon := false; t_lits := [] |}.
Definition annA (s:string) (o:bool) : annot :=
  {| a_ty := match parse_shape s with Ok ty => ty | Err _ => ty0 end; a_dtypes := []; a_opt := o |}.
Definition tenE (l:list Z) : tensor := {| x_lib := LNumpy; x_dt := KF32; x_shape := l |}.
Definition arrE (l:list Z) : value := VArr (tenE l).
Definition ps14 : rhints := [("x", (false, [Some (annA "a b" false)])); ("y", (false, [Some (annA "b" true)]))].
Definition vals14 : list (string*value) := [("y", arrE [5]%Z); ("x", arrE [2;3]%Z)].
Example ex14_three_forms_one_report :
  run_construct ps14 vals14 = DRej (EShape "y" 0 3 5) /\
  arg_phase {| w_params := ps14; w_ret := None; w_provider := PNone |} (PSOk []) vals14 = DRej (EShape "y" 0 3 5) /\
  run_pydantic [("x", annA "a b" false); ("y", annA "b" true)] vals14 = DRej (EShape "y" 0 3 5).
Proof. vm_compute. repeat split. Qed.
Example ex14_hypotheses_met :
  Forall (fun p => ((fst p =? "self") || (fst p =? "cls"))%string = false) ps14 /\ Forall (fun p => snd (snd p) <> []) ps14 /\
  field_queue [("x", annA "a b" false); ("y", annA "b" true)] [("y", VNone); ("x", arrE [2;3]%Z)]
   = Some [{| c_idx := 0; c_name := "x"; c_tensor := tenE [2;3]%Z; c_annot := annA "a b" false |}].
Proof. repeat split; repeat constructor; discriminate. Qed.
Example ex14_keyword_order : Permutation vals14 (rev vals14) /\ NoDup (map fst vals14) /\
  run_construct ps14 (rev vals14) = DRej (EShape "y" 0 3 5).
Proof. split; [apply Permutation_rev|]. split; [repeat constructor; simpl; intuition discriminate|]. vm_compute. reflexivity. Qed.
Redirect "C14.assumptions.1" Print Assumptions C14_pydantic_is_one_context.
Redirect "C14.assumptions.2" Print Assumptions C14_class_forms_queue_like_functions.
Redirect "C14.assumptions.3" Print Assumptions C14_keyword_order_irrelevant_function.
Redirect "C14.assumptions.4" Print Assumptions C14_keyword_order_irrelevant_pydantic.
