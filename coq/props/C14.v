(* C14 - placeholder (DESIGN.md 7 C14). *)
From DL Require Import Base Context.
Example C14_placeholder : True. Proof. exact I. Qed.
