(* C15 - verdicts depend on arrays only through rank, sizes and dtype category.  Finite part: on the dtypes
   the three libraries share, every class table gives the same answer whatever the library (re-proved on
   every run against the regenerated tables).  The structural part (check / context read only the shape and
   the dtype verdict) is proofs/Relabel.v when present. *)
From DL Require Import Base Dtypes DtypeSpec GenDtypes.
Theorem C15_shared_dtypes_library_independent : forall c d l1 l2, shared d = true ->
  dtype_accepted (impl_dtypes c) l1 d = dtype_accepted (impl_dtypes c) l2 d.
Proof. intros c d l1 l2. destruct c, d, l1, l2; vm_compute; intros; try reflexivity; discriminate. Qed.
Redirect "C15.assumptions.1" Print Assumptions C15_shared_dtypes_library_independent.
