(* C15 - verdicts depend on arrays only through rank, sizes and dtype category.  Finite part: on the dtypes
   the three libraries share, every class table gives the same answer whatever the library (re-proved on
   every run against the regenerated tables).  Structural part (proofs/Relabel.v): a checked call reads its arrays only
   through their shapes and through the answers of the annotations' dtype tables, so replacing every array by one of
   the same shape and the same shared dtype from any library changes neither whether the body runs, nor the verdict,
   nor the report; the value handed back is the body's own.  The same holds at the level of the queue every entry
   point (function, dataclass, NamedTuple, pydantic: props/C14.v) hands to assert_context. *)
From DL Require Import Base Lexer Parser Eval Shape Dtypes DtypeSpec GenDtypes Check Context Hints Call Relabel.
Theorem C15_shared_dtypes_library_independent : forall c d l1 l2, shared d = true ->
  dtype_accepted (impl_dtypes c) l1 d = dtype_accepted (impl_dtypes c) l2 d.
Proof. intros c d l1 l2. destruct c, d, l1, l2; vm_compute; intros; try reflexivity; discriminate. Qed.
Redirect "C15.assumptions.1" Print Assumptions C15_shared_dtypes_library_independent.

(* the dtype tables the annotations of a signature may carry: those of the exported classes *)
Definition class_table (dl:list dtok) : Prop := exists c, dl = impl_dtypes c.
(* same shape, same shared dtype, any two libraries *)
Definition same_kind (x y:tensor) : Prop := x_shape x = x_shape y /\ x_dt x = x_dt y /\ shared (x_dt x) = true.
Lemma same_kind_trel x y : same_kind x y -> trel class_table x y.
Proof.
  intros (Hs & Hd & Hsh). split; [exact Hs|]. intros dl [c ->]. rewrite <- Hd.
  apply C15_shared_dtypes_library_independent. exact Hsh.
Qed.
Theorem C15_relabelling_changes_nothing : forall w ps args args' body body',
  wrapped_ok class_table w -> Forall2 (argrel class_table) args args' -> brel class_table body body' ->
  fst (run_call w ps args body) = fst (run_call w ps args' body') /\
  orel class_table (snd (run_call w ps args body)) (snd (run_call w ps args' body')).
Proof. exact (run_call_relabel class_table). Qed.
Theorem C15_queue_level : forall q q' c, Forall2 (crel class_table) q q' -> assert_context c q = assert_context c q'.
Proof. exact (assert_context_eq class_table). Qed.
(* the hypotheses are met: a numpy and a torch float32 array of one shape are related, in an argument and in a tuple *)
Example ex15_related :
  let x := {| x_lib := LNumpy; x_dt := KF32; x_shape := [2;0;3]%Z |} in
  let y := {| x_lib := LTorch; x_dt := KF32; x_shape := [2;0;3]%Z |} in
  same_kind x y /\ argrel class_table ("a"%string, VArr x) ("a"%string, VArr y) /\
  argrel class_table ("t"%string, VTuple [VArr x; VNone]) ("t"%string, VTuple [VArr y; VNone]) /\
  class_table (impl_dtypes CFloat).
Proof.
  cbv zeta. assert (H: same_kind {| x_lib := LNumpy; x_dt := KF32; x_shape := [2;0;3]%Z |} {| x_lib := LTorch; x_dt := KF32; x_shape := [2;0;3]%Z |})
    by (repeat split; reflexivity).
  split; [exact H|]. split; [split; [reflexivity|exact (same_kind_trel _ _ H)]|].
  split; [split; [reflexivity|]; simpl; constructor; [exact (same_kind_trel _ _ H)|constructor; [exact I|constructor]]|].
  exists CFloat. reflexivity.
Qed.
Redirect "C15.assumptions.2" Print Assumptions C15_relabelling_changes_nothing.
Redirect "C15.assumptions.3" Print Assumptions C15_queue_level.
