(* C04 - each tensor class accepts exactly its documented dtypes, on every backend.
   [impl_dtypes] is regenerated from the running code (reflection of cls.DTYPES) on every run; [dtype_accepted]
   is the model of `tensor.dtype in DTYPES`; [documented] is the hand-written specification.  The domain is
   finite (20 classes x 3 libraries x 19 dtype kinds, every constructor listed: all_cls_complete,
   all_libs_complete, all_adtypes_complete), so the theorems are decided by computation over all of it. *)
From DL Require Import Base Dtypes DtypeSpec GenDtypes.

Theorem C04_tables : forall c l d, dtype_accepted (impl_dtypes c) l d = documented c l d.
Proof. intros c l d. destruct c, l, d; vm_compute; reflexivity. Qed.

Theorem C04_supersets : forall sub sup l d, In (sub, sup) documented_subclasses ->
  dtype_accepted (impl_dtypes sub) l d = true -> dtype_accepted (impl_dtypes sup) l d = true.
Proof.
  intros sub sup l d H. rewrite !C04_tables. revert H. unfold documented_subclasses. simpl.
  intros H; repeat (destruct H as [H|H]; [injection H as <- <-; destruct l, d; vm_compute; intros; try reflexivity; discriminate|]); contradiction.
Qed.

Theorem C04_int_is_signed_or_unsigned : forall l d,
  dtype_accepted (impl_dtypes CInt) l d =
  dtype_accepted (impl_dtypes CSignedInt) l d || dtype_accepted (impl_dtypes CUnsignedInt) l d.
Proof. intros l d. destruct l, d; vm_compute; reflexivity. Qed.

(* the table is the same for numpy, torch and jax arrays on the dtypes the three libraries share *)
Theorem C04_same_on_shared : forall c d l1 l2, shared d = true ->
  dtype_accepted (impl_dtypes c) l1 d = dtype_accepted (impl_dtypes c) l2 d.
Proof. intros c d l1 l2. destruct c, d, l1, l2; vm_compute; intros; try reflexivity; discriminate. Qed.

Example full_configuration_imported : full_import_ok = true. Proof. reflexivity. Qed.
Example bfloat16_torch_only : dtype_accepted (impl_dtypes CFloat16) LTorch KBF16 = true /\
                              dtype_accepted (impl_dtypes CFloat16) LJax KBF16 = false. Proof. split; reflexivity. Qed.

Redirect "C04.assumptions.1" Print Assumptions C04_tables.
Redirect "C04.assumptions.2" Print Assumptions C04_supersets.
Redirect "C04.assumptions.3" Print Assumptions C04_same_on_shared.
