(* C19 (partial) - decorated torch modules capture to the same results.
   The model cannot exhibit torch's tracer, TorchScript or dynamo.  What it carries: on conforming inputs the
   wrapper returns exactly what the body returns (so decorated and undecorated functions are extensionally
   equal there), and inside a Section whose variable [capture] stands for a capture mechanism with the stated
   hypothesis, the captured functions are equal too.  The hypothesis is about torch (trusted base); the tie is
   the module family run by harness/props/c19.py. *)
From DL Require Import Base Lexer Parser Eval Shape Dtypes Check Context Hints Call.

(* the wrapper as a function from (bound arguments, what the body does on them) to what the caller sees *)
Definition wrapped_outcome (w:wrapped) (ps:pstatus) (body:list (string*value) -> bres) (args:list (string*value)) : call_outcome :=
  snd (run_call w ps args (body args)).
Definition plain_outcome (body:list (string*value) -> bres) (args:list (string*value)) : call_outcome :=
  match body args with BReturn v => CReturned v | BRaise => CBodyRaised end.
Definition conforming (w:wrapped) (ps:pstatus) (body:list (string*value) -> bres) (args:list (string*value)) : Prop :=
  match snd (run_call w ps args (body args)) with CRejected _ | CCrashed _ => False | _ => True end.

Theorem C19_wrapper_transparent : forall w ps body args, conforming w ps body args ->
  wrapped_outcome w ps body args = plain_outcome body args.
Proof.
  intros w ps body args. unfold conforming, wrapped_outcome, plain_outcome, run_call.
  destruct (initial_table (w_provider w) ps) as [sc|e|x]; simpl; try tauto.
  destruct (dbind (add_args (w_params w) args []) (fun q => assert_context (ctx0 sc) q)) as [c|e|x]; simpl; try tauto.
  destruct (body args) as [v|]; simpl; auto.
  destruct (w_ret w) as [[it anns]|]; simpl; auto.
  destruct (resolve_types anns) as [ra|]; simpl; auto.
  destruct (resolve_value it v) as [vs|x]; simpl; try tauto.
  match goal with |- context [dbind ?a ?b] => destruct (dbind a b) as [c'|e|x] end; simpl; tauto.
Qed.

Section Capture.
  (* a capture mechanism: given an eager function it yields a function; on the inputs it is later run on it
     only depends on the eager function's behaviour on those inputs *)
  Variable capture : (list (string*value) -> call_outcome) -> (list (string*value) -> call_outcome).
  Hypothesis capture_extensional : forall f g (dom:list (string*value) -> Prop),
    (forall x, dom x -> f x = g x) -> forall x, dom x -> capture f x = capture g x.
  Theorem C19_capture_equal : forall w ps body x, conforming w ps body x ->
    capture (wrapped_outcome w ps body) x = capture (plain_outcome body) x.
  Proof.
    intros w ps body x Hx. apply (capture_extensional _ _ (conforming w ps body)); auto.
    intros y Hy. apply C19_wrapper_transparent; auto.
  Qed.
End Capture.
(* non-vacuity: concrete wrappers, arguments and values that meet the hypotheses above *)
Definition ty0 : ttype := {| t_shape := []; t_mindex := None; t_mname := None; t_anon := false; t_lits := [] |}.
Definition annA (s:string) (o:bool) : annot :=
  {| a_ty := match parse_shape s with Ok ty => ty | Err _ => ty0 end; a_dtypes := []; a_opt := o |}.
Definition tenE (l:list Z) : tensor := {| x_lib := LNumpy; x_dt := KF32; x_shape := l |}.
Definition arrE (l:list Z) : value := VArr (tenE l).
Definition w19 : wrapped := {| w_params := [("x", (false, [Some (annA "b c" false)]))]; w_ret := Some (false, [Some (annA "b" false)]); w_provider := PNone |}.
(* a module body: returns the row sums of its argument (shape [b]) *)
Definition body19 (args:list (string*value)) : bres :=
  match arg_lookup "x" args with Some (VArr t) => BReturn (arrE (firstn 1 (x_shape t))) | _ => BRaise end.
Example ex19_conforming_input : conforming w19 (PSOk []) body19 [("x", arrE [2;3]%Z)] /\
  wrapped_outcome w19 (PSOk []) body19 [("x", arrE [2;3]%Z)] = CReturned (arrE [2]%Z).
Proof. vm_compute. split; [exact I | reflexivity]. Qed.
Example ex19_not_everything_conforms : ~ conforming w19 (PSOk []) body19 [("x", arrE [2]%Z)].
Proof. vm_compute. exact (fun f => f). Qed.
Redirect "C19.assumptions.1" Print Assumptions C19_wrapper_transparent.
Redirect "C19.assumptions.2" Print Assumptions C19_capture_equal.
