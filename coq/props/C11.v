(* C11 - tuple hints are checked element by element in the shared context.
   A tuple[...] hint flattens into one annotation per element and marks the value as a tuple (for every length,
   one included).  DLTypeContext.add pairs annotations and values position by position (zip strict: different
   lengths are an error, never a silent truncation); positions without annotation are skipped but counted;
   element i is named `name` for i = 0 and `name[i]` otherwise; all elements join the one queue of the context,
   so bindings are shared with every other tensor (C01 / C02 speak about that queue). *)
From DL Require Import Base Lexer Parser Eval Shape Dtypes Check Context Hints Call Structural.

Theorem C11_tuple_marks_value_as_tuple : forall hs r, from_hint (HTuple hs) false = Ok r -> fst r = true.
Proof. exact tuple_hint_flattens. Qed.
Theorem C11_one_element_tuple : forall b a, from_hint (HTuple [HAnn BSupported a]) b = Ok (true, [Some (set_opt a false)]).
Proof. reflexivity. Qed.
Theorem C11_elementwise : forall name anns idx vals q q', add_loop name idx anns vals q = DOk q' ->
  q' = q ++ expected_queue name idx anns vals /\ length anns = length vals.
Proof. exact add_loop_queue. Qed.
Theorem C11_plain_positions_ignored : forall name idx anns v vals q,
  add_loop name idx (None :: anns) (v :: vals) q = add_loop name (S idx) anns vals q.
Proof. exact add_plain_position. Qed.
Theorem C11_element_names : forall i n x a,
  tensor_arg_name {| c_idx := i; c_name := n; c_tensor := x; c_annot := a |} = if 0 <? i then indexed_name n i else n.
Proof. reflexivity. Qed.
Example third_element_is_named_x2 : indexed_name "x" 2 = "x[2]". Proof. reflexivity. Qed.
Redirect "C11.assumptions.1" Print Assumptions C11_elementwise.
