(* C11 - tuple hints are checked element by element in the shared context.
   A tuple[...] hint flattens into one annotation per element and marks the value as a tuple (for every length,
   one included).  DLTypeContext.add pairs annotations and values position by position (zip strict: different
   lengths are an error, never a silent truncation); positions without annotation are skipped but counted;
   element i is named `name` for i = 0 and `name[i]` otherwise; all elements join the one queue of the context,
   so bindings are shared with every other tensor (C01 / C02 speak about that queue). *)
From Coq Require Import Sorted.
From DL Require Import Base Lexer Parser Eval Shape Dtypes Check Context Hints Call Structural TupleLen.

Theorem C11_tuple_marks_value_as_tuple : forall hs r, from_hint (HTuple hs) false = Ok r -> fst r = true.
Proof. exact tuple_hint_flattens. Qed.
Theorem C11_one_element_tuple : forall b a, from_hint (HTuple [HAnn BSupported a]) b = Ok (true, [Some (set_opt a false)]).
Proof. reflexivity. Qed.
Theorem C11_elementwise : forall name anns idx vals q q', add_loop name idx anns vals q = DOk q' ->
  q' = q ++ expected_queue name idx anns vals /\ length anns = length vals.
Proof. exact add_loop_queue. Qed.
Theorem C11_plain_positions_ignored : forall name idx anns v vals q,
  add_loop name idx (None :: anns) (v :: vals) q = add_loop name (S idx) anns vals q.
Proof. exact add_plain_position. Qed.
Theorem C11_element_names : forall i n x a,
  tensor_arg_name {| c_idx := i; c_name := n; c_tensor := x; c_annot := a |} = if 0 <? i then indexed_name n i else n.
Proof. reflexivity. Qed.
Example third_element_is_named_x2 : indexed_name "x" 2 = "x[2]". Proof. reflexivity. Qed.
(* a tuple of the wrong length is an error for every pair of lists - never accepted, never silently truncated *)
Theorem C11_wrong_length_never_accepted : forall name anns idx vals q,
  length anns <> length vals -> forall q', add_loop name idx anns vals q <> DOk q'.
Proof. exact add_loop_length_mismatch. Qed.
(* acceptance by DLTypeContext.add is decided by exactly: equal lengths and admissible positions *)
Theorem C11_add_succeeds_iff : forall name anns idx vals q,
  (exists q', add_loop name idx anns vals q = DOk q') <-> (length anns = length vals /\ all_admissible anns vals = true).
Proof. exact add_loop_ok_iff. Qed.
(* what is queued: exactly the positions with an annotation and an array, each with the annotation and the value found at
   that same position, numbered by the position ... *)
Theorem C11_same_position : forall name anns idx vals c,
  In c (expected_queue name idx anns vals) <->
  exists i, nth_error anns i = Some (Some (c_annot c)) /\ nth_error vals i = Some (VArr (c_tensor c)) /\
            c_idx c = idx + i /\ c_name c = name.
Proof. exact expected_queue_positions. Qed.
(* ... and in position order *)
Theorem C11_in_order : forall name anns idx vals,
  StronglySorted (fun a b => c_idx a < c_idx b) (expected_queue name idx anns vals).
Proof. exact expected_queue_sorted. Qed.
(* the entry point DLTypeContext.add itself: without annotations nothing is queued; with annotations the call is add_loop from position 0 *)
Theorem C11_context_add : forall name vals anns q,
  (exists q', ctx_add name vals (Some anns) q = DOk q') <-> (length anns = length vals /\ all_admissible anns vals = true).
Proof. intros. unfold ctx_add. apply add_loop_ok_iff. Qed.
Theorem C11_context_add_result : forall name vals anns q, length anns = length vals -> all_admissible anns vals = true ->
  ctx_add name vals (Some anns) q = DOk (q ++ expected_queue name 0 anns vals).
Proof. intros. unfold ctx_add. apply add_loop_complete; assumption. Qed.
Redirect "C11.assumptions.1" Print Assumptions C11_elementwise.
Redirect "C11.assumptions.5" Print Assumptions C11_context_add_result.
Redirect "C11.assumptions.2" Print Assumptions C11_add_succeeds_iff.
Redirect "C11.assumptions.3" Print Assumptions C11_same_position.
Redirect "C11.assumptions.4" Print Assumptions C11_in_order.
