(* C11 - placeholder (DESIGN.md 7 C11). *)
From DL Require Import Base Context.
Example C11_placeholder : True. Proof. exact I. Qed.
