(* C17 (partial) - pydantic models: per-validation context in field order.
   - [C17_field_order]: the outcome of a validation does not depend on the order in which the keyword values
     arrive (values are looked up by field name; fields are validated in declaration order);
   - every validation (construction, model_validate, a nested model's own validation) starts from a fresh context:
     [run_pydantic] is [run_pydantic_from (ctx0 [])] by definition, so nothing is shared between validations, and
     within one validation the fields are one context (C14_pydantic_is_one_context), to which C01 / C02 apply;
   - Optional fields given None are skipped (field_queue / run_pydantic_from);
   - [C17_assignment_refuted]: as the code stands, with validate_assignment=True the construction-time context is
     still in the instance and already has every validated field registered, so assigning even a conforming value
     is refused with the duplicate-name error: the known finding K2 (the property's assignment clause is false of
     the faithful model; the witness is replayed on the implementation by harness/props/c17.py);
   - [C17_class_definition]: a numpy array type is refused at class definition exactly when one of the scalar types it
     names lies outside the tensor class's documented category (over the regenerated tables, via the finite C04 fact);
   - what model_dump / iteration / repr expose is observed by the harness only (pydantic's own machinery). *)
From Coq Require Import Permutation.
From DL Require Import Base Lexer Parser Eval Shape Dtypes DtypeSpec GenDtypes Check Context Hints Call Entry Structural PydanticProofs.

Theorem C17_field_order : forall fields c vals vals', Permutation vals vals' -> NoDup (map fst vals) ->
  run_pydantic_from c fields vals = run_pydantic_from c fields vals'.
Proof. exact keyword_order_irrelevant. Qed.
Theorem C17_fresh_context_per_validation : forall fields vals, run_pydantic fields vals = run_pydantic_from (ctx0 []) fields vals.
Proof. reflexivity. Qed.
Theorem C17_optional_none_skipped : forall c n a r vals, arg_lookup n vals = Some VNone -> a_opt a = true ->
  run_pydantic_from c ((n, a) :: r) vals = run_pydantic_from c r vals.
Proof. intros c n a r vals H Ho. simpl. rewrite H, Ho. reflexivity. Qed.
Theorem C17_assignment_refuted : forall fields vals cF n a x y,
  run_pydantic fields vals = DOk cF -> In (n, a) fields -> arg_lookup n vals = Some (VArr x) ->
  check a y n = DOk tt -> assign_field cF n a y = DRej (EDuplicate n).
Proof.
  intros fields vals cF n a x y H Hin Hl Hc. apply assignment_is_refused; auto.
  unfold run_pydantic in H. exact (proj1 (validated_fields_registered fields vals (ctx0 []) cF n a x H Hin Hl)).
Qed.
Lemma tables_are_documented : forall c l d, dtype_accepted (impl_dtypes c) l d = documented c l d.
Proof. intros c l d. destruct c, l, d; vm_compute; reflexivity. Qed.
Theorem C17_class_definition : forall c scalars,
  class_def_refused (impl_dtypes c) scalars = existsb (fun d => negb (documented c LNumpy d)) scalars.
Proof.
  intros c scalars. unfold class_def_refused.
  assert (H: forall d, negb (documented c LNumpy d) = negb (dtype_accepted (impl_dtypes c) LNumpy d)) by (intros; rewrite tables_are_documented; reflexivity).
  destruct (impl_dtypes c) as [|t ts] eqn:E.
  - induction scalars as [|d r IH]; simpl; auto. rewrite H. simpl. exact IH.
  - induction scalars as [|d r IH]; [reflexivity|]. cbn [existsb]. rewrite <- IH. rewrite H. unfold dtype_accepted. reflexivity.
Qed.
Example class_definition_examples :
  class_def_refused (impl_dtypes CInt) [KI32; KF32] = true /\ class_def_refused (impl_dtypes CInt) [KI32; KI64] = false /\
  class_def_refused (impl_dtypes CFloat) [] = false /\ class_def_refused (impl_dtypes CTensorTypeBase) [KC64] = false.
Proof. repeat split; reflexivity. Qed.
Redirect "C17.assumptions.1" Print Assumptions C17_field_order.
Redirect "C17.assumptions.3" Print Assumptions C17_class_definition.
Redirect "C17.assumptions.2" Print Assumptions C17_assignment_refuted.
