(* C17 - placeholder (DESIGN.md 7 C17). *)
From DL Require Import Base Entry.
Example C17_placeholder : True. Proof. exact I. Qed.
