(* C13 - disabled means identity; an explicit enabled=True overrides the environment switch.
   Config.v mirrors _constants.py (pydantic-settings' bool parsing of DLTYPE_DISABLE / DLTYPE_DEBUG_MODE, read
   once at import), the `enabled = not GLOBAL_DISABLE` defaults and the decorators' early returns.
   DEBUG_MODE has no data flow to any verdict in the model (it selects a logger and __tracebackhide__); that
   those are the only uses in the code is what the correspondence check (harness/props/c13.py) observes. *)
From DL Require Import Base Config.

Theorem C13_identity : forall k gd arg,
  returns_original k false (effective_enabled gd arg) = negb (effective_enabled gd arg).
Proof. intros k gd arg. destruct k; reflexivity. Qed.
Theorem C13_explicit_wins : forall gd b, effective_enabled gd (Some b) = b.
Proof. reflexivity. Qed.
Theorem C13_default_follows_environment : forall gd, effective_enabled gd None = negb gd.
Proof. reflexivity. Qed.
(* for every string value of the variable: truthy values disable by default, falsy ones do not, anything
   else makes the import fail; the debug variable never influences the switch *)
Theorem C13_environment : forall (dis dbg:option string),
  match read_env dis dbg with
  | ImportFails => (exists s, dis = Some s /\ parse_env_bool s = None) \/ (exists s, dbg = Some s /\ parse_env_bool s = None)
  | ImportOk gd _ => gd = match dis with None => false | Some s => str_in (lower s) ["1"; "on"; "t"; "true"; "y"; "yes"] end
  end.
Proof.
  assert (P: forall s b, parse_env_bool s = Some b -> b = str_in (lower s) ["1"; "on"; "t"; "true"; "y"; "yes"]).
  { intros s b. unfold parse_env_bool.
    destruct (str_in (lower s) ["1"; "on"; "t"; "true"; "y"; "yes"]); [congruence|].
    destruct (str_in (lower s) ["0"; "off"; "f"; "false"; "n"; "no"]); congruence. }
  intros dis dbg. unfold read_env.
  destruct dis as [s|]; destruct dbg as [g|].
  - destruct (parse_env_bool s) eqn:Es; [|left; eauto].
    destruct (parse_env_bool g) eqn:Eg; [|right; eauto]. apply P; auto.
  - destruct (parse_env_bool s) eqn:Es; [|left; eauto]. apply P; auto.
  - destruct (parse_env_bool g) eqn:Eg; [|right; eauto]. reflexivity.
  - reflexivity.
Qed.
Example upper_case_true_disables : read_env (Some "TRUE") None = ImportOk true false. Proof. reflexivity. Qed.
Example explicit_true_overrides : effective_enabled true (Some true) = true. Proof. reflexivity. Qed.

Redirect "C13.assumptions.1" Print Assumptions C13_identity.
Redirect "C13.assumptions.2" Print Assumptions C13_environment.
