(* C16 (partial) - what the model of the wrapper carries: the body's value or exception reaches the caller
   unchanged once the arguments are accepted (no return hint), and checking reads the bound arguments only.
   Metadata, equality, repr, immutability and pickling are CPython object-model behaviour without decision
   logic; they are compared against undecorated twins by harness/props/c16.py (a test, not a theorem). *)
From DL Require Import Base Lexer Parser Eval Shape Dtypes Check Context Hints Call.

Theorem C16_exception_passthrough : forall w ps args called out,
  run_call w ps args BRaise = (called, out) -> called = true -> out = CBodyRaised.
Proof.
  intros w ps args called out. unfold run_call.
  destruct (initial_table (w_provider w) ps) as [sc|e|x]; try (intros [= <- <-]; discriminate).
  destruct (dbind (add_args (w_params w) args []) (fun q => assert_context (ctx0 sc) q)) as [c|e|x];
    intros [= <- <-]; intros; try discriminate; reflexivity.
Qed.
Theorem C16_value_passthrough : forall w ps args v called out, w_ret w = None ->
  run_call w ps args (BReturn v) = (called, out) -> called = true -> out = CReturned v.
Proof.
  intros w ps args v called out Hr. unfold run_call. rewrite Hr.
  destruct (initial_table (w_provider w) ps) as [sc|e|x]; try (intros [= <- <-]; discriminate).
  destruct (dbind (add_args (w_params w) args []) (fun q => assert_context (ctx0 sc) q)) as [c|e|x];
    intros [= <- <-]; intros; try discriminate; reflexivity.
Qed.
(* non-vacuity: concrete wrappers, arguments and values that meet the hypotheses above *)
Definition ty0 : ttype := {| t_shape := []; t_mindex := None; t_mname := None; t_anon := false; t_lits := [] |}.
Definition annA (s:string) (o:bool) : annot :=
  {| a_ty := match parse_shape s with Ok ty => ty | Err _ => ty0 end; a_dtypes := []; a_opt := o |}.
Definition tenE (l:list Z) : tensor := {| x_lib := LNumpy; x_dt := KF32; x_shape := l |}.
Definition arrE (l:list Z) : value := VArr (tenE l).
Definition w16 : wrapped := {| w_params := [("x", (false, [Some (annA "k a=k+1" false)]))]; w_ret := None; w_provider := PFree |}.
Example ex16_value_and_exception_reach_caller :
  run_call w16 (PSOk [("k", 3%Z)]) [("x", arrE [3;4]%Z)] (BReturn VOther) = (true, CReturned VOther) /\
  run_call w16 (PSOk [("k", 3%Z)]) [("x", arrE [3;4]%Z)] BRaise = (true, CBodyRaised) /\ w_ret w16 = None.
Proof. vm_compute. repeat split. Qed.
Redirect "C16.assumptions.1" Print Assumptions C16_exception_passthrough.
