(* C16 (partial) - what the model of the wrapper carries: the body's value or exception reaches the caller
   unchanged once the arguments are accepted (no return hint), and checking reads the bound arguments only.
   Metadata, equality, repr, immutability and pickling are CPython object-model behaviour without decision
   logic; they are compared against undecorated twins by harness/props/c16.py (a test, not a theorem). *)
From DL Require Import Base Lexer Parser Eval Shape Dtypes Check Context Hints Call.

Theorem C16_exception_passthrough : forall w ps args called out,
  run_call w ps args BRaise = (called, out) -> called = true -> out = CBodyRaised.
Proof.
  intros w ps args called out. unfold run_call.
  destruct (initial_table (w_provider w) ps) as [sc|e|x]; try (intros [= <- <-]; discriminate).
  destruct (dbind (add_args (w_params w) args []) (fun q => assert_context (ctx0 sc) q)) as [c|e|x];
    intros [= <- <-]; intros; try discriminate; reflexivity.
Qed.
Theorem C16_value_passthrough : forall w ps args v called out, w_ret w = None ->
  run_call w ps args (BReturn v) = (called, out) -> called = true -> out = CReturned v.
Proof.
  intros w ps args v called out Hr. unfold run_call. rewrite Hr.
  destruct (initial_table (w_provider w) ps) as [sc|e|x]; try (intros [= <- <-]; discriminate).
  destruct (dbind (add_args (w_params w) args []) (fun q => assert_context (ctx0 sc) q)) as [c|e|x];
    intros [= <- <-]; intros; try discriminate; reflexivity.
Qed.
Redirect "C16.assumptions.1" Print Assumptions C16_exception_passthrough.
