(* C18 - placeholder (DESIGN.md 7 C18). *)
From DL Require Import Base Symbolic.
Example C18_examples :
  sprint (SBin MUL (SBin ADD (SVar "a") (SVar "b")) (SVar "c")) = Ok "(a+b)*c" /\
  sprint (SBin SUB (SVar "a") (SBin SUB (SVar "b") (SVar "c"))) = Ok "a-(b-c)" /\
  sprint (SBin EXP (SVar "a") (SBin EXP (SVar "b") (SVar "c"))) = Ok "a^(b^c)" /\
  sprint (SBin EXP (SBin EXP (SVar "a") (SVar "b")) (SVar "c")) = Ok "a^b^c".
Proof. repeat split; reflexivity. Qed.
