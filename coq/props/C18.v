(* C18 - symbolic shapes mean what the Python operator expression means.
   [sym] are the trees Python's own evaluation of + - * // ** (with Python's precedence and associativity: the tree
   is built by the interpreter, not by dltype), Min, Max, ISqrt, Group and integers builds; [pyden] is the arithmetic
   of the tree; [sprint] mirrors the __str__ methods (constant folding of two literal operands, parentheses around
   an infix operand of lower - or, on the right, equal - precedence).  For every tree whose identifiers are
   identifiers and whose folded constants are defined ([sym_ok]; a negative constant, literal or folded, prints as
   `(0-n)` since F15 - the string grammar has no negative literals), the printed string is accepted by the parser and the
   resulting dimension evaluates, under every identifier-keyed scope, to the value Python gives the expression:
   the route is sprint s = print_string (embed s) for a stratified [embed s] with den (embed s) = pyden s
   (SymbolicProof.embed_correct), then C05.  That ConstantAxis / AnonymousAxis arithmetic is TypeError is checked by
   the harness (the model has no such operands: [sym] cannot express them). *)
From DL Require Import Base Lexer Parser Eval Shape Symbolic Grammar Denote ParseEval SymbolicProof SymbolicShape GenSrc SourceTie.


Theorem C18_symbolic : forall s, sym_ok s ->
  exists str d, sprint s = Ok str /\ expression_from_string str = Ok d /\
                forall sc, scope_ok sc -> evaluate d sc true = pyden s sc.
Proof.
  intros s Hok. destruct (embed_correct s Hok) as (P & N & W & D).
  destruct (parse_eval (embed s) (W 1 (lvl_ge_1 s)) N) as (d & E & _ & _ & _ & _ & V).
  exists (print_string (embed s)), d. split; [exact P|]. split; [exact E|].
  intros sc Hs. rewrite (V sc Hs). apply D.
Qed.

(* the formerly wrong shapes, as the repaired printer prints them *)
Example C18_examples :
  sprint (SBin MUL (SBin ADD (SVar "a") (SVar "b")) (SVar "c")) = Ok "(a+b)*c" /\
  sprint (SBin SUB (SVar "a") (SBin SUB (SVar "b") (SVar "c"))) = Ok "a-(b-c)" /\
  sprint (SBin EXP (SVar "a") (SBin EXP (SVar "b") (SVar "c"))) = Ok "a^(b^c)" /\
  sprint (SBin EXP (SBin EXP (SVar "a") (SVar "b")) (SVar "c")) = Ok "a^b^c" /\
  sprint (SBin MUL (SVar "a") (SBin DIV (SVar "b") (SVar "c"))) = Ok "a*(b/c)" /\
  sprint (SBin ADD (SVar "a") (SBin SUB (SLit 1) (SLit 3))) = Ok "a+((0-2))" /\      (* negative constants: (0-n), formerly K4 *)
  sprint (SBin MUL (SLit (-3)) (SVar "a")) = Ok "(0-3)*a".
Proof. repeat split; reflexivity. Qed.
Example C18_hypotheses_satisfiable :
  sym_ok (SBin DIV (SGroup (SBin SUB (SVar "a") (SBin EXP (SVar "b") (SGroup (SBin SUB (SLit 4) (SVar "z"))))))
                   (SIsqrt (SBin SUB (SVar "b") (SFun2 MIN (SLit 2) (SLit 3))))).
Proof. simpl. repeat split; auto; try lia. exists 2%Z. reflexivity. Qed.

(* Shape[...] as a whole: expression axes, ConstantAxis, AnonymousAxis(...) / Ellipsis, AnonymousAxis("name"), joined by
   spaces.  For a non-empty sequence with at most one multi-axis marker whose axes are well formed, the printed string
   is accepted by TensorTypeBase and every dimension of the annotation means what its axis means in Python; the
   multi-axis index is the marker's position. *)
Theorem C18_shape : forall l, l <> [] -> Forall axis_ok l -> amarkers l <= 1 ->
  exists str ty, print_sshape l = Ok str /\ parse_shape str = Ok ty /\ Forall2 axis_means l (t_shape ty) /\
                 (amarkers l = 0 -> t_mindex ty = None) /\
                 (forall j a, nth_error l j = Some a -> amarker a = true -> t_mindex ty = Some j).
Proof. exact shape_print_parse. Qed.
Example C18_shape_example :
  print_sshape [SAStar "batch"; SAConst "rgb" 3; SAExpr (SBin MUL (SVar "h") (SBin DIV (SVar "w") (SLit 2))); SAExpr (SLit 4)] = Ok "*batch rgb=3 h*(w/2) 4" /\
  Forall axis_ok [SAStar "batch"; SAConst "rgb" 3; SAExpr (SBin MUL (SVar "h") (SBin DIV (SVar "w") (SLit 2))); SAExpr (SLit 4)].
Proof. split; [reflexivity|]. repeat constructor; simpl; auto; lia. Qed.

(* "Arithmetic on constant or anonymous axes is refused with TypeError": an operator application yields a tree exactly when
   both operands are operable (axes, computed axes, groups, plain ints - not two plain ints, which is Python's own
   arithmetic), and TypeError exactly when one of them is a ConstantAxis or an AnonymousAxis *)
Theorem C18_constant_axes_refused : forall o l r,
  (mk_bin o l r = Err TypeErr <-> operable l && operable r = false) /\
  (forall a, mk_isqrt a = Err TypeErr <-> operable a = false) /\
  (forall a b, mk_fun2 o a b = Err TypeErr <-> operable a && operable b = false).
Proof.
  intros o l r. split; [|split].
  - destruct l, r; simpl; split; intros H; try reflexivity; try discriminate.
  - intros a. destruct a; simpl; split; intros H; try reflexivity; try discriminate.
  - intros a b. destruct a, b; simpl; split; intros H; try reflexivity; try discriminate.
Qed.
Theorem C18_operable_build : forall o l r a b, as_operand l = Ok a -> as_operand r = Ok b ->
  (forall x y, l = OInt x -> r = OInt y -> False) -> mk_bin o l r = Ok (SBin o a b).
Proof. intros o l r a b Hl Hr Hn. destruct l, r; simpl in *; try discriminate; try (exfalso; eapply Hn; reflexivity); congruence. Qed.

(* source tie: _PRECEDENCE, the constant folding formulas and the printed operators of the symbolic classes as
   TRANSLATED from /repo's _symbolic_expressions.py on this run (coq/gen/GenSrc.v) are the model's *)
Theorem C18_source_tables : symbolic_tables_agree.
Proof. exact symbolic_tables. Qed.

(* the printed text matters only through what it parses to: two dimension expressions with the same postfix program
   (and the same anonymity flag) have the same arithmetic value in every scope.  harness/props/c18.py relies on this when
   the implementation's text and the model printer's differ in redundant parentheses: it compares what both parse to. *)
Theorem C18_value_reads_postfix_only : forall d1 d2 sc,
  d_post d1 = d_post d2 -> d_anon d1 = d_anon d2 -> evaluate d1 sc false = evaluate d2 sc false.
Proof. intros d1 d2 sc Hp Ha. unfold evaluate. rewrite Hp, Ha. reflexivity. Qed.
Redirect "C18.assumptions.1" Print Assumptions C18_symbolic.
Redirect "C18.assumptions.3" Print Assumptions C18_source_tables.
Redirect "C18.assumptions.4" Print Assumptions C18_constant_axes_refused.
Redirect "C18.assumptions.2" Print Assumptions C18_shape.
