(* C12 - scope providers pre-bind dimension names for exactly the current call.
   - [C12_prebind]: with a provider whose value is sc, the argument phase is the context started from the table sc
     (so by C01 the provided sizes belong to the accepted assignment - tensors must match them, a literal that
     contradicts them is rejected - and by C02/C05 expressions may refer to them);
   - [C12_bad_provider]: an object that does not implement the protocol gives DLTypeScopeProviderError (for a
     "self" provider as for a free one), before anything else;
   - [C12_self_needs_method]: "self" on a function without self / cls is TypeError at decoration;
   - [C12_consulted_every_call]: in every history the provider value a call uses is the one in force at that call
     (C09_history_isolated: expected_outcome reads `apply_sets` up to that point), and calls never change it. *)
From DL Require Import Base Lexer Parser Eval Shape Dtypes Check Context Hints Call Structural World WorldProofs CtxSound CtxLift.

Theorem C12_prebind : forall w sc args, w_provider w <> PNone ->
  arg_phase w (PSOk sc) args = (dlet q <- add_args (w_params w) args []; assert_context (ctx0 sc) q).
Proof. intros w sc args H. unfold arg_phase, initial_table. destruct (w_provider w); [congruence|reflexivity|reflexivity]. Qed.
Theorem C12_provided_sizes_belong_to_the_assignment : forall w sc args v, wrapped_wf w -> w_provider w <> PNone ->
  run_call w (PSOk sc) args (BReturn v) = (true, CReturned v) ->
  exists cF, extends sc (table cF).
Proof.
  intros w sc args v Hw Hp H. destruct (run_call_sound w (PSOk sc) args v Hw H) as (sc0 & qa & qr & cF & Hi & _ & _ & Hx & _).
  unfold initial_table in Hi. destruct (w_provider w); [congruence| |]; injection Hi as <-; eauto.
Qed.
Theorem C12_bad_provider : forall w args body, w_provider w <> PNone ->
  run_call w PSBad args body = (false, CRejected EScopeProvider).
Proof. intros w args body H. unfold run_call, initial_table. destruct (w_provider w); [congruence|reflexivity|reflexivity]. Qed.
Theorem C12_self_needs_method : forall f, f_provider f = PSelf -> f_is_method f = false -> decorate true f = DecError TypeErr.
Proof. intros f Hp Hm. unfold decorate. rewrite Hp, Hm. reflexivity. Qed.
Theorem C12_consulted_every_call : forall h1 p sc h2 f args w, wf_provider f = Some p ->
  forallb is_call h2 = true ->
  nth_error (snd (run_history current w (h1 ++ SetProvider p sc :: h2 ++ [CallOp f args]))) (length h1 + 1 + length h2)
  = Some (Some (call_alone (aliases w) (PSOk sc) f args)).
Proof.
  intros h1 p sc h2 f args w Hp Hc. rewrite history_isolated. simpl.
  assert (G: forall pr, nth_error (expected_outcomes (aliases w) pr (h1 ++ SetProvider p sc :: h2 ++ [CallOp f args])) (length h1 + 1 + length h2)
             = Some (Some (call_alone (aliases w) (PSOk sc) f args))).
  { induction h1 as [|o h1 IH]; intros pr.
    - simpl. revert pr. assert (forall pr, assoc p pr = Some sc ->
        nth_error (expected_outcomes (aliases w) pr (h2 ++ [CallOp f args])) (length h2) = Some (Some (call_alone (aliases w) (PSOk sc) f args))).
      { induction h2 as [|o h2 IH2]; intros pr Ha; simpl.
        - unfold provider_value. simpl. rewrite Hp, Ha. reflexivity.
        - simpl in Hc. apply andb_true_iff in Hc as [Ho Hh]. destruct o; try discriminate. simpl. apply IH2; auto. }
      intros pr. apply H. clear. induction pr as [|[a x] pr IH]; simpl; [rewrite String.eqb_refl; reflexivity|].
      destruct (a =? p)%string eqn:E; simpl; rewrite E; auto.
    - simpl. apply IH. }
  apply G.
Qed.
(* non-vacuity: concrete wrappers, arguments and values that meet the hypotheses above *)
Definition ty0 : ttype := {| t_shape := []; t_mindex := None; t_mname := None; t_anon := false; t_lits := [] |}.
Definition annA (s:string) (o:bool) : annot :=
  {| a_ty := match parse_shape s with Ok ty => ty | Err _ => ty0 end; a_dtypes := []; a_opt := o |}.
Definition tenE (l:list Z) : tensor := {| x_lib := LNumpy; x_dt := KF32; x_shape := l |}.
Definition arrE (l:list Z) : value := VArr (tenE l).
Definition w12 : wrapped := {| w_params := [("x", (false, [Some (annA "k a=k+1" false)]))]; w_ret := None; w_provider := PFree |}.
Example ex12_provided_size_accepted : run_call w12 (PSOk [("k", 3%Z)]) [("x", arrE [3;4]%Z)] (BReturn VNone) = (true, CReturned VNone).
Proof. vm_compute. reflexivity. Qed.
Example ex12_provided_size_contradicted : run_call w12 (PSOk [("k", 3%Z)]) [("x", arrE [2;3]%Z)] (BReturn VNone) = (false, CRejected (EShape "x" 0 3 2)).
Proof. vm_compute. reflexivity. Qed.
Example ex12_same_call_other_provider_value : run_call w12 (PSOk [("k", 2%Z)]) [("x", arrE [2;3]%Z)] (BReturn VNone) = (true, CReturned VNone).
Proof. vm_compute. reflexivity. Qed.
Example ex12_bad_provider : run_call w12 PSBad [("x", arrE [3;4]%Z)] (BReturn VNone) = (false, CRejected EScopeProvider).
Proof. reflexivity. Qed.
(* a provided size of 0 pre-binds like any other size (0 is falsy in Python: a filter written `if size` would drop it) *)
Example ex12_zero_is_a_size :
  run_call w12 (PSOk [("k", 0%Z)]) [("x", arrE [0;1]%Z)] (BReturn VNone) = (true, CReturned VNone) /\
  run_call w12 (PSOk [("k", 0%Z)]) [("x", arrE [3;4]%Z)] (BReturn VNone) = (false, CRejected (EShape "x" 0 0 3)).
Proof. vm_compute. split; reflexivity. Qed.
(* a history in which the provider's value changes between calls: each call sees the value in force then *)
Definition f12 : wfn := {| wf_params := [("x", "T", false)]; wf_provider := Some "p" |}.
Definition world12 : world := {| aliases := [("T", annA "k a=k+1" false)]; providers := [("p", [("k", 3%Z)])] |}.
Example ex12_history :
  snd (run_history current world12 [CallOp f12 [("x", arrE [3;4]%Z)]; SetProvider "p" [("k", 2%Z)]; CallOp f12 [("x", arrE [3;4]%Z)]; CallOp f12 [("x", arrE [2;3]%Z)]])
  = [Some (CReturned VNone); None; Some (CRejected (EShape "x" 0 2 3)); Some (CReturned VNone)].
Proof. vm_compute. reflexivity. Qed.
Redirect "C12.assumptions.1" Print Assumptions C12_prebind.
Redirect "C12.assumptions.2" Print Assumptions C12_consulted_every_call.
