(* C12 - placeholder (DESIGN.md 7 C12). *)
From DL Require Import Base Context.
Example C12_placeholder : True. Proof. exact I. Qed.
