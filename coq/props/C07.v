(* C07 - arguments are validated before the body runs; the result before it is returned.
   [run_call] returns (did the body run, what the caller observes).  Its structure is: argument phase
   (provider, queue every annotated argument, assert), body, return phase (queue the returned value into the
   same context, assert).  For every wrapper, provider state, argument list and body behaviour:
   - if the argument phase does not accept, the body did not run and the caller gets that error;
   - if it accepts and the return phase does not, the body ran (once: [run_call] consults the body oracle at one
     point) and the caller gets the error instead of the value;
   - if both accept the caller gets the value.
   The side-effect log of real bodies is observed by harness/props/c07.py. *)
From DL Require Import Base Lexer Parser Eval Shape Dtypes Check Context Hints Call Structural.

Theorem C07_args_first : forall w ps args body e,
  arg_phase w ps args = DRej e -> run_call w ps args body = (false, CRejected e).
Proof. intros w ps args body e H. rewrite run_call_phases, H. reflexivity. Qed.
Theorem C07_args_first_crash : forall w ps args body x,
  arg_phase w ps args = DCrash x -> run_call w ps args body = (false, CCrashed x).
Proof. intros w ps args body x H. rewrite run_call_phases, H. reflexivity. Qed.
Theorem C07_return_checked : forall w ps args v c e,
  arg_phase w ps args = DOk c -> ret_phase w c v = DRej e -> run_call w ps args (BReturn v) = (true, CRejected e).
Proof. intros w ps args v c e H1 H2. rewrite run_call_phases, H1, H2. reflexivity. Qed.
Theorem C07_value_only_after_both : forall w ps args v called,
  run_call w ps args (BReturn v) = (called, CReturned v) ->
  called = true /\ exists c, arg_phase w ps args = DOk c /\ ret_phase w c v = DOk tt.
Proof.
  intros w ps args v called. rewrite run_call_phases.
  destruct (arg_phase w ps args) as [c|e|x] eqn:Ea; intros H; try (inversion H; fail).
  destruct (ret_phase w c v) as [[]|e|x] eqn:Er; inversion H; subst. split; [reflexivity|]. exists c. split; [reflexivity|exact Er].
Qed.
Redirect "C07.assumptions.1" Print Assumptions C07_args_first.
Redirect "C07.assumptions.2" Print Assumptions C07_value_only_after_both.
