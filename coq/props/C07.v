(* C07 - placeholder (DESIGN.md 7 C07). *)
From DL Require Import Base Context.
Example C07_placeholder : True. Proof. exact I. Qed.
