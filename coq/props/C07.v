(* C07 - arguments are validated before the body runs; the result before it is returned.
   [run_call] returns (did the body run, what the caller observes).  Its structure is: argument phase
   (provider, queue every annotated argument, assert), body, return phase (queue the returned value into the
   same context, assert).  For every wrapper, provider state, argument list and body behaviour:
   - if the argument phase does not accept, the body did not run and the caller gets that error;
   - if it accepts and the return phase does not, the body ran (once: [run_call] consults the body oracle at one
     point) and the caller gets the error instead of the value;
   - if both accept the caller gets the value.
   The side-effect log of real bodies is observed by harness/props/c07.py. *)
From DL Require Import Base Lexer Parser Eval Shape Dtypes Check Context Hints Call Structural.

Theorem C07_args_first : forall w ps args body e,
  arg_phase w ps args = DRej e -> run_call w ps args body = (false, CRejected e).
Proof. intros w ps args body e H. rewrite run_call_phases, H. reflexivity. Qed.
Theorem C07_args_first_crash : forall w ps args body x,
  arg_phase w ps args = DCrash x -> run_call w ps args body = (false, CCrashed x).
Proof. intros w ps args body x H. rewrite run_call_phases, H. reflexivity. Qed.
Theorem C07_return_checked : forall w ps args v c e,
  arg_phase w ps args = DOk c -> ret_phase w c v = DRej e -> run_call w ps args (BReturn v) = (true, CRejected e).
Proof. intros w ps args v c e H1 H2. rewrite run_call_phases, H1, H2. reflexivity. Qed.
Theorem C07_value_only_after_both : forall w ps args v called,
  run_call w ps args (BReturn v) = (called, CReturned v) ->
  called = true /\ exists c, arg_phase w ps args = DOk c /\ ret_phase w c v = DOk tt.
Proof.
  intros w ps args v called. rewrite run_call_phases.
  destruct (arg_phase w ps args) as [c|e|x] eqn:Ea; intros H; try (inversion H; fail).
  destruct (ret_phase w c v) as [[]|e|x] eqn:Er; inversion H; subst. split; [reflexivity|]. exists c. split; [reflexivity|exact Er].
Qed.
(* non-vacuity: concrete wrappers, arguments and values that meet the hypotheses above *)
Definition ty0 : ttype := {| t_shape := []; t_mindex := None; t_mname := None; t_anon := false; t_lits := [] |}.
Definition annA (s:string) (o:bool) : annot :=
  {| a_ty := match parse_shape s with Ok ty => ty | Err _ => ty0 end; a_dtypes := []; a_opt := o |}.
Definition tenE (l:list Z) : tensor := {| x_lib := LNumpy; x_dt := KF32; x_shape := l |}.
Definition arrE (l:list Z) : value := VArr (tenE l).
Definition w7 : wrapped := {| w_params := [("x", (false, [Some (annA "a b" false)]))]; w_ret := Some (false, [Some (annA "a" false)]); w_provider := PNone |}.
Example ex07_args_rejected_body_not_run :
  arg_phase w7 (PSOk []) [("x", arrE [2]%Z)] = DRej (ENDims "x" 2 1) /\
  run_call w7 (PSOk []) [("x", arrE [2]%Z)] (BReturn (arrE [2]%Z)) = (false, CRejected (ENDims "x" 2 1)).
Proof. split; reflexivity. Qed.
Example ex07_missing_argument_crashes : arg_phase w7 (PSOk []) [] = DCrash (KeyErr "x").
Proof. reflexivity. Qed.
Example ex07_result_rejected_after_body :
  (exists c, arg_phase w7 (PSOk []) [("x", arrE [2;3]%Z)] = DOk c /\ ret_phase w7 c (arrE [5]%Z) = DRej (EShape "return" 0 2 5)) /\
  run_call w7 (PSOk []) [("x", arrE [2;3]%Z)] (BReturn (arrE [5]%Z)) = (true, CRejected (EShape "return" 0 2 5)).
Proof. split; [eexists; split; reflexivity | reflexivity]. Qed.
Example ex07_value_after_both :
  run_call w7 (PSOk []) [("x", arrE [2;3]%Z)] (BReturn (arrE [2]%Z)) = (true, CReturned (arrE [2]%Z)).
Proof. reflexivity. Qed.
Redirect "C07.assumptions.1" Print Assumptions C07_args_first.
Redirect "C07.assumptions.2" Print Assumptions C07_value_only_after_both.
