(* C06 - placeholder until the acceptance-soundness development is in place (see DESIGN.md 7 C06). *)
From DL Require Import Base Lexer Parser Eval Shape.
(* formerly accepted malformed strings are rejected by the model of the repaired parser *)
Example C06_corpus_rejected :
  forallb (fun s => match parse_shape s with Err SyntaxErr => true | _ => false end)
    ["a(b)+"; "isqrt(2)b+"; "(a)(b)*"; "1(2)+"; "isqrt,(a)"; "1a=3"; "=3"; "a+b=3"; "x=..."; "x=*b"; "x=x";
     "(...)"; "a(+)b"; "isqrt(*b)"; "a b ... ..."; ""; "a="; "a+"; "+a"; "a++b"; "()"; "a()"] = true.
Proof. vm_compute. reflexivity. Qed.
