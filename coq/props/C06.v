(* C06 - malformed shape strings raise SyntaxError when the annotation is built.
   For the model of TensorTypeBase(shape) ([parse_shape]) and EVERY string (no length bound):
   - [C06_accept_sound]: if it is accepted, the string is a non-empty whitespace-separated list of dimensions,
     each of one of the documented forms ([dim_form]: `...`; `*name`; an expression whose token sequence is the
     printing of a stratified expression - operands and infix operators alternating, functions followed by an
     argument list of the right arity, balanced non-empty parentheses, identifiers matching the pattern - with the
     grammar's postfix program; or `name=` followed by such an expression in which the name does not occur), with
     at most one `...` / `*name` marker;
   - [C06_only_syntax_error]: if it is rejected, the exception is SyntaxError - nothing else, in particular not
     ValueError, IndexError or RecursionError;
   - [C06_no_late_error]: evaluating an accepted dimension later can only fail because a name is unbound (turned
     into the invalid-reference report) or at an undefined point of arithmetic (known finding K1): never for a
     reason of form ("Invalid stack", IndexError, TypeError).
   Completeness (every string of the grammar is accepted) is C05.  Resource limits of CPython (recursion depth for
   about 1000 nested parentheses) are outside the model (DESIGN.md 10). *)
From DL Require Import Base Lexer Parser Eval Shape Grammar Denote ShapeSound GenSrc SourceTie.

Theorem C06_accept_sound : forall s ty, parse_shape s = Ok ty ->
  split_ws s "" [] <> [] /\ Forall2 dim_form (split_ws s "" []) (t_shape ty) /\ markers (t_shape ty) <= 1.
Proof. exact parse_shape_sound. Qed.
Theorem C06_only_syntax_error : forall s x, parse_shape s = Err x -> x = SyntaxErr.
Proof. exact parse_shape_err. Qed.
Theorem C06_no_late_error : forall s d sc use_cached x, expression_from_string s = Ok d -> d_anon d = false ->
  evaluate d sc use_cached = Err x -> arithmetic_or_unbound x.
Proof. exact no_late_error. Qed.

(* the formerly accepted malformed strings, and a few accepted ones (non-vacuity) *)
Example C06_corpus_rejected :
  forallb (fun s => match parse_shape s with Err SyntaxErr => true | _ => false end)
    ["a(b)+"; "isqrt(2)b+"; "(a)(b)*"; "1(2)+"; "isqrt,(a)"; "1a=3"; "=3"; "a+b=3"; "x=..."; "x=*b"; "x=x";
     "(...)"; "a(+)b"; "isqrt(*b)"; "a b ... ..."; ""; "a="; "a+"; "+a"; "a++b"; "()"; "a()"; "_n=3"; "min=min"] = true.
Proof. vm_compute. reflexivity. Qed.
Example C06_accepted_examples :
  forallb (fun s => match parse_shape s with Ok _ => true | _ => false end)
    ["a"; "b c=3 *g a+1"; "... h w"; "n=isqrt(min(a,4)^2)/(b-1) 07"; "((a))"] = true.
Proof. vm_compute. reflexivity. Qed.

(* source tie: the tables the parser consults (operator classes and strings, precedence order, identifier pattern), as
   translated from /repo's _parser.py on this run, are the model's *)
Theorem C06_source_tables : parser_tables_agree.
Proof. exact parser_tables. Qed.

Redirect "C06.assumptions.1" Print Assumptions C06_accept_sound.
Redirect "C06.assumptions.2" Print Assumptions C06_only_syntax_error.
Redirect "C06.assumptions.3" Print Assumptions C06_no_late_error.
Redirect "C06.assumptions.9" Print Assumptions C06_source_tables.
