(* C02 - no false rejects; a conforming call runs the body and returns the very value it returned.
   If one assignment [target] (sizes for names, for expression texts, for positions b[i]) and group lengths
   [gtarget] satisfy every axis of every queued tensor ([queue_conf]: each tensor passes the standalone check,
   every axis agrees with [target], every name used inside an expression axis is bound by an earlier dimension in
   source order or by the scope provider, every *b group has the length [gtarget] gives it), tensor names are
   distinct, and the initial table is part of the assignment, then the model of DLTypeContext accepts the queue:
   no DLTypeError and no other exception (not even ZeroDivisionError - a defined value is demanded of every
   expression axis by [dim_conf]).  For the function wrapper this means the body runs and the caller receives
   exactly the value the body returned; the body is invoked once by construction of [run_call], with the
   caller's arguments (the model passes them through untouched).  How arguments are bound (positional, keyword,
   defaults) is Python's inspect.Signature.bind and is exercised by the correspondence check, not modelled. *)
From DL Require Import Base Lexer Parser Eval Shape Dtypes Check Context Hints Call CtxSound CtxLift CtxComplete CallComplete.

Theorem C02_no_false_reject : forall target gtarget q c bound,
  extends (table c) target -> (forall x, In x bound -> mem x (table c) = true) -> gextends (glens c) gtarget ->
  NoDup (map tensor_arg_name q) -> (forall t, In t q -> existsb (String.eqb (tensor_arg_name t)) (regs c) = false) ->
  Forall ann_wf q -> queue_conf target gtarget bound q ->
  exists cF, assert_context c q = DOk cF /\ extends (table cF) target.
Proof. exact assert_context_complete. Qed.

Theorem C02_transparent : forall w ps args v sc0 qa qr target gtarget,
  wrapped_wf w ->
  initial_table (w_provider w) ps = DOk sc0 ->
  add_args (w_params w) args [] = DOk qa ->
  match w_ret w with
  | None => qr = []
  | Some (it, anns) =>
      match resolve_types anns with
      | None => qr = []
      | Some ra => exists vs, resolve_value it v = Ok vs /\ ctx_add "return" vs (Some ra) [] = DOk qr
      end
  end ->
  extends sc0 target -> NoDup (map tensor_arg_name (qa ++ qr)) ->
  queue_conf target gtarget (map fst sc0) (qa ++ qr) ->
  run_call w ps args (BReturn v) = (true, CReturned v).
Proof. exact run_call_complete. Qed.

(* non-vacuity: a context with a marker absorbing zero axes, a zero-sized axis, a provider name used inside an
   expression and a one-element tuple is accepted by the model *)
Definition annE (s:string) : option annot :=
  match parse_shape s with Ok ty => Some {| a_ty := ty; a_dtypes := []; a_opt := false |} | Err _ => None end.
Definition arrE (l:list Z) : value := VArr {| x_lib := LNumpy; x_dt := KF32; x_shape := l |}.
Example conforming_context_accepted :
  match run_ctx (ctx0 [("k", 2%Z)])
          [("x", [arrE [0; 3]%Z], Some [annE "a ... b"]);
           ("y", [arrE [0]%Z; arrE [6]%Z], Some [annE "a*b"; annE "k*b"])] with
  | DOk c => map fst (table c) = ["k"; "a"; "b"; "a*b"; "k*b"]
  | _ => False
  end.
Proof. vm_compute. reflexivity. Qed.

Redirect "C02.assumptions.1" Print Assumptions C02_no_false_reject.
Redirect "C02.assumptions.2" Print Assumptions C02_transparent.
