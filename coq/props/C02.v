(* C02 - placeholder (DESIGN.md 7 C02). *)
From DL Require Import Base Context.
Example C02_placeholder : True. Proof. exact I. Qed.
