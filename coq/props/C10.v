(* C10 - placeholder (DESIGN.md 7 C10). *)
From DL Require Import Base Context.
Example C10_placeholder : True. Proof. exact I. Qed.
