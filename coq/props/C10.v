(* C10 - optional hints: None is skipped, everything else is still checked.
   For DLTypeContext.add (add_loop): at an optional annotation the value None contributes nothing and the loop
   goes on with the next position (so later elements of the same tuple are still queued); at a non-optional
   annotation None is the unsupported-type error; a value that is present is queued and later asserted exactly
   as under the non-optional hint (assert_one does not read the flag).  For from_hint: `T | None` is the hint T
   with the flag set; a union with any number of non-None alternatives other than one is TypeError. *)
From DL Require Import Base Lexer Parser Eval Shape Dtypes Check Context Hints Call Structural.

Theorem C10_none_skipped : forall name idx an anns vals q, a_opt an = true ->
  add_loop name idx (Some an :: anns) (VNone :: vals) q = add_loop name (S idx) anns vals q.
Proof. exact add_optional_none. Qed.
Theorem C10_non_optional_none : forall name idx an anns vals q, a_opt an = false ->
  add_loop name idx (Some an :: anns) (VNone :: vals) q = DRej EUnsupported.
Proof. exact add_required_none. Qed.
Theorem C10_present_value_as_under_T : forall c t o,
  assert_one c {| c_idx := c_idx t; c_name := c_name t; c_tensor := c_tensor t; c_annot := set_opt (c_annot t) o |} = assert_one c t.
Proof. exact assert_one_ignores_optional. Qed.
Theorem C10_optional_hint : forall t o, from_hint (HUnion [t]) o = from_hint t true.
Proof. exact optional_is_union_with_none. Qed.
Theorem C10_general_union : forall alts o, length alts <> 1 -> from_hint (HUnion alts) o = Err TypeErr.
Proof. exact general_union_refused. Qed.
(* `Optional[tuple[...]]`: the flag stops at the tuple - its elements are resolved with their own hints, so a present tuple
   is checked exactly as under `tuple[...]` (an element is optional only if its own hint says so) *)
Theorem C10_optional_tuple_is_the_tuple : forall es o, from_hint (HUnion [HTuple es]) o = from_hint (HTuple es) false.
Proof. intros es o. rewrite optional_is_union_with_none. reflexivity. Qed.
(* a union refused by from_hint is refused when the function is decorated (whatever the other hints are, as long
   as resolving them raises nothing but TypeError - from_hint raises nothing else) *)
Lemma hints_of_union ps : forall n alts, In (n, HUnion alts) ps -> length alts <> 1 ->
  (forall m h, In (m, h) ps -> from_hint h false = Err TypeErr \/ exists r, from_hint h false = Ok r) ->
  hints_of ps = Err TypeErr.
Proof.
  induction ps as [|[m0 h0] ps IH]; intros n alts Hin Hl Hall; [destruct Hin|]. simpl.
  destruct Hin as [Heq|Hin].
  - injection Heq as -> ->. rewrite (general_union_refused alts false Hl). reflexivity.
  - destruct (Hall m0 h0 (or_introl eq_refl)) as [Hr|[r Hr]]; rewrite Hr; cbn [bind]; [reflexivity|].
    rewrite (IH n alts Hin Hl (fun m' h' Hin' => Hall m' h' (or_intror Hin'))). reflexivity.
Qed.
Theorem C10_union_refused_at_decoration : forall f n alts, In (n, HUnion alts) (f_params f) -> length alts <> 1 ->
  (forall m h, In (m, h) (f_params f) -> from_hint h false = Err TypeErr \/ exists r, from_hint h false = Ok r) ->
  f_provider f <> PSelf -> decorate true f = DecError TypeErr.
Proof.
  intros f n alts Hin Hl Hall Hp. unfold decorate. cbn [negb].
  rewrite (hints_of_union _ n alts Hin Hl Hall). destruct (f_provider f); try congruence; reflexivity.
Qed.
(* non-vacuity: concrete wrappers, arguments and values that meet the hypotheses above *)
Definition ty0 : ttype := {| t_shape := []; t_mindex := None; t_mname := None; t_anon := false; t_lits := [] |}.
Definition annA (s:string) (o:bool) : annot :=
  {| a_ty := match parse_shape s with Ok ty => ty | Err _ => ty0 end; a_dtypes := []; a_opt := o |}.
Definition tenE (l:list Z) : tensor := {| x_lib := LNumpy; x_dt := KF32; x_shape := l |}.
Definition arrE (l:list Z) : value := VArr (tenE l).
Example ex10_none_skipped_rest_still_queued :
  add_loop "x" 0 [Some (annA "a" true); Some (annA "b" false)] [VNone; arrE [4]%Z] [] =
  DOk [{| c_idx := 1; c_name := "x"; c_tensor := tenE [4]%Z; c_annot := annA "b" false |}].
Proof. vm_compute. reflexivity. Qed.
Example ex10_required_none : add_loop "x" 0 [Some (annA "a" false)] [VNone] [] = DRej EUnsupported.
Proof. reflexivity. Qed.
Example ex10_present_value_checked_under_optional :
  run_ctx (ctx0 []) [("x", [arrE [2]%Z], Some [Some (annA "a" true)]); ("y", [arrE [3]%Z], Some [Some (annA "a" true)])] = DRej (EShape "y" 0 2 3).
Proof. vm_compute. reflexivity. Qed.
Example ex10_optional_hint : from_hint (HUnion [HAnn BSupported (annA "a" false)]) false = Ok (false, [Some (annA "a" true)]).
Proof. reflexivity. Qed.
Example ex10_two_tensor_union_refused :
  decorate true {| f_params := [("x", HUnion [HAnn BSupported (annA "a" false); HAnn BSupported (annA "b" false)])]; f_ret := None; f_provider := PNone; f_is_method := false |} = DecError TypeErr.
Proof. reflexivity. Qed.
Example ex10_optional_tuple_elements_stay_required :
  from_hint (HUnion [HTuple [HAnn BSupported (annA "a" false); HUnion [HAnn BSupported (annA "b" false)]]]) false
  = Ok (true, [Some (annA "a" false); Some (annA "b" true)]).
Proof. reflexivity. Qed.
Redirect "C10.assumptions.1" Print Assumptions C10_none_skipped.
Redirect "C10.assumptions.2" Print Assumptions C10_union_refused_at_decoration.
