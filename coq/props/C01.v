(* C01 - no false accepts: one consistent dimension assignment per checked context.
   Whenever the model of a checked context (all arguments queued, asserted; the return value queued into the
   same context, asserted) finishes without raising, the final binding table [table cF] is one assignment
   - that contains the sizes supplied by the scope provider ([extends sc0]),
   - under which every processed axis of every tensor is satisfied ([dim_sat]: a plain name, name=literal,
     name=expression and every position b[i] of a *b group has the size the table gives its identifier; an
     expression axis has the value of its postfix program, which by C05 is the arithmetic value [den]),
   - every tensor passed the standalone check (rank, dtype, literal axes: C03),
   - and every *b group stands for the same number of axes ([glens]) with the same sizes (positions b[i]).
   No bound on the number of tensors, dims, or sizes. *)
From DL Require Import Base Lexer Parser Eval Shape Dtypes Check Context Hints Call Grammar Denote LexPrint EvalCompile CtxSound CtxLift.

Theorem C01_no_false_accept : forall sc0 its cF, items_wf its ->
  run_ctx (ctx0 sc0) its = DOk cF ->
  exists q, add_items its [] = DOk q /\ extends sc0 (table cF) /\ Forall (tensor_ok cF) q.
Proof. exact run_ctx_sound. Qed.

(* the function form: arguments and return value are one context *)
Theorem C01_call_no_false_accept : forall w ps args v, wrapped_wf w ->
  run_call w ps args (BReturn v) = (true, CReturned v) ->
  exists sc0 qa qr cF,
    initial_table (w_provider w) ps = DOk sc0 /\
    add_args (w_params w) args [] = DOk qa /\
    assert_context (ctx0 sc0) (qa ++ qr) = DOk cF /\
    extends sc0 (table cF) /\ Forall (tensor_ok cF) (qa ++ qr) /\
    match w_ret w with
    | None => qr = []
    | Some (it, anns) =>
        match resolve_types anns with
        | None => qr = []
        | Some ra => exists vs, resolve_value it v = Ok vs /\ ctx_add "return" vs (Some ra) [] = DOk qr
        end
    end.
Proof. exact run_call_sound. Qed.

(* "no name is ever matched against two different sizes inside one context" *)
Theorem C01_name_single_valued : forall sc d1 d2 s1 s2, dim_sat sc d1 s1 -> dim_sat sc d2 s2 ->
  d_anon d1 = false -> d_anon d2 = false -> d_ident d1 = d_ident d2 ->
  (d_literal d1 = false \/ isnumeric (d_ident d1) = false) -> (d_literal d2 = false \/ isnumeric (d_ident d2) = false) -> s1 = s2.
Proof. exact same_ident_same_size. Qed.

(* an accepted expression axis has the arithmetic value of its expression under the assignment *)
Theorem C01_expression_axis_value : forall sc d s e, dim_sat sc d s -> d_anon d = false -> d_literal d = false ->
  d_identifier d = false -> d_post d = compile e -> ops_ok e -> den e sc = Ok s.
Proof.
  intros sc d s e H Ha Hl Hi Hp Ho. destruct (H Ha) as (_ & _ & C).
  rewrite <- (eval_compile_top e sc Ho), <- Hp. auto.
Qed.
(* every annotation the model can construct is covered by the theorems above *)
Theorem C01_parsed_annotations_are_wf : forall s ty dts o, parse_shape s = Ok ty ->
  annot_wf {| a_ty := ty; a_dtypes := dts; a_opt := o |}.
Proof. intros s ty dts o H. unfold annot_wf. simpl. eapply parse_shape_dims_wf; eauto. Qed.

(* non-vacuity and the three formerly accepted inconsistent contexts *)
Definition ann (s:string) : option annot :=
  match parse_shape s with Ok ty => Some {| a_ty := ty; a_dtypes := []; a_opt := false |} | Err _ => None end.
Definition arr (l:list Z) : value := VArr {| x_lib := LNumpy; x_dt := KF32; x_shape := l |}.
Definition ctx_of (sc0:scope) (l:list (string * string * list Z)) : dres ctx :=
  run_ctx (ctx0 sc0) (map (fun p => (fst (fst p), [arr (snd p)], Some [ann (snd (fst p))])) l).
Definition accepted (r:dres ctx) : bool := match r with DOk _ => true | _ => false end.
Example accepts_consistent :
  accepted (ctx_of [("k", 3%Z)] [("x", "*g a b=a+1", [7;8;2;3]); ("y", "k *g a*b", [3;7;8;6]); ("z", "c=2 ... b", [2;3])]%Z) = true.
Proof. reflexivity. Qed.
Example rejects_named_literal_then_name : accepted (ctx_of [] [("x", "b c=3", [2;3]); ("y", "b c", [2;5])]%Z) = false.
Proof. reflexivity. Qed.
Example rejects_group_prefix : accepted (ctx_of [] [("x", "*g c", [2;3;4]); ("y", "*g c", [2;4])]%Z) = false.
Proof. reflexivity. Qed.
Example rejects_bound_name_with_other_expression : accepted (ctx_of [] [("x", "a b", [2;3]); ("y", "b=a+2", [3])]%Z) = false.
Proof. reflexivity. Qed.

Redirect "C01.assumptions.1" Print Assumptions C01_no_false_accept.
Redirect "C01.assumptions.2" Print Assumptions C01_call_no_false_accept.
Redirect "C01.assumptions.3" Print Assumptions C01_expression_axis_value.
