(* C01 - placeholder: the binding-table soundness development is added below (DESIGN.md 7 C01). *)
From DL Require Import Base Lexer Parser Eval Shape Dtypes Check Context.
Example C01_placeholder : True. Proof. exact I. Qed.
