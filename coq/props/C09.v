(* C09 - contexts are isolated: no dependence on history, siblings, decoration order, nesting or threads.
   World.v models what outlives a call: the annotation objects shared through aliases and the mappings owned by
   scope providers.  For the repaired code (`current`: the optional flag goes onto a copy, the provider's mapping
   is copied) and EVERY history of decorations, provider updates and calls:
   - [C09_history_isolated]: the outcome of each call is what the call decides alone from the annotations as
     written, its arguments and the provider's value at that moment; the aliases are never modified and the
     provider mappings only by the explicit updates (checking never modifies caller-visible state);
   - [C09_calls_commute]: a history of calls only - any interleaving of the calls of any number of threads, given
     that a call is one step of this model - gives each call the outcome it has alone;
   - [C09_decoration_order]: decorations do not change the world.
   For the code as it was (`legacy`) both channels are refuted by concrete two- and three-step histories.
   Atomicity of a call with respect to other threads (the wrapper reads the provider once and then works on local
   state only) is a property of the code's structure that the thread runs of harness/props/c09.py test; GIL
   scheduling itself cannot be exhibited by the model.  A nested checked call is an ordinary call inside the body
   oracle: it has its own context by construction of [run_call]. *)
From DL Require Import Base Lexer Parser Eval Shape Dtypes Check Context Hints Call World WorldProofs.

Theorem C09_history_isolated : forall h w,
  run_history current w h =
  ({| aliases := aliases w; providers := apply_sets (providers w) h |}, expected_outcomes (aliases w) (providers w) h).
Proof. exact history_isolated. Qed.
Theorem C09_calls_commute : forall h w, forallb is_call h = true ->
  snd (run_history current w h) = map (fun o => snd (step current w o)) h.
Proof. exact calls_commute. Qed.
Theorem C09_decoration_order : forall ds w, (forall o, In o ds -> exists f, o = Decorate f) ->
  fst (run_history current w ds) = w.
Proof. exact decorations_irrelevant. Qed.

(* ---- the code as it was ---- *)
Definition T_ab : annot :=
  match parse_shape "a b" with Ok ty => {| a_ty := ty; a_dtypes := []; a_opt := false |} | Err _ => {| a_ty := scalar_type; a_dtypes := []; a_opt := false |} end.
Definition g_opt : wfn := {| wf_params := [("x", "T", true)]; wf_provider := None |}.     (* def g(x: T | None) *)
Definition h_req : wfn := {| wf_params := [("x", "T", false)]; wf_provider := None |}.    (* def h(x: T) *)
Definition w0 : world := {| aliases := [("T", T_ab)]; providers := [("P", [])] |}.
Definition arr2 (l:list Z) : value := VArr {| x_lib := LNumpy; x_dt := KF32; x_shape := l |}.
(* decorating h after g makes g(None) fail, although g is written with `| None` *)
Example C09_legacy_alias_flag_refuted :
  snd (run_history legacy w0 [Decorate g_opt; Decorate h_req; CallOp g_opt [("x", VNone)]]) = [None; None; Some (CRejected EUnsupported)] /\
  snd (run_history legacy w0 [Decorate h_req; Decorate g_opt; CallOp g_opt [("x", VNone)]]) = [None; None; Some (CReturned VNone)] /\
  snd (run_history current w0 [Decorate g_opt; Decorate h_req; CallOp g_opt [("x", VNone)]]) = [None; None; Some (CReturned VNone)].
Proof. vm_compute. repeat split; reflexivity. Qed.
(* a long-lived provider dict keeps the bindings of the previous call *)
Definition f_prov : wfn := {| wf_params := [("x", "T", false)]; wf_provider := Some "P" |}.
Example C09_legacy_provider_dict_refuted :
  snd (run_history legacy w0 [CallOp f_prov [("x", arr2 [2;3]%Z)]; CallOp f_prov [("x", arr2 [5;3]%Z)]])
    = [Some (CReturned VNone); Some (CRejected (EShape "x" 0 2%Z 5%Z))] /\
  snd (run_history current w0 [CallOp f_prov [("x", arr2 [2;3]%Z)]; CallOp f_prov [("x", arr2 [5;3]%Z)]])
    = [Some (CReturned VNone); Some (CReturned VNone)] /\
  providers (fst (run_history legacy w0 [CallOp f_prov [("x", arr2 [2;3]%Z)]])) = [("P", [("a", 2%Z); ("b", 3%Z)])] /\
  providers (fst (run_history current w0 [CallOp f_prov [("x", arr2 [2;3]%Z)]])) = [("P", [])].
Proof. vm_compute. repeat split; reflexivity. Qed.

Redirect "C09.assumptions.1" Print Assumptions C09_history_isolated.
Redirect "C09.assumptions.2" Print Assumptions C09_calls_commute.
