(* C09 - contexts are isolated: no dependence on history, siblings, decoration order, nesting or threads.
   World.v models what outlives a call: the annotation objects shared through aliases and the mappings owned by
   scope providers.  For the repaired code (`current`: the optional flag goes onto a copy, the provider's mapping
   is copied) and EVERY history of decorations, provider updates and calls:
   - [C09_history_isolated]: the outcome of each call is what the call decides alone from the annotations as
     written, its arguments and the provider's value at that moment; the aliases are never modified and the
     provider mappings only by the explicit updates (checking never modifies caller-visible state);
   - [C09_calls_commute]: a history of calls only - any interleaving of the calls of any number of threads, given
     that a call is one step of this model - gives each call the outcome it has alone;
   - [C09_decoration_order]: decorations do not change the world.
   For the code as it was (`legacy`) both channels are refuted by concrete two- and three-step histories.
   Atomicity of a call with respect to other threads (the wrapper reads the provider once and then works on local
   state only) is a property of the code's structure that the thread runs of harness/props/c09.py test; GIL
   scheduling itself cannot be exhibited by the model.  A nested checked call is an ordinary call inside the body
   oracle: it has its own context by construction of [run_call]. *)
From DL Require Import Base Lexer Parser Eval Shape Dtypes Check Context Hints Call World WorldProofs Lazy LazyProofs Structural Nested NestedProofs.

Theorem C09_history_isolated : forall h w,
  run_history current w h =
  ({| aliases := aliases w; providers := apply_sets (providers w) h |}, expected_outcomes (aliases w) (providers w) h).
Proof. exact history_isolated. Qed.
Theorem C09_calls_commute : forall h w, forallb is_call h = true ->
  snd (run_history current w h) = map (fun o => snd (step current w o)) h.
Proof. exact calls_commute. Qed.
Theorem C09_decoration_order : forall ds w, (forall o, In o ds -> exists f, o = Decorate f) ->
  fst (run_history current w ds) = w.
Proof. exact decorations_irrelevant. Qed.

(* ---- the code as it was ---- *)
Definition T_ab : annot :=
  match parse_shape "a b" with Ok ty => {| a_ty := ty; a_dtypes := []; a_opt := false |} | Err _ => {| a_ty := scalar_type; a_dtypes := []; a_opt := false |} end.
Definition g_opt : wfn := {| wf_params := [("x", "T", true)]; wf_provider := None |}.     (* def g(x: T | None) *)
Definition h_req : wfn := {| wf_params := [("x", "T", false)]; wf_provider := None |}.    (* def h(x: T) *)
Definition w0 : world := {| aliases := [("T", T_ab)]; providers := [("P", [])] |}.
Definition arr2 (l:list Z) : value := VArr {| x_lib := LNumpy; x_dt := KF32; x_shape := l |}.
(* decorating h after g makes g(None) fail, although g is written with `| None` *)
Example C09_legacy_alias_flag_refuted :
  snd (run_history legacy w0 [Decorate g_opt; Decorate h_req; CallOp g_opt [("x", VNone)]]) = [None; None; Some (CRejected EUnsupported)] /\
  snd (run_history legacy w0 [Decorate h_req; Decorate g_opt; CallOp g_opt [("x", VNone)]]) = [None; None; Some (CReturned VNone)] /\
  snd (run_history current w0 [Decorate g_opt; Decorate h_req; CallOp g_opt [("x", VNone)]]) = [None; None; Some (CReturned VNone)].
Proof. vm_compute. repeat split; reflexivity. Qed.
(* a long-lived provider dict keeps the bindings of the previous call *)
Definition f_prov : wfn := {| wf_params := [("x", "T", false)]; wf_provider := Some "P" |}.
Example C09_legacy_provider_dict_refuted :
  snd (run_history legacy w0 [CallOp f_prov [("x", arr2 [2;3]%Z)]; CallOp f_prov [("x", arr2 [5;3]%Z)]])
    = [Some (CReturned VNone); Some (CRejected (EShape "x" 0 2%Z 5%Z))] /\
  snd (run_history current w0 [CallOp f_prov [("x", arr2 [2;3]%Z)]; CallOp f_prov [("x", arr2 [5;3]%Z)]])
    = [Some (CReturned VNone); Some (CReturned VNone)] /\
  providers (fst (run_history legacy w0 [CallOp f_prov [("x", arr2 [2;3]%Z)]])) = [("P", [("a", 2%Z); ("b", 3%Z)])] /\
  providers (fst (run_history current w0 [CallOp f_prov [("x", arr2 [2;3]%Z)]])) = [("P", [])].
Proof. vm_compute. repeat split; reflexivity. Qed.

(* ---- hints resolved at the first call (forward references) ---- *)
(* kept per function, as the code does: every call of every history has the outcome it has with hints resolved at decoration
   time, whichever sibling is called first (and C09_history_isolated says what that outcome is) *)
Theorem C09_lazy_resolution_is_eager : forall fns h w, names_agree fns h ->
  snd (lrun PerFunction {| lw := w; cells := [] |} h) = snd (run_history current w (map eager_op h)).
Proof.
  intros fns h w Hn. assert (Hc: cells_ok fns (aliases w) []) by (intros n wr H; discriminate H).
  exact (proj1 (lazy_is_eager fns h {| lw := w; cells := [] |} Hn Hc)).
Qed.
(* kept per decorator object (one `checked = dltyped()` applied to two functions): the sibling called first decides *)
Definition T_c : annot :=
  match parse_shape "c" with Ok ty => {| a_ty := ty; a_dtypes := []; a_opt := false |} | Err _ => {| a_ty := scalar_type; a_dtypes := []; a_opt := false |} end.
Definition w_lazy : world := {| aliases := [("T", T_ab); ("U", T_c)]; providers := [] |}.
Definition area : lfn := {| l_name := "area"; l_deco := "checked"; l_fn := {| wf_params := [("x", "T", false)]; wf_provider := None |} |}.
Definition norm : lfn := {| l_name := "norm"; l_deco := "checked"; l_fn := {| wf_params := [("v", "U", false)]; wf_provider := None |} |}.
Example C09_per_decorator_cell_refuted :
  snd (lrun PerDecorator {| lw := w_lazy; cells := [] |} [LCall norm [("v", arr2 [3]%Z)]; LCall area [("x", arr2 [7]%Z)]])
    = [Some (CReturned VNone); Some (CCrashed (KeyErr "v"))] /\
  snd (lrun PerFunction {| lw := w_lazy; cells := [] |} [LCall norm [("v", arr2 [3]%Z)]; LCall area [("x", arr2 [7]%Z)]])
    = [Some (CReturned VNone); Some (CRejected (ENDims "x" 2 1))].
Proof. vm_compute. split; reflexivity. Qed.

(* ---- nesting and recursion ---- *)
(* a body may make checked calls (of other functions, of itself) before it finishes; with a context per activation - the
   wrapper's local variable - every one of those calls has the outcome it has alone, and the enclosing call has the outcome
   of run_call with what its body finally does: none of them sees another's bindings *)
Theorem C09_nested_calls_isolated : forall name w ps args b,
  snd (run_nested FreshCtx name w ps args b) = snd (run_call w ps args (final b)).
Proof. exact nested_calls_do_not_matter. Qed.
Theorem C09_every_activation_alone : forall b st,
  snd (fst (run_body FreshCtx st b)) = alone b /\ snd (run_body FreshCtx st b) = final b.
Proof. exact fresh_contexts_isolate. Qed.
(* one context object per decorated function, rewound on entry (a seeded change): a recursive activation with n = 5 makes the
   outer activation (n = 3) accept a result of length 5 *)
Definition T_n : annot :=
  match parse_shape "n" with Ok ty => {| a_ty := ty; a_dtypes := []; a_opt := false |} | Err _ => {| a_ty := scalar_type; a_dtypes := []; a_opt := false |} end.
Definition w_rec : wrapped := {| w_params := [("x", (false, [Some T_n]))]; w_ret := Some (false, [Some T_n]); w_provider := PNone |}.
Definition rec_body : body := CallThen "f" w_rec PSBad [("x", arr2 [5]%Z)] (Finish (BReturn (arr2 [5]%Z))) (Finish (BReturn (arr2 [5]%Z))).
Example C09_context_per_function_refuted :
  snd (run_nested CtxPerFunction "f" w_rec PSBad [("x", arr2 [3]%Z)] rec_body) = CReturned (arr2 [5]%Z) /\
  snd (run_nested FreshCtx "f" w_rec PSBad [("x", arr2 [3]%Z)] rec_body) = CRejected (EShape "return" 0 3%Z 5%Z).
Proof. vm_compute. split; reflexivity. Qed.

Redirect "C09.assumptions.1" Print Assumptions C09_history_isolated.
Redirect "C09.assumptions.4" Print Assumptions C09_nested_calls_isolated.
Redirect "C09.assumptions.3" Print Assumptions C09_lazy_resolution_is_eager.
Redirect "C09.assumptions.2" Print Assumptions C09_calls_commute.
