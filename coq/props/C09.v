(* C09 - placeholder (DESIGN.md 7 C09). *)
From DL Require Import Base Context.
Example C09_placeholder : True. Proof. exact I. Qed.
