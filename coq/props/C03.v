(* C03 - the standalone check: a tensor passes exactly when its rank fits (equal, or at least the number
   of remaining axes when there is a marker), its dtype belongs to the class, and every literal axis equals
   the tensor's size at the aligned position (left of the marker from the front, right of it from the back,
   the marker absorbing zero or more axes); otherwise the rank, dtype or shape error describes the mismatch
   with the index of the axis in the actual tensor.  Holds for every annotation the model can construct. *)
From DL Require Import Base Lexer Parser Eval Shape Dtypes Check CheckSpec CheckProof ShapeWf.

Theorem C03_check_iff : forall s ty dtypes opt x name, parse_shape s = Ok ty ->
  let a := {| a_ty := ty; a_dtypes := dtypes; a_opt := opt |} in
  (check a x name = DOk tt <->
     rank_ok ty (length (x_shape x)) /\
     dtype_accepted dtypes (x_lib x) (x_dt x) = true /\
     literals_ok ty (x_shape x)).
Proof. intros s ty dtypes opt x name H a. apply (check_iff a x name). exact (parse_shape_wf s ty H). Qed.

Theorem C03_error_factual : forall s ty dtypes opt x name e, parse_shape s = Ok ty ->
  let a := {| a_ty := ty; a_dtypes := dtypes; a_opt := opt |} in
  check a x name = DRej e ->
  match e with
  | ENDims n ex ac => n = name /\ ac = length (x_shape x) /\ ~ rank_ok ty ac /\
                      ex = match t_mindex ty with Some _ => declared ty - 1 | None => declared ty end
  | EDtype n => n = name /\ rank_ok ty (length (x_shape x)) /\ dtype_accepted dtypes (x_lib x) (x_dt x) = false
  | EShape n i ex ac => n = name /\ rank_ok ty (length (x_shape x)) /\
                dtype_accepted dtypes (x_lib x) (x_dt x) = true /\
                nth_error (x_shape x) i = Some ac /\ ac <> ex /\
                exists idx, In (idx, ex) (t_lits ty) /\ size_at ty (x_shape x) idx = Some ac /\
                            i = adjust_idx ty (length (x_shape x)) idx
  | _ => False
  end.
Proof. intros s ty dtypes opt x name e H a. apply (check_error_factual a x name e). exact (parse_shape_wf s ty H). Qed.

Theorem C03_no_other_exception : forall s ty dtypes opt x name c, parse_shape s = Ok ty ->
  check {| a_ty := ty; a_dtypes := dtypes; a_opt := opt |} x name <> DCrash c.
Proof. intros s ty dtypes opt x name c H. apply check_no_crash. exact (parse_shape_wf s ty H). Qed.

(* non-vacuity: marker first / middle / last / absorbing zero axes *)
Definition t3 (l:list Z) : tensor := {| x_lib := LNumpy; x_dt := KF32; x_shape := l |}.
Definition chk (s:string) (l:list Z) : option (dres unit) :=
  match parse_shape s with Ok ty => Some (check {| a_ty := ty; a_dtypes := []; a_opt := false |} (t3 l) "x") | Err _ => None end.
Example marker_middle_ok : chk "2 *b 3 4" [2;9;9;3;4]%Z = Some (DOk tt). Proof. reflexivity. Qed.
Example marker_zero_axes : chk "2 ... 3" [2;3]%Z = Some (DOk tt). Proof. reflexivity. Qed.
Example marker_first_bad : chk "... 3 4" [7;3;5]%Z = Some (DRej (EShape "x" 2 4%Z 5%Z)). Proof. reflexivity. Qed.
Example marker_last_rank : chk "2 3 *b" [2]%Z = Some (DRej (ENDims "x" 2 1)). Proof. reflexivity. Qed.

Redirect "C03.assumptions.1" Print Assumptions C03_check_iff.
Redirect "C03.assumptions.2" Print Assumptions C03_error_factual.
Redirect "C03.assumptions.3" Print Assumptions C03_no_other_exception.
