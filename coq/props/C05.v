(* C05 - dimension expressions evaluate to their arithmetic value.
   Every string of the documented grammar ([print_string e] for a stratified [e]: precedence ^ above * /
   above + -, left-to-right within a level, functions and parentheses binding tightest) is accepted by the
   model of expression_from_string, its postfix program is the grammar's, and under every scope whose keys
   are identifiers it evaluates to the arithmetic value [den e sc] (floor division, floor square root),
   undefined points and unbound names included.  Parsing takes no scope, so it cannot depend on one. *)
From DL Require Import Base Lexer Parser Eval Shape Grammar Denote LexPrint ParseEval ShapeSound ShapeComplete GenSrc SourceTie.

Theorem C05_parse_eval : forall e, wf 1 e -> names_ok e ->
  exists d, expression_from_string (print_string e) = Ok d /\ d_ident d = print_string e /\
            d_post d = compile e /\ d_anon d = false /\ d_named d = false /\
            forall sc, scope_ok sc -> evaluate d sc true = den e sc.
Proof. exact parse_eval. Qed.

Theorem C05_parse_eval_named : forall x e, wf 1 e -> names_ok e -> valid_ident x = true -> ~ In x (vars e) ->
  exists d, expression_from_string (String.append x (String "=" (print_string e))) = Ok d /\ d_ident d = x /\
            d_post d = compile e /\ d_anon d = false /\ d_named d = false /\
            forall sc, evaluate d sc false = den e sc.
Proof. exact parse_eval_named. Qed.

(* non-vacuity: a string mixing all precedence levels, a function and parentheses meets the hypotheses,
   and its value is the arithmetic one *)
Definition ex5 : expr :=
  Bin SUB (Bin ADD (Var "a") (Bin MUL (Lit "2") (Bin EXP (Var "b") (Lit "2"))))
          (Fun2 MIN (Paren (Bin DIV (Var "a") (Lit "3"))) (Fun1 ISQRT (Var "c"))).
Example ex5_meets_hypotheses : wf 1 ex5 /\ names_ok ex5 /\ print_string ex5 = "a+2*b^2-min((a/3),isqrt(c))".
Proof. vm_compute. repeat split; auto; lia. Qed.
Example ex5_value : den ex5 [("a", 10%Z); ("b", 3%Z); ("c", 17%Z)] = Ok 25%Z.
Proof. vm_compute. reflexivity. Qed.

(* the whole shape string: dimensions of the grammar (expressions, `name=` forms, `...`, `*name`; at most one of the last
   two) separated by single spaces are accepted by TensorTypeBase, dimension by dimension with the meaning above; the
   multi-axis index is the marker's position *)
Theorem C05_shape_level : forall gs, gs <> [] -> Forall gdim_ok gs -> gmarkers gs <= 1 ->
  exists ty, parse_shape (print_shape gs) = Ok ty /\ Forall2 dim_means gs (t_shape ty) /\
             (gmarkers gs = 0 -> t_mindex ty = None) /\
             (forall j g, nth_error gs j = Some g -> gmarker g = true -> t_mindex ty = Some j).
Proof. exact parse_shape_complete. Qed.
Example ex5_shape : print_shape [GStar "batch"; GNamed "c" (Lit "3"); GExpr ex5; GAnon] = sapp "*batch c=3 " (sapp (print_string ex5) " ...").
Proof. reflexivity. Qed.

(* source tie: evaluate / evaluate_unary, the precedence order, the operator classes and strings and the identifier
   pattern as TRANSLATED from /repo's _parser.py on this run (coq/gen/GenSrc.v) are the model's *)
Theorem C05_source_tables : parser_tables_agree.
Proof. exact parser_tables. Qed.

Redirect "C05.assumptions.1" Print Assumptions C05_parse_eval.
Redirect "C05.assumptions.4" Print Assumptions C05_source_tables.
Redirect "C05.assumptions.3" Print Assumptions C05_shape_level.
Redirect "C05.assumptions.2" Print Assumptions C05_parse_eval_named.
