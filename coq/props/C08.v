(* C08 - rejections are DLTypeErrors of the right kind with factually correct reports.
   In the model a rejection is a structured value ([dlerr]); the theorems say what it asserts is true:
   - [C08_first_failing_tensor]: the rejected tensor is preceded by a prefix of the queue that was accepted, and
     it is judged in the context that prefix established (first-come-first-correct);
   - [C08_tensor_report]: the report names that tensor (parameter name, name[i] for tuple element i>0, `return`,
     field name: [tensor_arg_name]) and is either the standalone check's report (rank / dtype / literal axis with
     the index in the actual tensor: C03_error_factual), a duplicate name, a group of another length, or an axis
     report: index i in the actual shape, actual = the size there, expected <> actual, and expected is the
     value the table holds for the axis' identifier or the value of its expression under the bindings established
     so far; an invalid-reference report names a key that is really unbound and really occurs in the expression;
   - the kind: EUnsupported comes only from [add] (a value that is not an array where one is required).
   Arithmetic exceptions from undefined expressions are not DLTypeErrors (known finding K1): the model returns
   DCrash for them and the correspondence check lists them. *)
From DL Require Import Base Lexer Parser Eval Shape Dtypes Check Context CtxSound CtxComplete Reports NoCrash.

Theorem C08_first_failing_tensor : forall q c e, assert_context c q = DRej e ->
  exists q1 t q2 c1, q = q1 ++ t :: q2 /\ assert_context c q1 = DOk c1 /\ assert_one c1 t = DRej e.
Proof. exact assert_context_reject. Qed.
Theorem C08_tensor_report : forall c t e, assert_one c t = DRej e -> tensor_report c t e.
Proof. exact assert_one_reject. Qed.
Theorem C08_axis_report : forall name sc idx d actual e, step_dim name sc idx d actual = DRej e -> axis_report name sc idx d actual e.
Proof. exact step_dim_reject. Qed.
Theorem C08_unsupported_only_from_add : forall c t, assert_one c t <> DRej EUnsupported.
Proof.
  intros c t H. apply assert_one_reject in H. unfold tensor_report in H.
  destruct H as [H|[_ [[H _]|[(ds & i & d & s & sc_i & _ & _ & _ & _ & [(v & H & _)|(k & H & _)])|(b & k & _ & _ & _ & H)]]]]; try discriminate.
  unfold check in H. destruct (check_rank _ _ _) as [[]|e|x] eqn:E1; cbn [dbind] in H.
  - destruct (dtype_accepted _ _ _); cbn [dbind] in H; [|discriminate].
    revert H. generalize (t_lits (a_ty (c_annot t))). induction l as [|[i v] l IH]; simpl; [discriminate|].
    destruct (nth_error _ _); [|discriminate]. destruct (z =? v)%Z; [exact IH|discriminate].
  - unfold check_rank in E1. destruct (t_mindex _); [destruct (_ <? _)|destruct (negb _)]; congruence.
  - discriminate.
Qed.
(* "For well-formed annotations and arbitrary array values the checker itself raises nothing but DLTypeErrors":
   what the model can raise besides them is exactly the arithmetic exceptions of undefined expressions - the
   listed known finding K1 (ZeroDivisionError, ValueError from isqrt, float overflow of huge negative powers). *)
Theorem C08_only_dltype_or_arithmetic : forall q c x, Forall (fun t => annot_parsed (c_annot t)) q ->
  assert_context c q = DCrash x -> arithmetic x.
Proof. exact assert_context_crash. Qed.
Example K1_is_real : exists c q x, Forall (fun t => annot_parsed (c_annot t)) q /\ assert_context c q = DCrash x.
Proof.
  destruct (parse_shape "a/b") as [ty|] eqn:E; [|discriminate].
  exists (ctx0 [("a", 1%Z); ("b", 0%Z)]),
         [{| c_idx := 0; c_name := "x"; c_tensor := {| x_lib := LNumpy; x_dt := KF32; x_shape := [1%Z] |};
             c_annot := {| a_ty := ty; a_dtypes := []; a_opt := false |} |}], ZeroDivErr.
  split; [constructor; [left; exists "a/b"; exact E|constructor]|].
  vm_compute in E. injection E as <-. vm_compute. reflexivity.
Qed.
Example tuple_element_is_named : 
  tensor_arg_name {| c_idx := 1; c_name := "x"; c_tensor := {| x_lib := LNumpy; x_dt := KF32; x_shape := [] |};
                     c_annot := {| a_ty := scalar_type; a_dtypes := []; a_opt := false |} |} = "x[1]".
Proof. reflexivity. Qed.
Redirect "C08.assumptions.1" Print Assumptions C08_first_failing_tensor.
Redirect "C08.assumptions.2" Print Assumptions C08_tensor_report.
Redirect "C08.assumptions.3" Print Assumptions C08_unsupported_only_from_add.
Redirect "C08.assumptions.4" Print Assumptions C08_only_dltype_or_arithmetic.
