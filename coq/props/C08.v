(* C08 - placeholder (DESIGN.md 7 C08). *)
From DL Require Import Base Context.
Example C08_placeholder : True. Proof. exact I. Qed.
