(* Denote.v - the arithmetic value of an expression of the grammar under a scope.
   Floor division, floor square root, min/max, powers; the undefined points are errors, never numbers.
   Evaluation order (which of two undefined operands is reported) is left to right, operands first. *)
From DL Require Import Base Eval Grammar.

Fixpoint den (e:expr) (sc:scope) : res Z :=
  match e with
  | Lit ds => Ok (lit_value ds)
  | Var x => match lookup x sc with Some v => Ok v | None => Err (KeyErr x) end
  | Bin o l r => do a <- den l sc; do b <- den r sc; eval_bin o a b
  | Fun1 o a => do v <- den a sc; eval_un v
  | Fun2 o a b => do x <- den a sc; do y <- den b sc; eval_bin o x y
  | Paren e => den e sc
  end.

(* the arithmetic meaning of the operators, stated without reference to eval_bin, for the cases where
   a value exists *)
Lemma eval_bin_spec o a b v : eval_bin o a b = Ok v ->
  match o with
  | ADD => v = (a + b)%Z | SUB => v = (a - b)%Z | MUL => v = (a * b)%Z
  | DIV => b <> 0%Z /\ (v * b <= a < v * b + b \/ v * b + b < a <= v * b)%Z   (* floor division *)
  | EXP => (0 <= b)%Z -> v = (a ^ b)%Z
  | MIN => v = Z.min a b | MAX => v = Z.max a b
  | ISQRT => False
  end.
Proof.
  destruct o; simpl; try (intros [= <-]; reflexivity); try discriminate.
  - unfold eval_pow. intros H Hb. apply Z.leb_le in Hb. rewrite Hb in H. congruence.
  - destruct (b =? 0)%Z eqn:E; [discriminate|]. intros [= <-]. apply Z.eqb_neq in E. split; auto.
    pose proof (Z.div_mod a b E) as H. pose proof (Z.mod_bound_or a b E) as H0.
    set (q := (a / b)%Z) in *. set (r := (a mod b)%Z) in *. nia.
Qed.
Lemma eval_un_spec b v : eval_un b = Ok v -> (0 <= b /\ v * v <= b < (v + 1) * (v + 1) /\ 0 <= v)%Z.
Proof.
  unfold eval_un. destruct (b <? 0)%Z eqn:E; [discriminate|]. intros [= <-]. apply Z.ltb_ge in E.
  pose proof (Z.sqrt_spec b E) as H. cbv zeta in H. pose proof (Z.sqrt_nonneg b). set (s := Z.sqrt b) in *. nia.
Qed.
