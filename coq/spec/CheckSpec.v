(* CheckSpec.v - what the standalone check is supposed to decide, stated without the index arithmetic of
   the implementation: axes left of the marker are read from the front of the actual shape, axes right of
   it from the back. *)
From DL Require Import Base Lexer Parser Eval Shape Dtypes Check.

Definition declared (ty:ttype) : nat := length (t_shape ty).
Definition rank_ok (ty:ttype) (r:nat) : Prop :=
  match t_mindex ty with
  | Some _ => declared ty - 1 <= r          (* the marker absorbs zero or more axes *)
  | None => r = declared ty
  end.
(* the size the tensor has at declared position idx *)
Definition size_at (ty:ttype) (shape:list Z) (idx:nat) : option Z :=
  match t_mindex ty with
  | Some m => if m <? idx then nth_error (rev shape) (declared ty - 1 - idx)   (* from the back *)
              else nth_error shape idx                                        (* from the front *)
  | None => nth_error shape idx
  end.
Definition literals_ok (ty:ttype) (shape:list Z) : Prop :=
  Forall (fun p => size_at ty shape (fst p) = Some (snd p)) (t_lits ty).
(* shape of well-formed annotation objects: literal positions are declared positions other than the marker *)
Definition wf_ttype (ty:ttype) : Prop :=
  Forall (fun p => fst p < declared ty /\ t_mindex ty <> Some (fst p)) (t_lits ty) /\
  match t_mindex ty with Some m => m < declared ty | None => True end.
