(* DtypeSpec.v - the documented dtype categories of the exported tensor classes (README "Supported Types").
   Written by hand from the documentation, independent of the DTYPES tuples in the code.
   numpy and jax arrays carry numpy dtypes; bfloat16 is claimed for torch arrays only; long double exists
   only as a numpy dtype. *)
From DL Require Import Base Dtypes.

Definition is_torch (l:lib) : bool := match l with LTorch => true | _ => false end.
Definition k_in (d:adtype) (l:list adtype) : bool := existsb (adtype_eqb d) l.
Definition signed_kinds := [KI8; KI16; KI32; KI64].
Definition unsigned_kinds := [KU8; KU16; KU32; KU64].
Definition documented (c:cls) (l:lib) (d:adtype) : bool :=
  match c with
  | CTensorTypeBase => true
  | CFloat => k_in d [KF16; KF32; KF64] || (adtype_eqb d KBF16 && is_torch l) || (adtype_eqb d KLongDouble && negb (is_torch l))
  | CFloat16 => adtype_eqb d KF16 || (adtype_eqb d KBF16 && is_torch l)
  | CIEEE754Half => adtype_eqb d KF16
  | CBFloat16 => adtype_eqb d KBF16 && is_torch l
  | CFloat32 => adtype_eqb d KF32
  | CFloat64 | CDouble => adtype_eqb d KF64
  | CInt => k_in d signed_kinds || k_in d unsigned_kinds
  | CSignedInt => k_in d signed_kinds
  | CUnsignedInt => k_in d unsigned_kinds
  | CInt8 => adtype_eqb d KI8 | CInt16 => adtype_eqb d KI16 | CInt32 => adtype_eqb d KI32 | CInt64 => adtype_eqb d KI64
  | CUInt8 => adtype_eqb d KU8 | CUInt16 => adtype_eqb d KU16 | CUInt32 => adtype_eqb d KU32 | CUInt64 => adtype_eqb d KU64
  | CBool => adtype_eqb d KBool
  end.
(* the dtypes the three libraries share *)
Definition shared (d:adtype) : bool := k_in d [KBool; KI8; KI16; KI32; KI64; KU8; KU16; KU32; KU64; KF16; KF32; KF64].
(* documented superset relations between classes *)
Definition documented_subclasses : list (cls * cls) :=
  [(CFloat16, CFloat); (CIEEE754Half, CFloat16); (CBFloat16, CFloat16); (CFloat32, CFloat); (CFloat64, CFloat); (CDouble, CFloat);
   (CSignedInt, CInt); (CUnsignedInt, CInt); (CInt8, CSignedInt); (CInt16, CSignedInt); (CInt32, CSignedInt); (CInt64, CSignedInt);
   (CUInt8, CUnsignedInt); (CUInt16, CUnsignedInt); (CUInt32, CUnsignedInt); (CUInt64, CUnsignedInt);
   (CFloat, CTensorTypeBase); (CInt, CTensorTypeBase); (CBool, CTensorTypeBase)].
