(* Grammar.v - the documented dimension-expression language, independent of the parsing algorithm.
   Literals are digit strings (their value is their decimal reading); precedence and left-to-right
   association are the well-formedness predicate [wf]. *)
From DL Require Import Base.

Inductive expr :=
| Lit (ds:string)                 (* a non-empty string of ASCII digits *)
| Var (x:string)
| Bin (o:op) (l r:expr)           (* l o r, o one of + - * / ^ *)
| Fun1 (o:op) (a:expr)            (* isqrt(a) *)
| Fun2 (o:op) (a b:expr)          (* min(a,b) max(a,b) *)
| Paren (e:expr).

(* [wf lv e]: e may stand where an operand of an operator of precedence lv-1 binding to the left is
   expected; ^ (3) above * / (2) above + - (1), operators of one level associate to the left. *)
Fixpoint wf (lv:nat) (e:expr) : Prop :=
  match e with
  | Lit _ | Var _ => True
  | Bin o l r => is_infix o = true /\ lv <= prec o /\ wf (prec o) l /\ wf (S (prec o)) r
  | Fun1 o a => is_unary o = true /\ wf 1 a
  | Fun2 o a b => is_binfun o = true /\ wf 1 a /\ wf 1 b
  | Paren e => wf 1 e
  end.
Definition reserved (s:string) : bool := String.eqb s "min" || String.eqb s "max" || String.eqb s "isqrt".
(* identifiers match the documented pattern and are not function names; literals are digit strings *)
Fixpoint names_ok (e:expr) : Prop :=
  match e with
  | Lit ds => isnumeric ds = true
  | Var x => valid_ident x = true /\ reserved x = false
  | Bin _ l r => names_ok l /\ names_ok r
  | Fun1 _ a => names_ok a
  | Fun2 _ a b => names_ok a /\ names_ok b
  | Paren e => names_ok e
  end.

Definition lit_value (ds:string) : Z := int_of_digits 0 ds.
(* token-level printing *)
Fixpoint print (e:expr) : list tok :=
  match e with
  | Lit ds => [TInt (lit_value ds)]
  | Var x => [TStr x]
  | Bin o l r => print l ++ TOp o :: print r
  | Fun1 o a => TOp o :: TLP :: print a ++ [TRP]
  | Fun2 o a b => TOp o :: TLP :: print a ++ TComma :: print b ++ [TRP]
  | Paren e => TLP :: print e ++ [TRP]
  end.
Definition op_string (o:op) : string :=
  match o with ADD => "+" | SUB => "-" | MUL => "*" | EXP => "^" | DIV => "/" | MIN => "min" | MAX => "max" | ISQRT => "isqrt" end.
(* character-level printing: the string a user writes *)
Fixpoint print_string (e:expr) : string :=
  match e with
  | Lit ds => ds
  | Var x => x
  | Bin o l r => String.append (print_string l) (String.append (op_string o) (print_string r))
  | Fun1 o a => String.append (op_string o) (String.append "(" (String.append (print_string a) ")"))
  | Fun2 o a b => String.append (op_string o) (String.append "(" (String.append (print_string a)
                     (String.append "," (String.append (print_string b) ")"))))
  | Paren e => String.append "(" (String.append (print_string e) ")")
  end.
(* the postfix program the grammar assigns to an expression *)
Fixpoint compile (e:expr) : list ptok :=
  match e with
  | Lit ds => [PInt (lit_value ds)]
  | Var x => [PName x]
  | Bin o l r => compile l ++ compile r ++ [POp o]
  | Fun1 o a => compile a ++ [POp o]
  | Fun2 o a b => compile a ++ compile b ++ [POp o]
  | Paren e => compile e
  end.
Fixpoint vars (e:expr) : list string :=
  match e with
  | Lit _ => [] | Var x => [x]
  | Bin _ l r => vars l ++ vars r
  | Fun1 _ a => vars a
  | Fun2 _ a b => vars a ++ vars b
  | Paren e => vars e
  end.
