
(** val negb : bool -> bool **)

let negb = function
| true -> false
| false -> true

type nat =
| O
| S of nat

(** val fst : ('a1 * 'a2) -> 'a1 **)

let fst = function
| (x, _) -> x

(** val snd : ('a1 * 'a2) -> 'a2 **)

let snd = function
| (_, y) -> y

(** val length : 'a1 list -> nat **)

let rec length = function
| [] -> O
| _ :: l' -> S (length l')

(** val app : 'a1 list -> 'a1 list -> 'a1 list **)

let rec app l m =
  match l with
  | [] -> m
  | a :: l1 -> a :: (app l1 m)

type comparison =
| Eq
| Lt
| Gt

(** val compOpp : comparison -> comparison **)

let compOpp = function
| Eq -> Eq
| Lt -> Gt
| Gt -> Lt

type uint =
| Nil
| D0 of uint
| D1 of uint
| D2 of uint
| D3 of uint
| D4 of uint
| D5 of uint
| D6 of uint
| D7 of uint
| D8 of uint
| D9 of uint

type signed_int =
| Pos of uint
| Neg of uint

(** val revapp : uint -> uint -> uint **)

let rec revapp d d' =
  match d with
  | Nil -> d'
  | D0 d0 -> revapp d0 (D0 d')
  | D1 d0 -> revapp d0 (D1 d')
  | D2 d0 -> revapp d0 (D2 d')
  | D3 d0 -> revapp d0 (D3 d')
  | D4 d0 -> revapp d0 (D4 d')
  | D5 d0 -> revapp d0 (D5 d')
  | D6 d0 -> revapp d0 (D6 d')
  | D7 d0 -> revapp d0 (D7 d')
  | D8 d0 -> revapp d0 (D8 d')
  | D9 d0 -> revapp d0 (D9 d')

(** val rev : uint -> uint **)

let rev d =
  revapp d Nil

module Little =
 struct
  (** val succ : uint -> uint **)

  let rec succ = function
  | Nil -> D1 Nil
  | D0 d0 -> D1 d0
  | D1 d0 -> D2 d0
  | D2 d0 -> D3 d0
  | D3 d0 -> D4 d0
  | D4 d0 -> D5 d0
  | D5 d0 -> D6 d0
  | D6 d0 -> D7 d0
  | D7 d0 -> D8 d0
  | D8 d0 -> D9 d0
  | D9 d0 -> D0 (succ d0)

  (** val double : uint -> uint **)

  let rec double = function
  | Nil -> Nil
  | D0 d0 -> D0 (double d0)
  | D1 d0 -> D2 (double d0)
  | D2 d0 -> D4 (double d0)
  | D3 d0 -> D6 (double d0)
  | D4 d0 -> D8 (double d0)
  | D5 d0 -> D0 (succ_double d0)
  | D6 d0 -> D2 (succ_double d0)
  | D7 d0 -> D4 (succ_double d0)
  | D8 d0 -> D6 (succ_double d0)
  | D9 d0 -> D8 (succ_double d0)

  (** val succ_double : uint -> uint **)

  and succ_double = function
  | Nil -> D1 Nil
  | D0 d0 -> D1 (double d0)
  | D1 d0 -> D3 (double d0)
  | D2 d0 -> D5 (double d0)
  | D3 d0 -> D7 (double d0)
  | D4 d0 -> D9 (double d0)
  | D5 d0 -> D1 (succ_double d0)
  | D6 d0 -> D3 (succ_double d0)
  | D7 d0 -> D5 (succ_double d0)
  | D8 d0 -> D7 (succ_double d0)
  | D9 d0 -> D9 (succ_double d0)
 end

module Coq__1 = struct
 (** val add : nat -> nat -> nat **)
 let rec add n0 m =
   match n0 with
   | O -> m
   | S p -> S (add p m)
end
include Coq__1

(** val sub : nat -> nat -> nat **)

let rec sub n0 m =
  match n0 with
  | O -> n0
  | S k -> (match m with
            | O -> n0
            | S l -> sub k l)

type positive =
| XI of positive
| XO of positive
| XH

type n =
| N0
| Npos of positive

type z =
| Z0
| Zpos of positive
| Zneg of positive

(** val eqb : bool -> bool -> bool **)

let eqb b1 b2 =
  if b1 then b2 else if b2 then false else true

module Nat =
 struct
  (** val eqb : nat -> nat -> bool **)

  let rec eqb n0 m =
    match n0 with
    | O -> (match m with
            | O -> true
            | S _ -> false)
    | S n' -> (match m with
               | O -> false
               | S m' -> eqb n' m')

  (** val leb : nat -> nat -> bool **)

  let rec leb n0 m =
    match n0 with
    | O -> true
    | S n' -> (match m with
               | O -> false
               | S m' -> leb n' m')

  (** val ltb : nat -> nat -> bool **)

  let ltb n0 m =
    leb (S n0) m

  (** val to_little_uint : nat -> uint -> uint **)

  let rec to_little_uint n0 acc =
    match n0 with
    | O -> acc
    | S n1 -> to_little_uint n1 (Little.succ acc)

  (** val to_uint : nat -> uint **)

  let to_uint n0 =
    rev (to_little_uint n0 (D0 Nil))
 end

module Pos =
 struct
  type mask =
  | IsNul
  | IsPos of positive
  | IsNeg
 end

module Coq_Pos =
 struct
  (** val succ : positive -> positive **)

  let rec succ = function
  | XI p -> XO (succ p)
  | XO p -> XI p
  | XH -> XO XH

  (** val add : positive -> positive -> positive **)

  let rec add x y =
    match x with
    | XI p ->
      (match y with
       | XI q -> XO (add_carry p q)
       | XO q -> XI (add p q)
       | XH -> XO (succ p))
    | XO p ->
      (match y with
       | XI q -> XI (add p q)
       | XO q -> XO (add p q)
       | XH -> XI p)
    | XH -> (match y with
             | XI q -> XO (succ q)
             | XO q -> XI q
             | XH -> XO XH)

  (** val add_carry : positive -> positive -> positive **)

  and add_carry x y =
    match x with
    | XI p ->
      (match y with
       | XI q -> XI (add_carry p q)
       | XO q -> XO (add_carry p q)
       | XH -> XI (succ p))
    | XO p ->
      (match y with
       | XI q -> XO (add_carry p q)
       | XO q -> XI (add p q)
       | XH -> XO (succ p))
    | XH ->
      (match y with
       | XI q -> XI (succ q)
       | XO q -> XO (succ q)
       | XH -> XI XH)

  (** val pred_double : positive -> positive **)

  let rec pred_double = function
  | XI p -> XI (XO p)
  | XO p -> XI (pred_double p)
  | XH -> XH

  type mask = Pos.mask =
  | IsNul
  | IsPos of positive
  | IsNeg

  (** val succ_double_mask : mask -> mask **)

  let succ_double_mask = function
  | IsNul -> IsPos XH
  | IsPos p -> IsPos (XI p)
  | IsNeg -> IsNeg

  (** val double_mask : mask -> mask **)

  let double_mask = function
  | IsPos p -> IsPos (XO p)
  | x0 -> x0

  (** val double_pred_mask : positive -> mask **)

  let double_pred_mask = function
  | XI p -> IsPos (XO (XO p))
  | XO p -> IsPos (XO (pred_double p))
  | XH -> IsNul

  (** val sub_mask : positive -> positive -> mask **)

  let rec sub_mask x y =
    match x with
    | XI p ->
      (match y with
       | XI q -> double_mask (sub_mask p q)
       | XO q -> succ_double_mask (sub_mask p q)
       | XH -> IsPos (XO p))
    | XO p ->
      (match y with
       | XI q -> succ_double_mask (sub_mask_carry p q)
       | XO q -> double_mask (sub_mask p q)
       | XH -> IsPos (pred_double p))
    | XH -> (match y with
             | XH -> IsNul
             | _ -> IsNeg)

  (** val sub_mask_carry : positive -> positive -> mask **)

  and sub_mask_carry x y =
    match x with
    | XI p ->
      (match y with
       | XI q -> succ_double_mask (sub_mask_carry p q)
       | XO q -> double_mask (sub_mask p q)
       | XH -> IsPos (pred_double p))
    | XO p ->
      (match y with
       | XI q -> double_mask (sub_mask_carry p q)
       | XO q -> succ_double_mask (sub_mask_carry p q)
       | XH -> double_pred_mask p)
    | XH -> IsNeg

  (** val mul : positive -> positive -> positive **)

  let rec mul x y =
    match x with
    | XI p -> add y (XO (mul p y))
    | XO p -> XO (mul p y)
    | XH -> y

  (** val iter : ('a1 -> 'a1) -> 'a1 -> positive -> 'a1 **)

  let rec iter f x = function
  | XI n' -> f (iter f (iter f x n') n')
  | XO n' -> iter f (iter f x n') n'
  | XH -> f x

  (** val compare_cont : comparison -> positive -> positive -> comparison **)

  let rec compare_cont r x y =
    match x with
    | XI p ->
      (match y with
       | XI q -> compare_cont r p q
       | XO q -> compare_cont Gt p q
       | XH -> Gt)
    | XO p ->
      (match y with
       | XI q -> compare_cont Lt p q
       | XO q -> compare_cont r p q
       | XH -> Gt)
    | XH -> (match y with
             | XH -> r
             | _ -> Lt)

  (** val compare : positive -> positive -> comparison **)

  let compare =
    compare_cont Eq

  (** val eqb : positive -> positive -> bool **)

  let rec eqb p q =
    match p with
    | XI p0 -> (match q with
                | XI q0 -> eqb p0 q0
                | _ -> false)
    | XO p0 -> (match q with
                | XO q0 -> eqb p0 q0
                | _ -> false)
    | XH -> (match q with
             | XH -> true
             | _ -> false)

  (** val leb : positive -> positive -> bool **)

  let leb x y =
    match compare x y with
    | Gt -> false
    | _ -> true

  (** val sqrtrem_step :
      (positive -> positive) -> (positive -> positive) -> (positive * mask)
      -> positive * mask **)

  let sqrtrem_step f g = function
  | (s, y) ->
    (match y with
     | IsPos r ->
       let s' = XI (XO s) in
       let r' = g (f r) in
       if leb s' r' then ((XI s), (sub_mask r' s')) else ((XO s), (IsPos r'))
     | _ -> ((XO s), (sub_mask (g (f XH)) (XO (XO XH)))))

  (** val sqrtrem : positive -> positive * mask **)

  let rec sqrtrem = function
  | XI p0 ->
    (match p0 with
     | XI p1 -> sqrtrem_step (fun x -> XI x) (fun x -> XI x) (sqrtrem p1)
     | XO p1 -> sqrtrem_step (fun x -> XO x) (fun x -> XI x) (sqrtrem p1)
     | XH -> (XH, (IsPos (XO XH))))
  | XO p0 ->
    (match p0 with
     | XI p1 -> sqrtrem_step (fun x -> XI x) (fun x -> XO x) (sqrtrem p1)
     | XO p1 -> sqrtrem_step (fun x -> XO x) (fun x -> XO x) (sqrtrem p1)
     | XH -> (XH, (IsPos XH)))
  | XH -> (XH, IsNul)

  (** val sqrt : positive -> positive **)

  let sqrt p =
    fst (sqrtrem p)

  (** val iter_op : ('a1 -> 'a1 -> 'a1) -> positive -> 'a1 -> 'a1 **)

  let rec iter_op op0 p a =
    match p with
    | XI p0 -> op0 a (iter_op op0 p0 (op0 a a))
    | XO p0 -> iter_op op0 p0 (op0 a a)
    | XH -> a

  (** val to_nat : positive -> nat **)

  let to_nat x =
    iter_op Coq__1.add x (S O)

  (** val of_succ_nat : nat -> positive **)

  let rec of_succ_nat = function
  | O -> XH
  | S x -> succ (of_succ_nat x)

  (** val to_little_uint : positive -> uint **)

  let rec to_little_uint = function
  | XI p0 -> Little.succ_double (to_little_uint p0)
  | XO p0 -> Little.double (to_little_uint p0)
  | XH -> D1 Nil

  (** val to_uint : positive -> uint **)

  let to_uint p =
    rev (to_little_uint p)
 end

module N =
 struct
  (** val add : n -> n -> n **)

  let add n0 m =
    match n0 with
    | N0 -> m
    | Npos p -> (match m with
                 | N0 -> n0
                 | Npos q -> Npos (Coq_Pos.add p q))

  (** val mul : n -> n -> n **)

  let mul n0 m =
    match n0 with
    | N0 -> N0
    | Npos p -> (match m with
                 | N0 -> N0
                 | Npos q -> Npos (Coq_Pos.mul p q))

  (** val to_nat : n -> nat **)

  let to_nat = function
  | N0 -> O
  | Npos p -> Coq_Pos.to_nat p

  (** val of_nat : nat -> n **)

  let of_nat = function
  | O -> N0
  | S n' -> Npos (Coq_Pos.of_succ_nat n')
 end

module Z =
 struct
  (** val double : z -> z **)

  let double = function
  | Z0 -> Z0
  | Zpos p -> Zpos (XO p)
  | Zneg p -> Zneg (XO p)

  (** val succ_double : z -> z **)

  let succ_double = function
  | Z0 -> Zpos XH
  | Zpos p -> Zpos (XI p)
  | Zneg p -> Zneg (Coq_Pos.pred_double p)

  (** val pred_double : z -> z **)

  let pred_double = function
  | Z0 -> Zneg XH
  | Zpos p -> Zpos (Coq_Pos.pred_double p)
  | Zneg p -> Zneg (XI p)

  (** val pos_sub : positive -> positive -> z **)

  let rec pos_sub x y =
    match x with
    | XI p ->
      (match y with
       | XI q -> double (pos_sub p q)
       | XO q -> succ_double (pos_sub p q)
       | XH -> Zpos (XO p))
    | XO p ->
      (match y with
       | XI q -> pred_double (pos_sub p q)
       | XO q -> double (pos_sub p q)
       | XH -> Zpos (Coq_Pos.pred_double p))
    | XH ->
      (match y with
       | XI q -> Zneg (XO q)
       | XO q -> Zneg (Coq_Pos.pred_double q)
       | XH -> Z0)

  (** val add : z -> z -> z **)

  let add x y =
    match x with
    | Z0 -> y
    | Zpos x' ->
      (match y with
       | Z0 -> x
       | Zpos y' -> Zpos (Coq_Pos.add x' y')
       | Zneg y' -> pos_sub x' y')
    | Zneg x' ->
      (match y with
       | Z0 -> x
       | Zpos y' -> pos_sub y' x'
       | Zneg y' -> Zneg (Coq_Pos.add x' y'))

  (** val opp : z -> z **)

  let opp = function
  | Z0 -> Z0
  | Zpos x0 -> Zneg x0
  | Zneg x0 -> Zpos x0

  (** val sub : z -> z -> z **)

  let sub m n0 =
    add m (opp n0)

  (** val mul : z -> z -> z **)

  let mul x y =
    match x with
    | Z0 -> Z0
    | Zpos x' ->
      (match y with
       | Z0 -> Z0
       | Zpos y' -> Zpos (Coq_Pos.mul x' y')
       | Zneg y' -> Zneg (Coq_Pos.mul x' y'))
    | Zneg x' ->
      (match y with
       | Z0 -> Z0
       | Zpos y' -> Zneg (Coq_Pos.mul x' y')
       | Zneg y' -> Zpos (Coq_Pos.mul x' y'))

  (** val pow_pos : z -> positive -> z **)

  let pow_pos z0 =
    Coq_Pos.iter (mul z0) (Zpos XH)

  (** val pow : z -> z -> z **)

  let pow x = function
  | Z0 -> Zpos XH
  | Zpos p -> pow_pos x p
  | Zneg _ -> Z0

  (** val compare : z -> z -> comparison **)

  let compare x y =
    match x with
    | Z0 -> (match y with
             | Z0 -> Eq
             | Zpos _ -> Lt
             | Zneg _ -> Gt)
    | Zpos x' -> (match y with
                  | Zpos y' -> Coq_Pos.compare x' y'
                  | _ -> Gt)
    | Zneg x' ->
      (match y with
       | Zneg y' -> compOpp (Coq_Pos.compare x' y')
       | _ -> Lt)

  (** val leb : z -> z -> bool **)

  let leb x y =
    match compare x y with
    | Gt -> false
    | _ -> true

  (** val ltb : z -> z -> bool **)

  let ltb x y =
    match compare x y with
    | Lt -> true
    | _ -> false

  (** val eqb : z -> z -> bool **)

  let eqb x y =
    match x with
    | Z0 -> (match y with
             | Z0 -> true
             | _ -> false)
    | Zpos p -> (match y with
                 | Zpos q -> Coq_Pos.eqb p q
                 | _ -> false)
    | Zneg p -> (match y with
                 | Zneg q -> Coq_Pos.eqb p q
                 | _ -> false)

  (** val max : z -> z -> z **)

  let max n0 m =
    match compare n0 m with
    | Lt -> m
    | _ -> n0

  (** val min : z -> z -> z **)

  let min n0 m =
    match compare n0 m with
    | Gt -> m
    | _ -> n0

  (** val abs : z -> z **)

  let abs = function
  | Zneg p -> Zpos p
  | x -> x

  (** val of_nat : nat -> z **)

  let of_nat = function
  | O -> Z0
  | S n1 -> Zpos (Coq_Pos.of_succ_nat n1)

  (** val to_int : z -> signed_int **)

  let to_int = function
  | Z0 -> Pos (D0 Nil)
  | Zpos p -> Pos (Coq_Pos.to_uint p)
  | Zneg p -> Neg (Coq_Pos.to_uint p)

  (** val pos_div_eucl : positive -> z -> z * z **)

  let rec pos_div_eucl a b =
    match a with
    | XI a' ->
      let (q, r) = pos_div_eucl a' b in
      let r' = add (mul (Zpos (XO XH)) r) (Zpos XH) in
      if ltb r' b
      then ((mul (Zpos (XO XH)) q), r')
      else ((add (mul (Zpos (XO XH)) q) (Zpos XH)), (sub r' b))
    | XO a' ->
      let (q, r) = pos_div_eucl a' b in
      let r' = mul (Zpos (XO XH)) r in
      if ltb r' b
      then ((mul (Zpos (XO XH)) q), r')
      else ((add (mul (Zpos (XO XH)) q) (Zpos XH)), (sub r' b))
    | XH -> if leb (Zpos (XO XH)) b then (Z0, (Zpos XH)) else ((Zpos XH), Z0)

  (** val div_eucl : z -> z -> z * z **)

  let div_eucl a b =
    match a with
    | Z0 -> (Z0, Z0)
    | Zpos a' ->
      (match b with
       | Z0 -> (Z0, a)
       | Zpos _ -> pos_div_eucl a' b
       | Zneg b' ->
         let (q, r) = pos_div_eucl a' (Zpos b') in
         (match r with
          | Z0 -> ((opp q), Z0)
          | _ -> ((opp (add q (Zpos XH))), (add b r))))
    | Zneg a' ->
      (match b with
       | Z0 -> (Z0, a)
       | Zpos _ ->
         let (q, r) = pos_div_eucl a' b in
         (match r with
          | Z0 -> ((opp q), Z0)
          | _ -> ((opp (add q (Zpos XH))), (sub b r)))
       | Zneg b' -> let (q, r) = pos_div_eucl a' (Zpos b') in (q, (opp r)))

  (** val div : z -> z -> z **)

  let div a b =
    let (q, _) = div_eucl a b in q

  (** val even : z -> bool **)

  let even = function
  | Z0 -> true
  | Zpos p -> (match p with
               | XO _ -> true
               | _ -> false)
  | Zneg p -> (match p with
               | XO _ -> true
               | _ -> false)

  (** val sqrt : z -> z **)

  let sqrt = function
  | Zpos p -> Zpos (Coq_Pos.sqrt p)
  | _ -> Z0
 end

(** val nth_error : 'a1 list -> nat -> 'a1 option **)

let rec nth_error l = function
| O -> (match l with
        | [] -> None
        | x :: _ -> Some x)
| S n1 -> (match l with
           | [] -> None
           | _ :: l0 -> nth_error l0 n1)

(** val rev0 : 'a1 list -> 'a1 list **)

let rec rev0 = function
| [] -> []
| x :: l' -> app (rev0 l') (x :: [])

(** val map : ('a1 -> 'a2) -> 'a1 list -> 'a2 list **)

let rec map f = function
| [] -> []
| a :: t -> (f a) :: (map f t)

(** val existsb : ('a1 -> bool) -> 'a1 list -> bool **)

let rec existsb f = function
| [] -> false
| a :: l0 -> (||) (f a) (existsb f l0)

(** val forallb : ('a1 -> bool) -> 'a1 list -> bool **)

let rec forallb f = function
| [] -> true
| a :: l0 -> (&&) (f a) (forallb f l0)

(** val firstn : nat -> 'a1 list -> 'a1 list **)

let rec firstn n0 l =
  match n0 with
  | O -> []
  | S n1 -> (match l with
             | [] -> []
             | a :: l0 -> a :: (firstn n1 l0))

(** val skipn : nat -> 'a1 list -> 'a1 list **)

let rec skipn n0 l =
  match n0 with
  | O -> l
  | S n1 -> (match l with
             | [] -> []
             | _ :: l0 -> skipn n1 l0)

(** val zero : char **)

let zero = '\000'

(** val one : char **)

let one = '\001'

(** val shift : bool -> char -> char **)

let shift = fun b c -> Char.chr (((Char.code c) lsl 1) land 255 + if b then 1 else 0)

(** val ascii_of_pos : positive -> char **)

let ascii_of_pos =
  let rec loop n0 p =
    match n0 with
    | O -> zero
    | S n' ->
      (match p with
       | XI p' -> shift true (loop n' p')
       | XO p' -> shift false (loop n' p')
       | XH -> one)
  in loop (S (S (S (S (S (S (S (S O))))))))

(** val ascii_of_N : n -> char **)

let ascii_of_N = function
| N0 -> zero
| Npos p -> ascii_of_pos p

(** val ascii_of_nat : nat -> char **)

let ascii_of_nat a =
  ascii_of_N (N.of_nat a)

(** val n_of_digits : bool list -> n **)

let rec n_of_digits = function
| [] -> N0
| b :: l' ->
  N.add (if b then Npos XH else N0) (N.mul (Npos (XO XH)) (n_of_digits l'))

(** val n_of_ascii : char -> n **)

let n_of_ascii a =
  (* If this appears, you're using Ascii internals. Please don't *)
 (fun f c ->
  let n = Char.code c in
  let h i = (n land (1 lsl i)) <> 0 in
  f (h 0) (h 1) (h 2) (h 3) (h 4) (h 5) (h 6) (h 7))
    (fun a0 a1 a2 a3 a4 a5 a6 a7 ->
    n_of_digits
      (a0 :: (a1 :: (a2 :: (a3 :: (a4 :: (a5 :: (a6 :: (a7 :: [])))))))))
    a

(** val nat_of_ascii : char -> nat **)

let nat_of_ascii a =
  N.to_nat (n_of_ascii a)

(** val eqb0 : char list -> char list -> bool **)

let rec eqb0 s1 s2 =
  match s1 with
  | [] -> (match s2 with
           | [] -> true
           | _::_ -> false)
  | c1::s1' ->
    (match s2 with
     | [] -> false
     | c2::s2' -> if (=) c1 c2 then eqb0 s1' s2' else false)

(** val append : char list -> char list -> char list **)

let rec append s1 s2 =
  match s1 with
  | [] -> s2
  | c::s1' -> c::(append s1' s2)

type op =
| ADD
| SUB
| MUL
| EXP
| DIV
| MIN
| MAX
| ISQRT

type tok =
| TInt of z
| TStr of char list
| TOp of op
| TEq
| TLP
| TRP
| TComma

type ptok =
| PInt of z
| PName of char list
| POp of op

type exn =
| SyntaxErr
| ValueErr
| IndexErr
| KeyErr of char list
| ZeroDivErr
| OverflowErr
| TypeErr
| RecursionErr
| Unmodelled

type 'a res =
| Ok of 'a
| Err of exn

(** val bind : 'a1 res -> ('a1 -> 'a2 res) -> 'a2 res **)

let bind r f =
  match r with
  | Ok a -> f a
  | Err e -> Err e

(** val prec : op -> nat **)

let prec = function
| ADD -> S O
| SUB -> S O
| MUL -> S (S O)
| EXP -> S (S (S O))
| DIV -> S (S O)
| ISQRT -> S (S (S (S (S O))))
| _ -> S (S (S (S O)))

(** val prec_lparen : nat **)

let prec_lparen =
  S (S (S (S (S (S O)))))

(** val is_unary : op -> bool **)

let is_unary = function
| ISQRT -> true
| _ -> false

(** val is_binfun : op -> bool **)

let is_binfun = function
| MIN -> true
| MAX -> true
| _ -> false

(** val is_fun : op -> bool **)

let is_fun o =
  (||) (is_unary o) (is_binfun o)

(** val is_infix : op -> bool **)

let is_infix o =
  negb (is_fun o)

(** val is_digit : char -> bool **)

let is_digit c =
  let n0 = nat_of_ascii c in
  (&&)
    (Nat.leb (S (S (S (S (S (S (S (S (S (S (S (S (S (S (S (S (S (S (S (S (S
      (S (S (S (S (S (S (S (S (S (S (S (S (S (S (S (S (S (S (S (S (S (S (S (S
      (S (S (S O)))))))))))))))))))))))))))))))))))))))))))))))) n0)
    (Nat.leb n0 (S (S (S (S (S (S (S (S (S (S (S (S (S (S (S (S (S (S (S (S
      (S (S (S (S (S (S (S (S (S (S (S (S (S (S (S (S (S (S (S (S (S (S (S (S
      (S (S (S (S (S (S (S (S (S (S (S (S (S
      O))))))))))))))))))))))))))))))))))))))))))))))))))))))))))

(** val is_alpha : char -> bool **)

let is_alpha c =
  let n0 = nat_of_ascii c in
  (||)
    ((&&)
      (Nat.leb (S (S (S (S (S (S (S (S (S (S (S (S (S (S (S (S (S (S (S (S (S
        (S (S (S (S (S (S (S (S (S (S (S (S (S (S (S (S (S (S (S (S (S (S (S
        (S (S (S (S (S (S (S (S (S (S (S (S (S (S (S (S (S (S (S (S (S
        O))))))))))))))))))))))))))))))))))))))))))))))))))))))))))))))))) n0)
      (Nat.leb n0 (S (S (S (S (S (S (S (S (S (S (S (S (S (S (S (S (S (S (S (S
        (S (S (S (S (S (S (S (S (S (S (S (S (S (S (S (S (S (S (S (S (S (S (S
        (S (S (S (S (S (S (S (S (S (S (S (S (S (S (S (S (S (S (S (S (S (S (S
        (S (S (S (S (S (S (S (S (S (S (S (S (S (S (S (S (S (S (S (S (S (S (S
        (S
        O))))))))))))))))))))))))))))))))))))))))))))))))))))))))))))))))))))))))))))))))))))))))))))
    ((&&)
      (Nat.leb (S (S (S (S (S (S (S (S (S (S (S (S (S (S (S (S (S (S (S (S (S
        (S (S (S (S (S (S (S (S (S (S (S (S (S (S (S (S (S (S (S (S (S (S (S
        (S (S (S (S (S (S (S (S (S (S (S (S (S (S (S (S (S (S (S (S (S (S (S
        (S (S (S (S (S (S (S (S (S (S (S (S (S (S (S (S (S (S (S (S (S (S (S
        (S (S (S (S (S (S (S
        O)))))))))))))))))))))))))))))))))))))))))))))))))))))))))))))))))))))))))))))))))))))))))))))))))
        n0)
      (Nat.leb n0 (S (S (S (S (S (S (S (S (S (S (S (S (S (S (S (S (S (S (S (S
        (S (S (S (S (S (S (S (S (S (S (S (S (S (S (S (S (S (S (S (S (S (S (S
        (S (S (S (S (S (S (S (S (S (S (S (S (S (S (S (S (S (S (S (S (S (S (S
        (S (S (S (S (S (S (S (S (S (S (S (S (S (S (S (S (S (S (S (S (S (S (S
        (S (S (S (S (S (S (S (S (S (S (S (S (S (S (S (S (S (S (S (S (S (S (S
        (S (S (S (S (S (S (S (S (S (S
        O))))))))))))))))))))))))))))))))))))))))))))))))))))))))))))))))))))))))))))))))))))))))))))))))))))))))))))))))))))))))))))

(** val is_identchar : char -> bool **)

let is_identchar c =
  (||) ((||) (is_alpha c) (is_digit c)) ((=) c '_')

(** val all_chars : (char -> bool) -> char list -> bool **)

let rec all_chars p = function
| [] -> true
| c::r -> (&&) (p c) (all_chars p r)

(** val isnumeric : char list -> bool **)

let isnumeric s = match s with
| [] -> false
| _::_ -> all_chars is_digit s

(** val int_of_digits : z -> char list -> z **)

let rec int_of_digits acc = function
| [] -> acc
| c::r ->
  int_of_digits
    (Z.add (Z.mul (Zpos (XO (XI (XO XH)))) acc)
      (Z.of_nat
        (sub (nat_of_ascii c) (S (S (S (S (S (S (S (S (S (S (S (S (S (S (S (S
          (S (S (S (S (S (S (S (S (S (S (S (S (S (S (S (S (S (S (S (S (S (S
          (S (S (S (S (S (S (S (S (S (S
          O))))))))))))))))))))))))))))))))))))))))))))))))))) r

(** val valid_ident : char list -> bool **)

let valid_ident = function
| [] -> false
| c::r -> (&&) (is_alpha c) (all_chars is_identchar r)

type scope = (char list * z) list

(** val lookup : char list -> scope -> z option **)

let rec lookup k = function
| [] -> None
| p :: r -> let (a, v) = p in if eqb0 a k then Some v else lookup k r

(** val mem : char list -> scope -> bool **)

let mem k sc =
  match lookup k sc with
  | Some _ -> true
  | None -> false

(** val sc_bind : char list -> z -> scope -> scope **)

let sc_bind k v sc =
  app sc ((k, v) :: [])

(** val char_tok : char -> tok option **)

let char_tok c =
  if (=) c '+'
  then Some (TOp ADD)
  else if (=) c '-'
       then Some (TOp SUB)
       else if (=) c '*'
            then Some (TOp MUL)
            else if (=) c '^'
                 then Some (TOp EXP)
                 else if (=) c '/'
                      then Some (TOp DIV)
                      else if (=) c '='
                           then Some TEq
                           else if (=) c '('
                                then Some TLP
                                else if (=) c ')'
                                     then Some TRP
                                     else if (=) c ','
                                          then Some TComma
                                          else None

(** val span_tok : char list -> tok **)

let span_tok s =
  if eqb0 s ('m'::('i'::('n'::[])))
  then TOp MIN
  else if eqb0 s ('m'::('a'::('x'::[])))
       then TOp MAX
       else if eqb0 s ('i'::('s'::('q'::('r'::('t'::[])))))
            then TOp ISQRT
            else if isnumeric s then TInt (int_of_digits Z0 s) else TStr s

(** val flush_span : char list -> tok list -> tok list **)

let flush_span span acc =
  if eqb0 span [] then acc else (span_tok span) :: acc

(** val lex : char list -> char list -> tok list -> tok list res **)

let rec lex s span acc =
  match s with
  | [] -> Ok (rev0 (flush_span span acc))
  | c::r ->
    if (=) c ' '
    then Err SyntaxErr
    else (match char_tok c with
          | Some t -> lex r [] (t :: (flush_span span acc))
          | None -> lex r (append span (c::[])) acc)

(** val count_valid : tok list -> nat -> nat -> (nat * nat) res **)

let rec count_valid ts nexp nact =
  match ts with
  | [] -> Ok (nexp, nact)
  | t :: r ->
    (match t with
     | TInt _ -> count_valid r nexp (S nact)
     | TStr _ -> count_valid r nexp (S nact)
     | TOp o ->
       if is_unary o
       then count_valid r (S nexp) (S nact)
       else count_valid r (S (S nexp)) (S nact)
     | TEq -> Err SyntaxErr
     | _ -> count_valid r nexp nact)

(** val assert_token_list_valid : tok list -> unit res **)

let assert_token_list_valid ts = match ts with
| [] -> Err SyntaxErr
| t :: l ->
  (match t with
   | TInt _ ->
     (match l with
      | [] -> Ok ()
      | _ :: _ ->
        bind (count_valid (rev0 ts) (S O) O) (fun p ->
          let (e, a) = p in if Nat.eqb e a then Ok () else Err SyntaxErr))
   | TStr _ ->
     (match l with
      | [] -> Ok ()
      | _ :: _ ->
        bind (count_valid (rev0 ts) (S O) O) (fun p ->
          let (e, a) = p in if Nat.eqb e a then Ok () else Err SyntaxErr))
   | TOp o ->
     (match o with
      | ADD ->
        bind (count_valid (rev0 ts) (S O) O) (fun p ->
          let (e, a) = p in if Nat.eqb e a then Ok () else Err SyntaxErr)
      | SUB ->
        bind (count_valid (rev0 ts) (S O) O) (fun p ->
          let (e, a) = p in if Nat.eqb e a then Ok () else Err SyntaxErr)
      | MUL ->
        (match l with
         | [] ->
           bind (count_valid (rev0 ts) (S O) O) (fun p ->
             let (e, a) = p in if Nat.eqb e a then Ok () else Err SyntaxErr)
         | t0 :: l0 ->
           (match t0 with
            | TInt _ ->
              bind (count_valid (rev0 ts) (S O) O) (fun p ->
                let (e, a) = p in if Nat.eqb e a then Ok () else Err SyntaxErr)
            | TStr _ ->
              (match l0 with
               | [] -> Ok ()
               | _ :: _ ->
                 bind (count_valid (rev0 ts) (S O) O) (fun p ->
                   let (e, a) = p in
                   if Nat.eqb e a then Ok () else Err SyntaxErr))
            | TOp _ ->
              bind (count_valid (rev0 ts) (S O) O) (fun p ->
                let (e, a) = p in if Nat.eqb e a then Ok () else Err SyntaxErr)
            | TEq ->
              bind (count_valid (rev0 ts) (S O) O) (fun p ->
                let (e, a) = p in if Nat.eqb e a then Ok () else Err SyntaxErr)
            | TLP ->
              bind (count_valid (rev0 ts) (S O) O) (fun p ->
                let (e, a) = p in if Nat.eqb e a then Ok () else Err SyntaxErr)
            | TRP ->
              bind (count_valid (rev0 ts) (S O) O) (fun p ->
                let (e, a) = p in if Nat.eqb e a then Ok () else Err SyntaxErr)
            | TComma ->
              bind (count_valid (rev0 ts) (S O) O) (fun p ->
                let (e, a) = p in if Nat.eqb e a then Ok () else Err SyntaxErr)))
      | EXP ->
        bind (count_valid (rev0 ts) (S O) O) (fun p ->
          let (e, a) = p in if Nat.eqb e a then Ok () else Err SyntaxErr)
      | DIV ->
        bind (count_valid (rev0 ts) (S O) O) (fun p ->
          let (e, a) = p in if Nat.eqb e a then Ok () else Err SyntaxErr)
      | MIN ->
        bind (count_valid (rev0 ts) (S O) O) (fun p ->
          let (e, a) = p in if Nat.eqb e a then Ok () else Err SyntaxErr)
      | MAX ->
        bind (count_valid (rev0 ts) (S O) O) (fun p ->
          let (e, a) = p in if Nat.eqb e a then Ok () else Err SyntaxErr)
      | ISQRT ->
        bind (count_valid (rev0 ts) (S O) O) (fun p ->
          let (e, a) = p in if Nat.eqb e a then Ok () else Err SyntaxErr))
   | TEq ->
     bind (count_valid (rev0 ts) (S O) O) (fun p ->
       let (e, a) = p in if Nat.eqb e a then Ok () else Err SyntaxErr)
   | TLP ->
     bind (count_valid (rev0 ts) (S O) O) (fun p ->
       let (e, a) = p in if Nat.eqb e a then Ok () else Err SyntaxErr)
   | TRP ->
     bind (count_valid (rev0 ts) (S O) O) (fun p ->
       let (e, a) = p in if Nat.eqb e a then Ok () else Err SyntaxErr)
   | TComma ->
     bind (count_valid (rev0 ts) (S O) O) (fun p ->
       let (e, a) = p in if Nat.eqb e a then Ok () else Err SyntaxErr))

(** val tokenize : char list -> tok list res **)

let tokenize s =
  bind (lex s [] []) (fun ts ->
    bind (assert_token_list_valid ts) (fun _ -> Ok ts))

(** val ggi :
    tok list -> nat -> z -> nat option -> nat list -> (nat option * nat
    list) * nat option **)

let rec ggi ts idx depth lp commas =
  match ts with
  | [] -> ((lp, commas), None)
  | t :: r ->
    (match t with
     | TLP ->
       let depth' = Z.add depth (Zpos XH) in
       let lp' = if Z.eqb depth' (Zpos XH) then Some idx else lp in
       ggi r (S idx) depth' lp' commas
     | TRP ->
       if Z.eqb depth (Zpos XH)
       then ((lp, commas), (Some idx))
       else ggi r (S idx) (Z.sub depth (Zpos XH)) lp commas
     | TComma ->
       if Z.eqb depth (Zpos XH)
       then ggi r (S idx) depth lp (app commas (idx :: []))
       else ggi r (S idx) depth lp commas
     | _ -> ggi r (S idx) depth lp commas)

(** val get_group : tok list -> ((nat * nat list) * nat) res **)

let get_group ts =
  let (p, o) = ggi ts O Z0 None [] in
  let (o0, cs) = p in
  (match o0 with
   | Some l ->
     (match o with
      | Some r ->
        if (||) (Nat.ltb r l)
             (existsb (fun c -> (||) (Nat.ltb c l) (Nat.ltb r c)) cs)
        then Err SyntaxErr
        else Ok ((l, cs), r)
      | None -> Err SyntaxErr)
   | None -> Err SyntaxErr)

(** val flush : op list -> ptok list -> nat -> op list * ptok list **)

let rec flush stack post p =
  match stack with
  | [] -> (stack, post)
  | o :: r ->
    if Nat.leb p (prec o)
    then flush r (app post ((POp o) :: [])) p
    else (stack, post)

(** val slice : tok list -> nat -> nat -> tok list **)

let slice l a b =
  firstn (sub b a) (skipn a l)

(** val tok_is_infix : tok -> bool **)

let tok_is_infix = function
| TOp o -> is_infix o
| _ -> false

(** val args :
    (tok list -> op list -> ptok list -> bool -> ptok list res) -> tok list
    -> nat list -> nat -> ptok list -> ptok list res **)

let rec args rec0 ts bs lhs po =
  match bs with
  | [] -> Ok po
  | b :: bs' ->
    bind (rec0 (slice ts (S lhs) b) [] [] true) (fun d ->
      args rec0 ts bs' b (app po d))

(** val pfi_body :
    (tok list -> op list -> ptok list -> bool -> ptok list res) -> tok list
    -> op list -> ptok list -> bool -> ptok list res **)

let pfi_body rec0 ts stack post expect =
  match ts with
  | [] ->
    if expect
    then Err SyntaxErr
    else Ok (app post (map (fun x -> POp x) stack))
  | t :: r ->
    if eqb (tok_is_infix t) expect
    then Err SyntaxErr
    else (match t with
          | TInt z0 -> rec0 r stack (app post ((PInt z0) :: [])) false
          | TStr s ->
            if valid_ident s
            then rec0 r stack (app post ((PName s) :: [])) false
            else Err SyntaxErr
          | TOp o ->
            if is_infix o
            then let (st, po) = flush stack post (prec o) in
                 rec0 r (o :: st) po true
            else let (st, po) = flush stack post (prec o) in
                 bind (get_group ts) (fun g ->
                   let (p, rp) = g in
                   let (l, cs) = p in
                   if negb (Nat.eqb l (S O))
                   then Err SyntaxErr
                   else if (&&) (is_binfun o)
                             (negb (Nat.eqb (length cs) (S O)))
                        then Err SyntaxErr
                        else if (&&) (is_unary o)
                                  (negb (Nat.eqb (length cs) O))
                             then Err SyntaxErr
                             else bind
                                    (args rec0 ts (app cs (rp :: [])) l po)
                                    (fun po' ->
                                    rec0 (skipn (S rp) ts) (o :: st) po' false))
          | TLP ->
            let (st, po) = flush stack post prec_lparen in
            bind (get_group ts) (fun g ->
              let (p, rp) = g in
              let (l, cs) = p in
              if negb (Nat.eqb (length cs) O)
              then Err SyntaxErr
              else bind (rec0 (slice ts (S l) rp) [] [] true) (fun d ->
                     rec0 (skipn (S rp) ts) st (app po d) false))
          | _ -> Err SyntaxErr)

(** val pfi :
    nat -> tok list -> op list -> ptok list -> bool -> ptok list res **)

let rec pfi = function
| O -> (fun _ _ _ _ -> Err RecursionErr)
| S f -> pfi_body (pfi f)

(** val postfix_from_infix : tok list -> ptok list res **)

let postfix_from_infix ts =
  pfi (S (length ts)) ts [] [] true

type dimexpr = { d_ident : char list; d_post : ptok list; d_literal : 
                 bool; d_identifier : bool; d_expression : bool;
                 d_mlit : bool; d_anon : bool; d_named : bool }

(** val ptok_is_int : ptok -> bool **)

let ptok_is_int = function
| PInt _ -> true
| _ -> false

(** val ptok_is_name : char list -> ptok -> bool **)

let ptok_is_name s = function
| PName x -> eqb0 x s
| _ -> false

(** val mk_dimexpr :
    char list -> ptok list -> bool -> bool -> bool -> dimexpr res **)

let mk_dimexpr ident post mlit0 anon named =
  let lit = (&&) (negb mlit0) (forallb ptok_is_int post) in
  let isid =
    (||) ((||) mlit0 named)
      (match post with
       | [] -> false
       | p :: l ->
         (match p with
          | PName x -> (match l with
                        | [] -> eqb0 x ident
                        | _ :: _ -> false)
          | _ -> false))
  in
  let inpost = existsb (ptok_is_name ident) post in
  let isexpr =
    (&&) (negb ((&&) isid lit))
      ((||) (Nat.ltb (S O) (length post)) (negb inpost))
  in
  if (&&) isexpr inpost
  then Err SyntaxErr
  else Ok { d_ident = ident; d_post = post; d_literal = lit; d_identifier =
         isid; d_expression = isexpr; d_mlit = mlit0; d_anon = anon;
         d_named = named }

(** val maybe_multiaxis : char list -> tok list -> dimexpr res option **)

let maybe_multiaxis ident = function
| [] -> None
| t :: l ->
  (match t with
   | TStr s ->
     (match l with
      | [] ->
        if eqb0 s ('.'::('.'::('.'::[])))
        then Some (mk_dimexpr ident [] false true false)
        else None
      | _ :: _ -> None)
   | TOp o ->
     (match o with
      | MUL ->
        (match l with
         | [] -> None
         | t0 :: l0 ->
           (match t0 with
            | TStr s ->
              (match l0 with
               | [] ->
                 if valid_ident s
                 then Some (mk_dimexpr s ((PName s) :: []) false false true)
                 else Some (Err SyntaxErr)
               | _ :: _ -> None)
            | _ -> None))
      | _ -> None)
   | _ -> None)

(** val split_eq :
    char list -> char list -> (char list * char list) option **)

let rec split_eq s acc =
  match s with
  | [] -> None
  | c::r ->
    if (=) c '=' then Some (acc, r) else split_eq r (append acc (c::[]))

(** val expression_from_string : char list -> dimexpr res **)

let expression_from_string s =
  if eqb0 s []
  then Err SyntaxErr
  else (match split_eq s [] with
        | Some p ->
          let (i, b) = p in
          let p0 = (true, i) in
          let (named, ident) = p0 in
          if (&&) named (negb (valid_ident ident))
          then Err SyntaxErr
          else bind (tokenize b) (fun ts ->
                 match maybe_multiaxis ident ts with
                 | Some r -> if named then Err SyntaxErr else r
                 | None ->
                   bind (postfix_from_infix ts) (fun post ->
                     bind (mk_dimexpr ident post false false false) (fun d ->
                       if (&&) named (existsb (ptok_is_name ident) post)
                       then Err SyntaxErr
                       else Ok d)))
        | None ->
          let p = (false, s) in
          let (named, ident) = p in
          if (&&) named (negb (valid_ident ident))
          then Err SyntaxErr
          else bind (tokenize s) (fun ts ->
                 match maybe_multiaxis ident ts with
                 | Some r -> if named then Err SyntaxErr else r
                 | None ->
                   bind (postfix_from_infix ts) (fun post ->
                     bind (mk_dimexpr ident post false false false) (fun d ->
                       if (&&) named (existsb (ptok_is_name ident) post)
                       then Err SyntaxErr
                       else Ok d))))

(** val eval_pow : z -> z -> z res **)

let eval_pow a b =
  if Z.leb Z0 b
  then Ok (Z.pow a b)
  else if (||)
            (Z.leb
              (Z.pow (Zpos (XO XH)) (Zpos (XO (XO (XO (XI (XO (XI (XI (XI (XI
                XH))))))))))) (Z.abs a))
            (Z.leb
              (Z.pow (Zpos (XO XH)) (Zpos (XO (XO (XO (XI (XO (XI (XI (XI (XI
                XH))))))))))) (Z.abs b))
       then Err Unmodelled
       else if Z.eqb a Z0
            then Err ZeroDivErr
            else if Z.eqb a (Zpos XH)
                 then Ok (Zpos XH)
                 else if Z.eqb a (Zneg XH)
                      then Ok (if Z.even b then Zpos XH else Zneg XH)
                      else Ok Z0

(** val eval_bin : op -> z -> z -> z res **)

let eval_bin o a b =
  match o with
  | ADD -> Ok (Z.add a b)
  | SUB -> Ok (Z.sub a b)
  | MUL -> Ok (Z.mul a b)
  | EXP -> eval_pow a b
  | DIV -> if Z.eqb b Z0 then Err ZeroDivErr else Ok (Z.div a b)
  | MIN -> Ok (Z.min a b)
  | MAX -> Ok (Z.max a b)
  | ISQRT -> Err Unmodelled

(** val eval_un : z -> z res **)

let eval_un b =
  if Z.ltb b Z0 then Err ValueErr else Ok (Z.sqrt b)

(** val eval_post : ptok list -> scope -> z list -> z res **)

let rec eval_post p sc st =
  match p with
  | [] ->
    (match st with
     | [] -> Err ValueErr
     | v :: l -> (match l with
                  | [] -> Ok v
                  | _ :: _ -> Err ValueErr))
  | p0 :: r ->
    (match p0 with
     | PInt z0 -> eval_post r sc (z0 :: st)
     | PName x ->
       (match lookup x sc with
        | Some v -> eval_post r sc (v :: st)
        | None -> Err (KeyErr x))
     | POp o ->
       (match st with
        | [] -> Err IndexErr
        | b :: st1 ->
          if is_unary o
          then bind (eval_un b) (fun v -> eval_post r sc (v :: st1))
          else (match st1 with
                | [] -> Err IndexErr
                | a :: st2 ->
                  bind (eval_bin o a b) (fun v -> eval_post r sc (v :: st2)))))

(** val evaluate : dimexpr -> scope -> bool -> z res **)

let evaluate d sc use_cached =
  if d.d_anon
  then Err ValueErr
  else (match if use_cached then lookup d.d_ident sc else None with
        | Some v -> Ok v
        | None -> eval_post d.d_post sc [])

(** val split_ws :
    char list -> char list -> char list list -> char list list **)

let rec split_ws s cur acc =
  match s with
  | [] -> rev0 (if eqb0 cur [] then acc else cur :: acc)
  | c::r ->
    if (=) c ' '
    then split_ws r [] (if eqb0 cur [] then acc else cur :: acc)
    else split_ws r (append cur (c::[])) acc

type ttype = { t_shape : dimexpr list; t_mindex : nat option;
               t_mname : char list option; t_anon : bool;
               t_lits : (nat * z) list }

(** val parse_dims :
    char list list -> nat -> dimexpr list -> nat option -> char list option
    -> bool -> nat -> ((((dimexpr list * nat option) * char list
    option) * bool) * nat) res **)

let rec parse_dims ds i acc mi mn an cnt =
  match ds with
  | [] -> Ok (((((rev0 acc), mi), mn), an), cnt)
  | s :: r ->
    bind (expression_from_string s) (fun d ->
      let ism = (||) d.d_named d.d_anon in
      parse_dims r (S i) (d :: acc) (if ism then Some i else mi)
        (if ism then if d.d_named then Some d.d_ident else None else mn)
        ((||) an d.d_anon) (if ism then S cnt else cnt))

(** val lits : dimexpr list -> nat -> nat option -> (nat * z) list res **)

let rec lits ds i mi =
  match ds with
  | [] -> Ok []
  | d :: r ->
    let skip = match mi with
               | Some m -> Nat.eqb m i
               | None -> false in
    if (&&) d.d_literal (negb skip)
    then bind (evaluate d [] true) (fun v ->
           bind (lits r (S i) mi) (fun rest -> Ok ((i, v) :: rest)))
    else lits r (S i) mi

(** val parse_shape : char list -> ttype res **)

let parse_shape s =
  let parts = split_ws s [] [] in
  (match parts with
   | [] -> Err SyntaxErr
   | _ :: _ ->
     bind (parse_dims parts O [] None None false O) (fun p ->
       let (p0, cnt) = p in
       let (p1, an) = p0 in
       let (p2, mn) = p1 in
       let (ds, mi) = p2 in
       if Nat.ltb (S O) cnt
       then Err SyntaxErr
       else bind (lits ds O mi) (fun ls -> Ok { t_shape = ds; t_mindex = mi;
              t_mname = mn; t_anon = an; t_lits = ls })))

(** val scalar_type : ttype **)

let scalar_type =
  { t_shape = []; t_mindex = None; t_mname = None; t_anon = false; t_lits =
    [] }

type lib =
| LNumpy
| LTorch
| LJax

type adtype =
| KBool
| KI8
| KI16
| KI32
| KI64
| KU8
| KU16
| KU32
| KU64
| KF16
| KBF16
| KF32
| KF64
| KLongDouble
| KC64
| KC128
| KF8E4M3
| KF8E5M2
| KOther

type dtok =
| NP of adtype
| TO of adtype

(** val adtype_eqb : adtype -> adtype -> bool **)

let adtype_eqb a b =
  match a with
  | KBool -> (match b with
              | KBool -> true
              | _ -> false)
  | KI8 -> (match b with
            | KI8 -> true
            | _ -> false)
  | KI16 -> (match b with
             | KI16 -> true
             | _ -> false)
  | KI32 -> (match b with
             | KI32 -> true
             | _ -> false)
  | KI64 -> (match b with
             | KI64 -> true
             | _ -> false)
  | KU8 -> (match b with
            | KU8 -> true
            | _ -> false)
  | KU16 -> (match b with
             | KU16 -> true
             | _ -> false)
  | KU32 -> (match b with
             | KU32 -> true
             | _ -> false)
  | KU64 -> (match b with
             | KU64 -> true
             | _ -> false)
  | KF16 -> (match b with
             | KF16 -> true
             | _ -> false)
  | KBF16 -> (match b with
              | KBF16 -> true
              | _ -> false)
  | KF32 -> (match b with
             | KF32 -> true
             | _ -> false)
  | KF64 -> (match b with
             | KF64 -> true
             | _ -> false)
  | KLongDouble -> (match b with
                    | KLongDouble -> true
                    | _ -> false)
  | KC64 -> (match b with
             | KC64 -> true
             | _ -> false)
  | KC128 -> (match b with
              | KC128 -> true
              | _ -> false)
  | KF8E4M3 -> (match b with
                | KF8E4M3 -> true
                | _ -> false)
  | KF8E5M2 -> (match b with
                | KF8E5M2 -> true
                | _ -> false)
  | KOther -> (match b with
               | KOther -> true
               | _ -> false)

(** val dtype_eq : lib -> adtype -> dtok -> bool **)

let dtype_eq l d e =
  match l with
  | LTorch -> (match e with
               | NP _ -> false
               | TO k -> adtype_eqb d k)
  | _ -> (match e with
          | NP k -> adtype_eqb d k
          | TO _ -> false)

(** val dtype_accepted : dtok list -> lib -> adtype -> bool **)

let dtype_accepted dtypes l d =
  match dtypes with
  | [] -> true
  | _ :: _ -> existsb (dtype_eq l d) dtypes

type tensor = { x_lib : lib; x_dt : adtype; x_shape : z list }

type annot = { a_ty : ttype; a_dtypes : dtok list; a_opt : bool }

type dlerr =
| ENDims of char list * nat * nat
| EDtype of char list
| EShape of char list * nat * z * z
| EInvalidRef of char list * char list * char list list
| EUnsupported
| EDuplicate of char list
| EScopeProvider

type 'a dres =
| DOk of 'a
| DRej of dlerr
| DCrash of exn

(** val dbind : 'a1 dres -> ('a1 -> 'a2 dres) -> 'a2 dres **)

let dbind r f =
  match r with
  | DOk a -> f a
  | DRej e -> DRej e
  | DCrash x -> DCrash x

(** val check_rank : ttype -> nat -> char list -> unit dres **)

let check_rank ty r name =
  let n0 = length ty.t_shape in
  (match ty.t_mindex with
   | Some _ ->
     if Nat.ltb r (sub n0 (S O))
     then DRej (ENDims (name, (sub n0 (S O)), r))
     else DOk ()
   | None ->
     if negb (Nat.eqb r n0) then DRej (ENDims (name, n0, r)) else DOk ())

(** val adjust_idx : ttype -> nat -> nat -> nat **)

let adjust_idx ty r idx =
  match ty.t_mindex with
  | Some m ->
    if Nat.ltb m idx then sub (add idx r) (length ty.t_shape) else idx
  | None -> idx

(** val check_lits :
    ttype -> z list -> (nat * z) list -> char list -> unit dres **)

let rec check_lits ty shape ls name =
  match ls with
  | [] -> DOk ()
  | p :: rest ->
    let (idx, v) = p in
    let adj = adjust_idx ty (length shape) idx in
    (match nth_error shape adj with
     | Some s ->
       if Z.eqb s v
       then check_lits ty shape rest name
       else DRej (EShape (name, adj, v, s))
     | None -> DCrash IndexErr)

(** val check : annot -> tensor -> char list -> unit dres **)

let check a x name =
  dbind (check_rank a.a_ty (length x.x_shape) name) (fun _ ->
    dbind
      (if dtype_accepted a.a_dtypes x.x_lib x.x_dt
       then DOk ()
       else DRej (EDtype name)) (fun _ ->
      check_lits a.a_ty x.x_shape a.a_ty.t_lits name))

module NilEmpty =
 struct
  (** val string_of_uint : uint -> char list **)

  let rec string_of_uint = function
  | Nil -> []
  | D0 d0 -> '0'::(string_of_uint d0)
  | D1 d0 -> '1'::(string_of_uint d0)
  | D2 d0 -> '2'::(string_of_uint d0)
  | D3 d0 -> '3'::(string_of_uint d0)
  | D4 d0 -> '4'::(string_of_uint d0)
  | D5 d0 -> '5'::(string_of_uint d0)
  | D6 d0 -> '6'::(string_of_uint d0)
  | D7 d0 -> '7'::(string_of_uint d0)
  | D8 d0 -> '8'::(string_of_uint d0)
  | D9 d0 -> '9'::(string_of_uint d0)
 end

module NilZero =
 struct
  (** val string_of_uint : uint -> char list **)

  let string_of_uint d = match d with
  | Nil -> '0'::[]
  | _ -> NilEmpty.string_of_uint d

  (** val string_of_int : signed_int -> char list **)

  let string_of_int = function
  | Pos d0 -> string_of_uint d0
  | Neg d0 -> '-'::(string_of_uint d0)
 end

type value =
| VNone
| VArr of tensor
| VTuple of value list
| VOther

(** val string_of_nat : nat -> char list **)

let string_of_nat n0 =
  NilEmpty.string_of_uint (Nat.to_uint n0)

(** val indexed_name : char list -> nat -> char list **)

let indexed_name name i =
  append name (append ('['::[]) (append (string_of_nat i) (']'::[])))

type concrete = { c_idx : nat; c_name : char list; c_tensor : tensor;
                  c_annot : annot }

(** val tensor_arg_name : concrete -> char list **)

let tensor_arg_name c =
  if Nat.ltb O c.c_idx then indexed_name c.c_name c.c_idx else c.c_name

type ctx = { table : scope; regs : char list list;
             glens : (char list * nat) list }

(** val ctx0 : scope -> ctx **)

let ctx0 sc =
  { table = sc; regs = []; glens = [] }

(** val add_loop :
    char list -> nat -> annot option list -> value list -> concrete list ->
    concrete list dres **)

let rec add_loop name idx anns vals q =
  match anns with
  | [] -> (match vals with
           | [] -> DOk q
           | _ :: _ -> DCrash ValueErr)
  | a :: anns' ->
    (match vals with
     | [] -> DCrash ValueErr
     | v :: vals' ->
       (match a with
        | Some an ->
          (match v with
           | VNone ->
             if an.a_opt
             then add_loop name (S idx) anns' vals' q
             else DRej EUnsupported
           | VArr x ->
             add_loop name (S idx) anns' vals'
               (app q ({ c_idx = idx; c_name = name; c_tensor = x; c_annot =
                 an } :: []))
           | _ -> DRej EUnsupported)
        | None -> add_loop name (S idx) anns' vals' q))

(** val ctx_add :
    char list -> value list -> annot option list option -> concrete list ->
    concrete list dres **)

let ctx_add name vals anns q =
  match anns with
  | Some l -> add_loop name O l vals q
  | None -> DOk q

(** val mlit : char list -> z -> bool -> dimexpr **)

let mlit ident v anon =
  { d_ident = ident; d_post = ((PInt v) :: []); d_literal = false;
    d_identifier = true; d_expression = true; d_mlit = true; d_anon = anon;
    d_named = false }

(** val mname_str : ttype -> char list **)

let mname_str ty =
  match ty.t_mname with
  | Some s -> s
  | None -> 'N'::('o'::('n'::('e'::[])))

(** val mlits : ttype -> z list -> nat -> nat -> nat -> dimexpr list res **)

let rec mlits ty shape m i = function
| O -> Ok []
| S k ->
  (match nth_error shape (add m i) with
   | Some v ->
     bind (mlits ty shape m (S i) k) (fun rest -> Ok
       ((mlit (indexed_name (mname_str ty) i) v ty.t_anon) :: rest))
   | None -> Err IndexErr)

(** val expected_shape : ttype -> z list -> dimexpr list res **)

let expected_shape ty shape =
  match ty.t_mindex with
  | Some m ->
    let off = sub (add (length shape) (S O)) (length ty.t_shape) in
    bind (mlits ty shape m O off) (fun ms -> Ok
      (app (firstn m ty.t_shape) (app ms (skipn (S m) ty.t_shape))))
  | None -> Ok ty.t_shape

(** val needs_recheck : dimexpr -> scope -> bool **)

let needs_recheck d sc =
  (&&) ((&&) ((&&) (mem d.d_ident sc) d.d_expression) (negb d.d_identifier))
    (negb d.d_literal)

(** val expected_values : dimexpr -> scope -> z list res **)

let expected_values d sc =
  bind (evaluate d sc true) (fun v1 ->
    if needs_recheck d sc
    then bind (evaluate d sc false) (fun v2 -> Ok (v1 :: (v2 :: [])))
    else Ok (v1 :: []))

(** val first_mismatch : z list -> z -> z option **)

let rec first_mismatch vs actual =
  match vs with
  | [] -> None
  | v :: r -> if Z.eqb v actual then first_mismatch r actual else Some v

(** val step_dim : char list -> scope -> nat -> dimexpr -> z -> scope dres **)

let step_dim name sc idx d actual =
  if d.d_anon
  then DOk sc
  else let id = d.d_ident in
       if (&&) d.d_literal (negb (mem id sc))
       then DOk (if isnumeric id then sc else sc_bind id actual sc)
       else if (&&) d.d_identifier (negb (mem id sc))
            then DOk (sc_bind id actual sc)
            else (match expected_values d sc with
                  | Ok vs ->
                    (match first_mismatch vs actual with
                     | Some v -> DRej (EShape (name, idx, v, actual))
                     | None ->
                       DOk (if mem id sc then sc else sc_bind id actual sc))
                  | Err x ->
                    (match x with
                     | KeyErr k -> DRej (EInvalidRef (name, k, (map fst sc)))
                     | _ -> DCrash x))

(** val assert_dims :
    char list -> scope -> nat -> dimexpr list -> z list -> scope dres **)

let rec assert_dims name sc idx ds shape =
  match ds with
  | [] -> DOk sc
  | d :: ds' ->
    (match shape with
     | [] -> DCrash IndexErr
     | s :: shape' ->
       dbind (step_dim name sc idx d s) (fun sc1 ->
         assert_dims name sc1 (S idx) ds' shape'))

(** val glookup : char list -> (char list * nat) list -> nat option **)

let rec glookup k = function
| [] -> None
| p :: r -> let (a, v) = p in if eqb0 a k then Some v else glookup k r

(** val assert_mlen :
    char list -> ttype -> nat -> (char list * nat) list -> (char list * nat)
    list dres **)

let assert_mlen name ty r g =
  match ty.t_mname with
  | Some b ->
    let nfixed = sub (length ty.t_shape) (S O) in
    (match glookup b g with
     | Some k ->
       if negb (Nat.eqb r (add nfixed k))
       then DRej (ENDims (name, (add nfixed k), r))
       else DOk g
     | None -> DOk (app g ((b, (sub r nfixed)) :: [])))
  | None -> DOk g

(** val assert_one : ctx -> concrete -> ctx dres **)

let assert_one c t =
  let name = tensor_arg_name t in
  let x = t.c_tensor in
  let ty = t.c_annot.a_ty in
  dbind (check t.c_annot x name) (fun _ ->
    if existsb (eqb0 name) c.regs
    then DRej (EDuplicate name)
    else (match expected_shape ty x.x_shape with
          | Ok ds ->
            dbind (assert_dims name c.table O ds x.x_shape) (fun sc ->
              dbind (assert_mlen name ty (length x.x_shape) c.glens)
                (fun g -> DOk { table = sc; regs = (app c.regs (name :: []));
                glens = g }))
          | Err e -> DCrash e))

(** val assert_context : ctx -> concrete list -> ctx dres **)

let rec assert_context c = function
| [] -> DOk c
| t :: q' -> dbind (assert_one c t) (fun c1 -> assert_context c1 q')

type item = (char list * value list) * annot option list option

(** val add_items : item list -> concrete list -> concrete list dres **)

let rec add_items its q =
  match its with
  | [] -> DOk q
  | i :: r ->
    let (p, anns) = i in
    let (n0, vs) = p in
    dbind (ctx_add n0 vs anns q) (fun q1 -> add_items r q1)

(** val run_ctx : ctx -> item list -> ctx dres **)

let run_ctx c its =
  dbind (add_items its []) (fun q -> assert_context c q)

type base =
| BSupported
| BUnsupported

type hint =
| HPlain
| HAnnOther
| HAnn of base * annot
| HUnion of hint list
| HTuple of hint list

(** val set_opt : annot -> bool -> annot **)

let set_opt a o =
  { a_ty = a.a_ty; a_dtypes = a.a_dtypes; a_opt = o }

(** val from_hint : hint -> bool -> (bool * annot option list) res **)

let rec from_hint h optional =
  match h with
  | HAnn (b, a) ->
    (match b with
     | BSupported -> Ok (false, ((Some (set_opt a optional)) :: []))
     | BUnsupported -> Err TypeErr)
  | HUnion alts ->
    (match alts with
     | [] -> Err TypeErr
     | t :: l -> (match l with
                  | [] -> from_hint t true
                  | _ :: _ -> Err TypeErr))
  | HTuple elts ->
    let rec go = function
    | [] -> Ok (true, [])
    | e :: es' ->
      bind (from_hint e false) (fun p ->
        bind (go es') (fun r -> Ok (true, (app (snd p) (snd r)))))
    in go elts
  | _ -> Ok (false, (None :: []))

(** val is_none : 'a1 option -> bool **)

let is_none = function
| Some _ -> false
| None -> true

(** val resolve_types : annot option list -> annot option list option **)

let resolve_types anns =
  if forallb is_none anns then None else Some anns

(** val resolve_value : bool -> value -> value list res **)

let resolve_value is_tuple v =
  if is_tuple
  then (match v with
        | VArr _ -> Err Unmodelled
        | VTuple vs -> Ok vs
        | _ -> Err TypeErr)
  else Ok (v :: [])

type pspec =
| PNone
| PSelf
| PFree

type pstatus =
| PSOk of scope
| PSBad

type fn = { f_params : (char list * hint) list; f_ret : hint option;
            f_provider : pspec; f_is_method : bool }

type rhints = (char list * (bool * annot option list)) list

type wrapped = { w_params : rhints;
                 w_ret : (bool * annot option list) option; w_provider : 
                 pspec }

type decorated =
| DecIdentity
| DecWrapped of wrapped
| DecError of exn

(** val hints_of : (char list * hint) list -> rhints res **)

let rec hints_of = function
| [] -> Ok []
| p :: r ->
  let (n0, h) = p in
  bind (from_hint h false) (fun a ->
    bind (hints_of r) (fun rest -> Ok ((n0, a) :: rest)))

(** val all_none_hints : wrapped -> bool **)

let all_none_hints w =
  (&&) (forallb (fun p -> forallb is_none (snd (snd p))) w.w_params)
    (match w.w_ret with
     | Some r -> forallb is_none (snd r)
     | None -> true)

(** val ret_hints : fn -> (bool * annot option list) option res **)

let ret_hints f =
  match f.f_ret with
  | Some h -> bind (from_hint h false) (fun a -> Ok (Some a))
  | None -> Ok None

(** val decorate : bool -> fn -> decorated **)

let decorate enabled f =
  if negb enabled
  then DecIdentity
  else if match f.f_provider with
          | PSelf -> negb f.f_is_method
          | _ -> false
       then DecError TypeErr
       else (match hints_of f.f_params with
             | Ok ps ->
               (match ret_hints f with
                | Ok r ->
                  let w = { w_params = ps; w_ret = r; w_provider =
                    f.f_provider }
                  in
                  if all_none_hints w then DecIdentity else DecWrapped w
                | Err x -> DecError x)
             | Err x -> DecError x)

type bres =
| BReturn of value
| BRaise

type call_outcome =
| CReturned of value
| CRejected of dlerr
| CCrashed of exn
| CBodyRaised

(** val arg_lookup : char list -> (char list * value) list -> value option **)

let rec arg_lookup n0 = function
| [] -> None
| p :: r -> let (a, v) = p in if eqb0 a n0 then Some v else arg_lookup n0 r

(** val add_args :
    rhints -> (char list * value) list -> concrete list -> concrete list dres **)

let rec add_args ps args0 q =
  match ps with
  | [] -> DOk q
  | p :: r ->
    let (n0, p0) = p in
    let (is_tuple, anns) = p0 in
    if (||) (eqb0 n0 ('s'::('e'::('l'::('f'::[])))))
         (eqb0 n0 ('c'::('l'::('s'::[]))))
    then DCrash TypeErr
    else (match anns with
          | [] -> add_args r args0 q
          | _ :: _ ->
            (match arg_lookup n0 args0 with
             | Some v ->
               (match resolve_types anns with
                | Some ra ->
                  (match resolve_value is_tuple v with
                   | Ok vs ->
                     dbind (ctx_add n0 vs (Some ra) q) (fun q1 ->
                       add_args r args0 q1)
                   | Err x -> DCrash x)
                | None -> add_args r args0 q)
             | None -> DCrash (KeyErr n0)))

(** val initial_table : pspec -> pstatus -> scope dres **)

let initial_table p ps =
  match p with
  | PNone -> DOk []
  | _ -> (match ps with
          | PSOk sc -> DOk sc
          | PSBad -> DRej EScopeProvider)

(** val run_call :
    wrapped -> pstatus -> (char list * value) list -> bres ->
    bool * call_outcome **)

let run_call w ps args0 body =
  match initial_table w.w_provider ps with
  | DOk sc ->
    (match dbind (add_args w.w_params args0 []) (fun q ->
             assert_context (ctx0 sc) q) with
     | DOk c ->
       (match body with
        | BReturn v ->
          (match w.w_ret with
           | Some p ->
             let (is_tuple, anns) = p in
             (match resolve_types anns with
              | Some ra ->
                (match resolve_value is_tuple v with
                 | Ok vs ->
                   (match dbind
                            (ctx_add
                              ('r'::('e'::('t'::('u'::('r'::('n'::[])))))) vs
                              (Some ra) []) (fun q -> assert_context c q) with
                    | DOk _ -> (true, (CReturned v))
                    | DRej e -> (true, (CRejected e))
                    | DCrash x -> (true, (CCrashed x)))
                 | Err x -> (true, (CCrashed x)))
              | None -> (true, (CReturned v)))
           | None -> (true, (CReturned v)))
        | BRaise -> (true, CBodyRaised))
     | DRej e -> (false, (CRejected e))
     | DCrash x -> (false, (CCrashed x)))
  | DRej e -> (false, (CRejected e))
  | DCrash x -> (false, (CCrashed x))

(** val decorate_class : bool -> (char list * hint) list -> decorated **)

let decorate_class enabled fields =
  if negb enabled
  then DecIdentity
  else (match hints_of fields with
        | Ok ps ->
          (match ps with
           | [] -> DecIdentity
           | _ :: _ ->
             DecWrapped { w_params = ps; w_ret = None; w_provider = PNone })
        | Err x -> DecError x)

(** val add_fields :
    rhints -> (char list * value) list -> concrete list -> concrete list dres **)

let rec add_fields ps vals q =
  match ps with
  | [] -> DOk q
  | p :: r ->
    let (n0, p0) = p in
    let (is_tuple, anns) = p0 in
    (match arg_lookup n0 vals with
     | Some v ->
       (match resolve_types anns with
        | Some ra ->
          (match resolve_value is_tuple v with
           | Ok vs ->
             dbind (ctx_add n0 vs (Some ra) q) (fun q1 ->
               add_fields r vals q1)
           | Err x -> DCrash x)
        | None -> add_fields r vals q)
     | None -> DCrash (KeyErr n0))

(** val run_construct : rhints -> (char list * value) list -> ctx dres **)

let run_construct ps vals =
  dbind (add_fields ps vals []) (fun q -> assert_context (ctx0 []) q)

(** val validate_field : ctx -> char list -> annot -> tensor -> ctx dres **)

let validate_field c name a x =
  dbind (check a x name) (fun _ ->
    dbind (ctx_add name ((VArr x) :: []) (Some ((Some a) :: [])) [])
      (fun q -> assert_context c q))

(** val run_pydantic_from :
    ctx -> (char list * annot) list -> (char list * value) list -> ctx dres **)

let rec run_pydantic_from c fields vals =
  match fields with
  | [] -> DOk c
  | p :: r ->
    let (n0, a) = p in
    (match arg_lookup n0 vals with
     | Some v ->
       (match v with
        | VNone ->
          if a.a_opt then run_pydantic_from c r vals else DCrash Unmodelled
        | VArr x ->
          dbind (validate_field c n0 a x) (fun c1 ->
            run_pydantic_from c1 r vals)
        | _ -> DCrash Unmodelled)
     | None -> DCrash Unmodelled)

type sym =
| SLit of z
| SVar of char list
| SBin of op * sym * sym
| SIsqrt of sym
| SFun2 of op * sym * sym
| SGroup of sym

(** val string_of_Z : z -> char list **)

let string_of_Z z0 =
  NilZero.string_of_int (Z.to_int z0)

(** val op_str : op -> char list **)

let op_str = function
| ADD -> '+'::[]
| SUB -> '-'::[]
| MUL -> '*'::[]
| EXP -> '^'::[]
| DIV -> '/'::[]
| MIN -> 'm'::('i'::('n'::[]))
| MAX -> 'm'::('a'::('x'::[]))
| ISQRT -> 'i'::('s'::('q'::('r'::('t'::[]))))

(** val cat3 : char list -> char list -> char list -> char list **)

let cat3 a b c =
  append a (append b c)

(** val fold_bin : op -> z -> z -> z res **)

let fold_bin o a b =
  match o with
  | ADD -> Ok (Z.add a b)
  | SUB -> Ok (Z.sub a b)
  | MUL -> Ok (Z.mul a b)
  | EXP -> if Z.leb Z0 b then Ok (Z.pow a b) else Err Unmodelled
  | DIV -> if Z.eqb b Z0 then Err ZeroDivErr else Ok (Z.div a b)
  | MIN -> Ok (Z.min a b)
  | MAX -> Ok (Z.max a b)
  | ISQRT -> Err Unmodelled

(** val infix_prec : sym -> nat option **)

let infix_prec = function
| SBin (o, _, _) -> Some (prec o)
| _ -> None

(** val needs_paren : nat -> sym -> bool -> bool **)

let needs_paren parent operand is_rhs =
  match infix_prec operand with
  | Some p -> (||) (Nat.ltb p parent) ((&&) is_rhs (Nat.eqb p parent))
  | None -> false

(** val sprint : sym -> char list res **)

let rec sprint = function
| SLit z0 -> Ok (string_of_Z z0)
| SVar x -> Ok x
| SBin (o, l, r) ->
  (match l with
   | SLit a ->
     (match r with
      | SLit b -> bind (fold_bin o a b) (fun v -> Ok (string_of_Z v))
      | _ ->
        bind (sprint l) (fun sl ->
          bind (sprint r) (fun sr ->
            let sl' =
              if needs_paren (prec o) l false
              then cat3 ('('::[]) sl (')'::[])
              else sl
            in
            let sr' =
              if needs_paren (prec o) r true
              then cat3 ('('::[]) sr (')'::[])
              else sr
            in
            Ok (cat3 sl' (op_str o) sr'))))
   | _ ->
     bind (sprint l) (fun sl ->
       bind (sprint r) (fun sr ->
         let sl' =
           if needs_paren (prec o) l false
           then cat3 ('('::[]) sl (')'::[])
           else sl
         in
         let sr' =
           if needs_paren (prec o) r true
           then cat3 ('('::[]) sr (')'::[])
           else sr
         in
         Ok (cat3 sl' (op_str o) sr'))))
| SIsqrt a ->
  (match a with
   | SLit z0 -> bind (eval_un z0) (fun v -> Ok (string_of_Z v))
   | _ ->
     bind (sprint a) (fun sa -> Ok
       (cat3 ('i'::('s'::('q'::('r'::('t'::('('::[])))))) sa (')'::[]))))
| SFun2 (o, a, b) ->
  (match a with
   | SLit x ->
     (match b with
      | SLit y -> bind (fold_bin o x y) (fun v -> Ok (string_of_Z v))
      | _ ->
        bind (sprint a) (fun sa ->
          bind (sprint b) (fun sb -> Ok
            (append (op_str o)
              (cat3 ('('::[]) (cat3 sa (','::[]) sb) (')'::[]))))))
   | _ ->
     bind (sprint a) (fun sa ->
       bind (sprint b) (fun sb -> Ok
         (append (op_str o) (cat3 ('('::[]) (cat3 sa (','::[]) sb) (')'::[]))))))
| SGroup a -> bind (sprint a) (fun sa -> Ok (cat3 ('('::[]) sa (')'::[])))

(** val pyden : sym -> scope -> z res **)

let rec pyden s sc =
  match s with
  | SLit z0 -> Ok z0
  | SVar x -> (match lookup x sc with
               | Some v -> Ok v
               | None -> Err (KeyErr x))
  | SBin (o, l, r) ->
    bind (pyden l sc) (fun a -> bind (pyden r sc) (fun b -> eval_bin o a b))
  | SIsqrt a -> bind (pyden a sc) eval_un
  | SFun2 (o, a, b) ->
    bind (pyden a sc) (fun x -> bind (pyden b sc) (fun y -> eval_bin o x y))
  | SGroup a -> pyden a sc

(** val lower_char : char -> char **)

let lower_char c =
  let n0 = nat_of_ascii c in
  if (&&)
       (Nat.leb (S (S (S (S (S (S (S (S (S (S (S (S (S (S (S (S (S (S (S (S
         (S (S (S (S (S (S (S (S (S (S (S (S (S (S (S (S (S (S (S (S (S (S (S
         (S (S (S (S (S (S (S (S (S (S (S (S (S (S (S (S (S (S (S (S (S (S
         O)))))))))))))))))))))))))))))))))))))))))))))))))))))))))))))))))
         n0)
       (Nat.leb n0 (S (S (S (S (S (S (S (S (S (S (S (S (S (S (S (S (S (S (S
         (S (S (S (S (S (S (S (S (S (S (S (S (S (S (S (S (S (S (S (S (S (S (S
         (S (S (S (S (S (S (S (S (S (S (S (S (S (S (S (S (S (S (S (S (S (S (S
         (S (S (S (S (S (S (S (S (S (S (S (S (S (S (S (S (S (S (S (S (S (S (S
         (S (S
         O)))))))))))))))))))))))))))))))))))))))))))))))))))))))))))))))))))))))))))))))))))))))))))
  then ascii_of_nat
         (add n0 (S (S (S (S (S (S (S (S (S (S (S (S (S (S (S (S (S (S (S (S
           (S (S (S (S (S (S (S (S (S (S (S (S
           O)))))))))))))))))))))))))))))))))
  else c

(** val lower : char list -> char list **)

let rec lower = function
| [] -> []
| c::r -> (lower_char c)::(lower r)

(** val str_in : char list -> char list list -> bool **)

let str_in s l =
  existsb (eqb0 s) l

(** val parse_env_bool : char list -> bool option **)

let parse_env_bool s =
  let l = lower s in
  if str_in l
       (('1'::[]) :: (('o'::('n'::[])) :: (('t'::[]) :: (('t'::('r'::('u'::('e'::[])))) :: (('y'::[]) :: (('y'::('e'::('s'::[]))) :: []))))))
  then Some true
  else if str_in l
            (('0'::[]) :: (('o'::('f'::('f'::[]))) :: (('f'::[]) :: (('f'::('a'::('l'::('s'::('e'::[]))))) :: (('n'::[]) :: (('n'::('o'::[])) :: []))))))
       then Some false
       else None

type import_result =
| ImportOk of bool * bool
| ImportFails

(** val read_env : char list option -> char list option -> import_result **)

let read_env disable debug =
  match match disable with
        | Some s -> parse_env_bool s
        | None -> Some false with
  | Some d ->
    (match match debug with
           | Some s -> parse_env_bool s
           | None -> Some false with
     | Some g -> ImportOk (d, g)
     | None -> ImportFails)
  | None -> ImportFails

(** val effective_enabled : bool -> bool option -> bool **)

let effective_enabled global_disable = function
| Some b -> b
| None -> negb global_disable

type dkind =
| KFunction
| KNamedTuple
| KDataclass

(** val returns_original : dkind -> bool -> bool -> bool **)

let returns_original k scripting enabled =
  match k with
  | KNamedTuple -> negb enabled
  | _ -> (||) scripting (negb enabled)
