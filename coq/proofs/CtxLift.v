(* CtxLift.v - from the queue-level soundness theorem to whole contexts (items) and to decorated calls. *)
From DL Require Import Base Lexer Parser Eval Shape Dtypes Check Context Hints Call CtxSound.

Definition annot_wf (a:annot) : Prop := Forall dim_wf (t_shape (a_ty a)).
Definition anns_wf (l:option (list (option annot))) : Prop :=
  match l with None => True | Some anns => Forall (fun o => match o with Some a => annot_wf a | None => True end) anns end.
Definition items_wf (its:list item) : Prop := Forall (fun it => anns_wf (snd it)) its.

Lemma add_loop_wf name : forall anns idx vals q q', Forall (fun o => match o with Some a => annot_wf a | None => True end) anns ->
  Forall ann_wf q -> add_loop name idx anns vals q = DOk q' -> Forall ann_wf q'.
Proof.
  induction anns as [|a anns IH]; intros idx vals q q' Ha Hq H; destruct vals as [|v vals]; simpl in H; try discriminate.
  - injection H as <-. exact Hq.
  - inversion Ha; subst. destruct a as [an|]; [|eapply IH; eauto].
    destruct v; try discriminate.
    + destruct (a_opt an); [eapply IH; eauto|discriminate].
    + eapply IH; [eauto| |exact H]. apply Forall_app. split; auto.
Qed.
Lemma add_items_wf its : forall q q', items_wf its -> Forall ann_wf q -> add_items its q = DOk q' -> Forall ann_wf q'.
Proof.
  induction its as [|[[n vs] anns] its IH]; intros q q' Hi Hq H; simpl in H.
  - injection H as <-. exact Hq.
  - inversion Hi as [|? ? Hanns Hrest]; subst. simpl in Hanns.
    destruct (ctx_add n vs anns q) as [q1|e|x] eqn:E; cbn [dbind] in H; try discriminate.
    eapply IH; [eauto| |exact H]. unfold ctx_add in E. destruct anns as [l|].
    + eapply add_loop_wf; eauto.
    + injection E as <-. exact Hq.
Qed.

(* one checked context: every queued tensor agrees with the final table, which extends the provider's *)
Theorem run_ctx_sound sc0 its cF : items_wf its -> run_ctx (ctx0 sc0) its = DOk cF ->
  exists q, add_items its [] = DOk q /\ extends sc0 (table cF) /\ Forall (tensor_ok cF) q.
Proof.
  intros Hw. unfold run_ctx. destruct (add_items its []) as [q|e|x] eqn:E; cbn [dbind]; try discriminate.
  intros H. exists q. split; auto.
  apply assert_context_sound in H as (X & _ & T); [|eapply add_items_wf; eauto].
  split; auto.
Qed.

(* no name is matched against two sizes: two accepted axes with the same (non-literal) identifier, or a named
   literal and a name, have the same size *)
Lemma same_ident_same_size sc d1 d2 s1 s2 : dim_sat sc d1 s1 -> dim_sat sc d2 s2 ->
  d_anon d1 = false -> d_anon d2 = false -> d_ident d1 = d_ident d2 ->
  (d_literal d1 = false \/ isnumeric (d_ident d1) = false) -> (d_literal d2 = false \/ isnumeric (d_ident d2) = false) -> s1 = s2.
Proof.
  intros H1 H2 A1 A2 E N1 N2. destruct (H1 A1) as (L1 & M1 & _). destruct (H2 A2) as (L2 & M2 & _).
  assert (lookup (d_ident d1) sc = Some s1).
  { destruct (d_literal d1) eqn:E1; [destruct N1 as [?|N1]; [discriminate|auto]|auto]. }
  assert (lookup (d_ident d2) sc = Some s2).
  { destruct (d_literal d2) eqn:E2; [destruct N2 as [?|N2]; [discriminate|auto]|auto]. }
  congruence.
Qed.

(* a decorated call that hands a value to the caller: arguments and return value were one context *)
Definition wrapped_wf (w:wrapped) : Prop :=
  Forall (fun p => Forall (fun o => match o with Some a => annot_wf a | None => True end) (snd (snd p))) (w_params w) /\
  match w_ret w with Some r => Forall (fun o => match o with Some a => annot_wf a | None => True end) (snd r) | None => True end.

Lemma add_args_wf ps : forall args q q', Forall (fun p => Forall (fun o => match o with Some a => annot_wf a | None => True end) (snd (snd p))) ps ->
  Forall ann_wf q -> add_args ps args q = DOk q' -> Forall ann_wf q'.
Proof.
  induction ps as [|[n [it anns]] ps IH]; intros args q q' Hp Hq H; simpl in H.
  - injection H as <-. exact Hq.
  - inversion Hp; subst. simpl in *.
    destruct ((n =? "self")%string || (n =? "cls")%string); [discriminate|].
    destruct anns as [|a0 anns']; [eapply IH; eauto|].
    destruct (arg_lookup n args) as [v|]; [|discriminate].
    destruct (resolve_types (a0 :: anns')) as [ra|] eqn:Er; [|eapply IH; eauto].
    destruct (resolve_value it v) as [vs|]; [|discriminate].
    destruct (add_loop n 0 ra vs q) as [q1|e|x] eqn:E; cbn [dbind] in H; try discriminate.
    eapply IH; [eauto| |exact H].
    unfold resolve_types in Er. destruct (forallb is_none (a0 :: anns')); [discriminate|]. injection Er as <-.
    eapply add_loop_wf; eauto.
Qed.

Theorem run_call_sound w ps args v : wrapped_wf w ->
  run_call w ps args (BReturn v) = (true, CReturned v) ->
  exists sc0 qa qr cF,
    initial_table (w_provider w) ps = DOk sc0 /\
    add_args (w_params w) args [] = DOk qa /\
    assert_context (ctx0 sc0) (qa ++ qr) = DOk cF /\
    extends sc0 (table cF) /\ Forall (tensor_ok cF) (qa ++ qr) /\
    (* qr is what the return annotation queues for the value the caller received *)
    match w_ret w with
    | None => qr = []
    | Some (it, anns) =>
        match resolve_types anns with
        | None => qr = []
        | Some ra => exists vs, resolve_value it v = Ok vs /\ ctx_add "return" vs (Some ra) [] = DOk qr
        end
    end.
Proof.
  intros [Hp Hr]. unfold run_call.
  destruct (initial_table (w_provider w) ps) as [sc0|e|x] eqn:Ei; try discriminate.
  destruct (add_args (w_params w) args []) as [qa|e|x] eqn:Ea; cbn [dbind]; try discriminate.
  destruct (assert_context (ctx0 sc0) qa) as [c|e|x] eqn:Ec; try discriminate.
  assert (Hqa: Forall ann_wf qa) by (eapply add_args_wf; eauto).
  destruct (w_ret w) as [[it anns]|] eqn:Ew.
  2:{ intros _. pose proof (assert_context_sound _ _ _ Hqa Ec) as (X & _ & T).
      exists sc0, qa, (@nil concrete), c. rewrite app_nil_r. repeat split; auto. }
  destruct (resolve_types anns) as [ra|] eqn:Er.
  2:{ intros _. pose proof (assert_context_sound _ _ _ Hqa Ec) as (X & _ & T).
      exists sc0, qa, [], c. rewrite app_nil_r. repeat split; auto. }
  destruct (resolve_value it v) as [vs|] eqn:Ev; [|discriminate].
  destruct (ctx_add "return" vs (Some ra) []) as [qr|e|x] eqn:Eq; cbn [dbind]; try discriminate.
  destruct (assert_context c qr) as [cF|e|x] eqn:Ef; try discriminate.
  intros _. exists sc0, qa, qr, cF.
  assert (Hall: assert_context (ctx0 sc0) (qa ++ qr) = DOk cF) by (rewrite assert_context_app, Ec; exact Ef).
  assert (Hqr: Forall ann_wf qr).
  { simpl in Eq. unfold resolve_types in Er. destruct (forallb is_none anns); [discriminate|]. injection Er as <-.
    simpl in Hr. eapply add_loop_wf; [exact Hr|constructor|exact Eq]. }
  assert (Hq2: Forall ann_wf (qa ++ qr)) by (apply Forall_app; auto).
  pose proof (assert_context_sound _ _ _ Hq2 Hall) as (X & _ & T).
  repeat split; auto. exists vs. auto.
Qed.
