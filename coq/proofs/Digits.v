(* Digits.v - printing a non-negative integer in decimal and reading it back with the tokenizer's int(). *)
From Coq Require Import DecimalString DecimalPos.
From DL Require Import Base Symbolic Grammar.

(* Horner evaluation of a decimal digit list *)
Fixpoint hz (d:Decimal.uint) (acc:Z) : Z :=
  match d with
  | Decimal.Nil => acc
  | Decimal.D0 l => hz l (10*acc) | Decimal.D1 l => hz l (10*acc+1) | Decimal.D2 l => hz l (10*acc+2)
  | Decimal.D3 l => hz l (10*acc+3) | Decimal.D4 l => hz l (10*acc+4) | Decimal.D5 l => hz l (10*acc+5)
  | Decimal.D6 l => hz l (10*acc+6) | Decimal.D7 l => hz l (10*acc+7) | Decimal.D8 l => hz l (10*acc+8)
  | Decimal.D9 l => hz l (10*acc+9)
  end%Z.
Lemma int_of_digits_hz d : forall acc, int_of_digits acc (NilEmpty.string_of_uint d) = hz d acc.
Proof. induction d; intros acc; simpl; auto; rewrite IHd; f_equal; lia. Qed.
Lemma hz_acc d : forall acc, hz d (Zpos acc) = Zpos (Pos.of_uint_acc d acc).
Proof. induction d; intros acc; cbn [hz Pos.of_uint_acc]; auto; rewrite <- IHd; f_equal; lia. Qed.
Lemma hz_of_uint d : hz d 0 = Z.of_N (Pos.of_uint d).
Proof. induction d; cbn [hz Pos.of_uint Z.of_N]; auto; rewrite Z.mul_0_r, Z.add_0_l; apply hz_acc. Qed.
Lemma digits_all d : all_chars is_digit (NilEmpty.string_of_uint d) = true.
Proof. induction d; simpl; auto. Qed.
Lemma to_uint_not_nil p : Pos.to_uint p <> Decimal.Nil.
Proof. apply Unsigned.to_uint_nonnil. Qed.

Theorem string_of_Z_roundtrip z : (0 <= z)%Z ->
  isnumeric (string_of_Z z) = true /\ lit_value (string_of_Z z) = z.
Proof.
  intros Hz. destruct z as [|p|p]; [split; reflexivity| |lia].
  unfold string_of_Z, lit_value. simpl. unfold NilZero.string_of_uint.
  pose proof (to_uint_not_nil p) as Hn. destruct (Pos.to_uint p) eqn:E; try congruence;
    rewrite <- E; (split; [|rewrite int_of_digits_hz, hz_of_uint, Unsigned.of_to; reflexivity]);
    unfold isnumeric; pose proof (digits_all (Pos.to_uint p)) as Hd; rewrite E in *; simpl in *; exact Hd.
Qed.
