(* EvalCompile.v - postfix evaluation of the grammar's program computes the arithmetic value,
   including which exception is raised at the undefined points and for unbound names. *)
From DL Require Import Base Lexer Parser Eval Grammar Denote LexPrint.

Lemma eval_compile e : forall rest sc st, ops_ok e ->
  eval_post (compile e ++ rest) sc st =
  match den e sc with Ok v => eval_post rest sc (v :: st) | Err x => Err x end.
Proof.
  induction e; intros rest sc st Ho; simpl.
  - reflexivity.
  - destruct (lookup x sc); reflexivity.
  - destruct Ho as (Hi & O1 & O2). rewrite <- !app_assoc. rewrite IHe1 by auto.
    destruct (den e1 sc) as [a|x]; [|reflexivity]. cbn [bind]. rewrite IHe2 by auto.
    destruct (den e2 sc) as [b|x]; [|reflexivity]. cbn [bind]. simpl.
    assert (Hu: is_unary o = false) by (destruct o; try discriminate; reflexivity). rewrite Hu.
    destruct (eval_bin o a b); reflexivity.
  - destruct Ho as [Hu O]. rewrite <- !app_assoc. rewrite IHe by auto.
    destruct (den e sc) as [a|x]; [|reflexivity]. cbn [bind]. simpl. rewrite Hu.
    destruct (eval_un a); reflexivity.
  - destruct Ho as (Hb & O1 & O2). rewrite <- !app_assoc. rewrite IHe1 by auto.
    destruct (den e1 sc) as [a|x]; [|reflexivity]. cbn [bind]. rewrite IHe2 by auto.
    destruct (den e2 sc) as [b|x]; [|reflexivity]. cbn [bind]. simpl.
    assert (Hu: is_unary o = false) by (destruct o; try discriminate; reflexivity). rewrite Hu.
    destruct (eval_bin o a b); reflexivity.
  - apply IHe. exact Ho.
Qed.

Theorem eval_compile_top e sc : ops_ok e -> eval_post (compile e) sc [] = den e sc.
Proof. intros Ho. rewrite <- (app_nil_r (compile e)). rewrite eval_compile by auto.
  destruct (den e sc); reflexivity. Qed.
