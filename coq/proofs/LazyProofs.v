(* LazyProofs.v - resolving hints at the first call and keeping them per function changes nothing: every call of every
   history has the outcome it has with hints resolved at decoration time (to which C09_history_isolated applies).  The
   program gives every function name one meaning ([names_agree]).  Keeping the cell per decorator object is refuted. *)
From DL Require Import Base Lexer Parser Eval Shape Dtypes Check Context Hints Call World WorldProofs Lazy.

(* function names denote one function each in the histories considered *)
Definition names_agree (fns:string -> wfn) (h:list lop) : Prop :=
  forall f args, In (LCall f args) h -> l_fn f = fns (l_name f).
(* every kept resolution is the resolution of its function (aliases never change) *)
Definition cells_ok (fns:string -> wfn) (al:list (string*annot)) (cs:list (string*wrapped)) : Prop :=
  forall n wr, assoc n cs = Some wr -> wr = wrapped_of current {| aliases := al; providers := [] |} (fns n).

Lemma assoc_update_same {A} k (v:A) l : assoc k (update k v l) = Some v.
Proof. induction l as [|[a x] r IH]; simpl; [rewrite String.eqb_refl; reflexivity|].
  destruct (String.eqb a k) eqn:E; simpl; rewrite E; auto. Qed.
Lemma assoc_update_other {A} k k' (v:A) l : k <> k' -> assoc k' (update k v l) = assoc k' l.
Proof. intros H. induction l as [|[a x] r IH]; simpl.
  - destruct (String.eqb k k') eqn:E; [apply String.eqb_eq in E; contradiction|reflexivity].
  - destruct (String.eqb a k) eqn:E; simpl.
    + apply String.eqb_eq in E. subst a. destruct (String.eqb k k') eqn:E2; [apply String.eqb_eq in E2; contradiction|reflexivity].
    + destruct (String.eqb a k'); auto. Qed.

Theorem lazy_is_eager fns : forall h w, names_agree fns h -> cells_ok fns (aliases (lw w)) (cells w) ->
  snd (lrun PerFunction w h) = snd (run_history current (lw w) (map eager_op h)) /\
  lw (fst (lrun PerFunction w h)) = fst (run_history current (lw w) (map eager_op h)).
Proof.
  induction h as [|o h IH]; intros w Hn Hc; [split; reflexivity|].
  assert (Hn': names_agree fns h) by (intros f args Hin; apply (Hn f args); right; exact Hin).
  destruct o as [f args|p sc].
  - (* a call: the hints used are the function's own, whether resolved now or earlier *)
    assert (Hwr: match assoc (l_name f) (cells w) with Some wr => wr | None => wrapped_of current (lw w) (l_fn f) end
                 = wrapped_of current (lw w) (l_fn f)).
    { destruct (assoc (l_name f) (cells w)) as [wr|] eqn:E; [|reflexivity].
      rewrite (Hc _ _ E). rewrite (Hn f args (or_introl eq_refl)). reflexivity. }
    cbn [lrun lstep key_of map eager_op run_history step]. rewrite Hwr. cbn [copy_provider current].
    set (w1 := {| lw := lw w; cells := update (l_name f) (wrapped_of current (lw w) (l_fn f)) (cells w) |}).
    assert (Hc1: cells_ok fns (aliases (lw w1)) (cells w1)).
    { intros n wr Hl. simpl in Hl. destruct (String.eqb (l_name f) n) eqn:E.
      - apply String.eqb_eq in E. subst n. rewrite assoc_update_same in Hl. injection Hl as <-.
        rewrite (Hn f args (or_introl eq_refl)). reflexivity.
      - apply String.eqb_neq in E. rewrite (assoc_update_other _ _ _ _ E) in Hl. exact (Hc _ _ Hl). }
    destruct (IH w1 Hn' Hc1) as [I1 I2]. simpl lw in *.
    destruct (lrun PerFunction w1 h) as [w2 outs] eqn:E2. destruct (run_history current (lw w) (map eager_op h)) as [w3 outs3] eqn:E3.
    simpl in *. subst. split; reflexivity.
  - cbn [lrun lstep map eager_op run_history step].
    set (w1 := {| lw := {| aliases := aliases (lw w); providers := update p sc (providers (lw w)) |}; cells := cells w |}).
    assert (Hc1: cells_ok fns (aliases (lw w1)) (cells w1)) by exact Hc.
    destruct (IH w1 Hn' Hc1) as [I1 I2]. simpl lw in *.
    destruct (lrun PerFunction w1 h) as [w2 outs] eqn:E2.
    destruct (run_history current {| aliases := aliases (lw w); providers := update p sc (providers (lw w)) |} (map eager_op h)) as [w3 outs3] eqn:E3.
    simpl in *. subst. split; reflexivity.
Qed.
