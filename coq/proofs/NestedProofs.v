(* NestedProofs.v - with a fresh context per activation (the code) the checked calls a body makes - of other functions or of
   itself - have no influence on the outcome of the enclosing call, and each of them has the outcome it has alone. *)
From DL Require Import Base Lexer Parser Eval Shape Dtypes Check Context Hints Call Structural Nested.

Lemma phases_agree w ps args : Nested.arg_phase w ps args = Structural.arg_phase w ps args.
Proof. reflexivity. Qed.
Lemma ret_agree w c v : Nested.ret_phase w c v = Structural.ret_phase w c v.
Proof. reflexivity. Qed.

(* the outcome of a call whose body finally does r, by run_call *)
Lemma finish_is_run_call w ps args c r : Nested.arg_phase w ps args = DOk c ->
  finish w c r = snd (run_call w ps args r).
Proof.
  intros H. rewrite run_call_phases. rewrite <- phases_agree, H. unfold finish. destruct r as [v|]; [|reflexivity].
  rewrite ret_agree. destruct (Structural.ret_phase w c v); reflexivity.
Qed.
Lemma rejected_is_run_call w ps args r e : Nested.arg_phase w ps args = DRej e -> snd (run_call w ps args r) = CRejected e.
Proof. intros H. rewrite run_call_phases, <- phases_agree, H. reflexivity. Qed.
Lemma crashed_is_run_call w ps args r x : Nested.arg_phase w ps args = DCrash x -> snd (run_call w ps args r) = CCrashed x.
Proof. intros H. rewrite run_call_phases, <- phases_agree, H. reflexivity. Qed.

(* the outcomes, in order of completion, of all calls a script makes: each is run_call of that call alone with what its own
   body finally does *)
Fixpoint alone (b:body) : list call_outcome :=
  match b with
  | Finish _ => []
  | CallThen _ w ps args inner k =>
      match Nested.arg_phase w ps args with
      | DOk _ => alone inner ++ snd (run_call w ps args (final inner)) :: alone k
      | _ => snd (run_call w ps args (final inner)) :: alone k
      end
  end.

Theorem fresh_contexts_isolate : forall b st,
  snd (fst (run_body FreshCtx st b)) = alone b /\ snd (run_body FreshCtx st b) = final b.
Proof.
  induction b as [r|name w ps args inner IHi k IHk]; intros st; [split; reflexivity|].
  cbn [run_body alone final].
  destruct (Nested.arg_phase w ps args) as [c|e|x] eqn:E.
  - destruct (IHi (supdate name c st)) as [A1 A2].
    destruct (run_body FreshCtx (supdate name c st) inner) as [[st2 outs_in] r_in] eqn:Ei. simpl in A1, A2. subst outs_in r_in.
    destruct (IHk st2) as [B1 B2]. destruct (run_body FreshCtx st2 k) as [[st3 outs] r] eqn:Ek. simpl in B1, B2. subst outs r.
    simpl. rewrite (finish_is_run_call w ps args c (final inner) E). split; reflexivity.
  - destruct (IHk st) as [B1 B2]. destruct (run_body FreshCtx st k) as [[st2 outs] r] eqn:Ek. simpl in B1, B2. subst outs r.
    simpl. rewrite (rejected_is_run_call w ps args (final inner) e E). split; reflexivity.
  - destruct (IHk st) as [B1 B2]. destruct (run_body FreshCtx st k) as [[st2 outs] r] eqn:Ek. simpl in B1, B2. subst outs r.
    simpl. rewrite (crashed_is_run_call w ps args (final inner) x E). split; reflexivity.
Qed.

(* the enclosing call: whatever checked calls its body makes, its outcome is run_call with what the body finally does *)
Corollary nested_calls_do_not_matter name w ps args b :
  snd (run_nested FreshCtx name w ps args b) = snd (run_call w ps args (final b)).
Proof.
  unfold run_nested. destruct (fresh_contexts_isolate (CallThen name w ps args b (Finish BRaise)) []) as [A _].
  destruct (run_body FreshCtx [] (CallThen name w ps args b (Finish BRaise))) as [[st outs] r] eqn:E. simpl in A. subst outs.
  cbn [alone]. destruct (Nested.arg_phase w ps args); rewrite ?rev_app_distr; simpl; reflexivity.
Qed.
