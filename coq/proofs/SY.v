(* SY.v - the shunting-yard loop of the model returns the grammar's postfix program on every printed
   expression of the stratified grammar (any nesting, any operator mix). *)
From DL Require Import Base Lexer Parser Grammar.

(* operators a sub-expression leaves on the stack (top first), and what it has emitted so far *)
Fixpoint pend (e:expr) : list op :=
  match e with Bin o l r => pend r ++ [o] | Fun1 o _ | Fun2 o _ _ => [o] | _ => [] end.
Fixpoint body (e:expr) : list ptok :=
  match e with
  | Bin o l r => compile l ++ body r
  | Fun1 o a => compile a | Fun2 o a b => compile a ++ compile b
  | e => compile e end.
Lemma compile_body e : compile e = body e ++ map POp (pend e).
Proof. induction e; simpl; auto; try (rewrite app_nil_r; reflexivity).
  - rewrite IHe2, map_app, <- !app_assoc. reflexivity.
  - rewrite <- app_assoc. reflexivity. Qed.

Lemma ggi_print e : forall rest i d lp cs, (1 <= d)%Z ->
  ggi (print e ++ rest) i d lp cs = ggi rest (i + length (print e)) d lp cs.
Proof.
  induction e; intros rest i d lp cs Hd; simpl.
  - f_equal; lia.
  - f_equal; lia.
  - rewrite <- app_assoc. rewrite IHe1 by lia. simpl. rewrite IHe2 by lia.
    rewrite app_length. simpl. f_equal; lia.
  - destruct (d + 1 =? 1)%Z eqn:E; [lia|]. rewrite <- app_assoc. rewrite IHe by lia. simpl.
    destruct (d + 1 =? 1)%Z eqn:E2; [lia|]. rewrite app_length. simpl.
    replace (d + 1 - 1)%Z with d by lia. f_equal; lia.
  - destruct (d + 1 =? 1)%Z eqn:E; [lia|]. rewrite <- app_assoc. rewrite IHe1 by lia. simpl.
    rewrite E. rewrite <- app_assoc. rewrite IHe2 by lia. simpl. rewrite E.
    rewrite !app_length. simpl. rewrite app_length. simpl.
    replace (d + 1 - 1)%Z with d by lia. f_equal; lia.
  - destruct (d + 1 =? 1)%Z eqn:E; [lia|]. rewrite <- app_assoc. rewrite IHe by lia. simpl.
    rewrite E. rewrite app_length. simpl. replace (d + 1 - 1)%Z with d by lia. f_equal; lia.
Qed.

Lemma get_group_paren e rest : get_group (TLP :: print e ++ TRP :: rest) = Ok (0, [], S (length (print e))).
Proof. unfold get_group. simpl. rewrite ggi_print by lia. simpl. reflexivity. Qed.
Lemma get_group_fun1 o e rest : get_group (TOp o :: TLP :: print e ++ TRP :: rest) = Ok (1, [], S (S (length (print e)))).
Proof. unfold get_group. simpl. rewrite ggi_print by lia. simpl. reflexivity. Qed.
Lemma get_group_fun2 o a b rest : get_group (TOp o :: TLP :: print a ++ TComma :: print b ++ TRP :: rest)
   = Ok (1, [S (S (length (print a)))], S (S (S (length (print a) + length (print b))))).
Proof. unfold get_group. simpl. rewrite ggi_print by lia. simpl. rewrite ggi_print by lia. simpl.
  replace (S (S (length (print a) + 1 + length (print b)))) with (S (S (S (length (print a) + length (print b))))) by lia.
  replace (S (S (length (print a) + 0))) with (S (S (length (print a)))) by lia.
  destruct (S (S (S (length (print a) + length (print b)))) <? 1) eqn:E1; [apply Nat.ltb_lt in E1; lia|].
  simpl.
  destruct (S (S (S (length (print a) + length (print b)))) <? S (S (length (print a)))) eqn:E2; [apply Nat.ltb_lt in E2; lia|].
  reflexivity. Qed.

Lemma flush_none stack post p : Forall (fun o => prec o < p) stack -> flush stack post p = (stack, post).
Proof. destruct stack; simpl; auto. intros H. inversion H; subst. destruct (p <=? prec o) eqn:E; auto. apply Nat.leb_le in E. lia. Qed.
Lemma flush_all stack post p rest : Forall (fun o => p <= prec o) stack -> Forall (fun o => prec o < p) rest ->
  flush (stack ++ rest) post p = (rest, post ++ map POp stack).
Proof. revert post. induction stack; intros post H1 H2; simpl.
  - rewrite app_nil_r. apply flush_none; auto.
  - inversion H1; subst. destruct (p <=? prec a) eqn:E; [|apply Nat.leb_gt in E; lia].
    rewrite IHstack; auto. rewrite <- app_assoc. reflexivity. Qed.

(* more fuel never changes a successful run *)
Lemma pfi_mono : forall f ts st po ex r, pfi f ts st po ex = Ok r -> forall f', f <= f' -> pfi f' ts st po ex = Ok r.
Proof.
  induction f; intros ts st po ex r H f' Hle; [discriminate|].
  destruct f'; [lia|]. assert (Hf: f <= f') by lia.
  rewrite pfi_S in *. unfold pfi_body in *. destruct ts as [|t ts']; auto.
  destruct (Bool.eqb (tok_is_infix t) ex); [discriminate|].
  destruct t; try discriminate.
  - eapply IHf; eauto.
  - destruct (valid_ident s); [eapply IHf; eauto|discriminate].
  - destruct (is_infix o).
    + destruct (flush st po (prec o)). eapply IHf; eauto.
    + destruct (flush st po (prec o)) as [st1 po1].
      destruct (get_group (TOp o :: ts')) as [[[l cs] rp]|]; [|discriminate]. cbn [bind] in *.
      destruct (negb (l =? 1)); [discriminate|].
      destruct (is_binfun o && negb (length cs =? 1)); [discriminate|].
      destruct (is_unary o && negb (length cs =? 0)); [discriminate|].
      assert (HA: forall bs lhs pp x, args (pfi f) (TOp o :: ts') bs lhs pp = Ok x -> args (pfi f') (TOp o :: ts') bs lhs pp = Ok x).
      { induction bs; intros lhs pp x Hx; simpl in *; auto.
        destruct (pfi f (slice (TOp o :: ts') (S lhs) a) [] [] true) eqn:E; [|discriminate].
        rewrite (IHf _ _ _ _ _ E f' Hf). cbn [bind] in *. eauto. }
      destruct (args (pfi f) (TOp o :: ts') (cs ++ [rp]) l po1) eqn:EA; [|discriminate].
      rewrite (HA _ _ _ _ EA). cbn [bind] in *. eapply IHf; eauto.
  - destruct (flush st po prec_lparen) as [st1 po1].
    destruct (get_group (TLP :: ts')) as [[[l cs] rp]|]; [|discriminate]. cbn [bind] in *.
    destruct (negb (length cs =? 0)); [discriminate|].
    destruct (pfi f (slice (TLP :: ts') (S l) rp) [] [] true) eqn:E; [|discriminate].
    rewrite (IHf _ _ _ _ _ E f' Hf). cbn [bind] in *. eapply IHf; eauto.
Qed.

Lemma prec_lt6 o : prec o < 6. Proof. destruct o; simpl; lia. Qed.
Lemma infix_prec o : is_infix o = true -> prec o <= 3. Proof. destruct o; simpl; intros; try lia; discriminate. Qed.
Lemma pend_prec e : forall lv, lv <= 4 -> wf lv e -> Forall (fun o => lv <= prec o) (pend e).
Proof. induction e; intros lv Hlv H; simpl in *; auto.
  - destruct H as (Hi & Hp & Hl & Hr). apply Forall_app; split.
    + pose proof (infix_prec _ Hi). eapply Forall_impl; [|apply (IHe2 (S (prec o))); auto; lia]. simpl; intros; lia.
    + constructor; auto.
  - destruct H as [Hu _]. constructor; auto. destruct o; try discriminate; simpl; lia.
  - destruct H as [Hu _]. constructor; auto. destruct o; try discriminate; simpl; lia.
Qed.
Lemma slice_mid (pre mid post : list tok) a : a = length pre -> slice (pre ++ mid ++ post) a (a + length mid) = mid.
Proof. intros ->. unfold slice. rewrite skipn_app, skipn_all, Nat.sub_diag. simpl.
  replace (length pre + length mid - length pre) with (length mid + 0) by lia.
  rewrite firstn_app_2. simpl. apply app_nil_r. Qed.
Lemma skipn_pre (pre post : list tok) a : a = length pre -> skipn a (pre ++ post) = post.
Proof. intros ->. rewrite skipn_app, skipn_all, Nat.sub_diag. reflexivity. Qed.
Lemma names_ok_valid x : names_ok (Var x) -> valid_ident x = true. Proof. simpl; tauto. Qed.

(* the invariant: a printed sub-expression met while an operand is expected, with only weaker operators
   on the stack, is consumed completely, leaves its pending operators on the stack and its body emitted,
   and the loop then expects an operator *)
Lemma SY e : forall lv stack post rest f r, lv <= 4 -> wf lv e -> names_ok e ->
  Forall (fun o => prec o < lv) stack ->
  pfi f rest (pend e ++ stack) (post ++ body e) false = Ok r ->
  pfi (f + length (print e)) (print e ++ rest) stack post true = Ok r.
Proof.
  induction e; intros lv stack post rest f r0 Hlv Hwf Hv Hst H.
  - simpl in *. rewrite Nat.add_1_r, pfi_S. simpl. exact H.
  - simpl in *. rewrite Nat.add_1_r, pfi_S. simpl. destruct Hv as [Hv _]. rewrite Hv. exact H.
  - (* Bin *)
    simpl in Hwf, Hv. destruct Hwf as (Hi & Hp & Hl & Hr). destruct Hv as [Hv1 Hv2].
    pose proof (infix_prec _ Hi) as Hp3.
    simpl print. rewrite <- app_assoc. rewrite app_length. simpl length.
    replace (f + (length (print e1) + S (length (print e2)))) with ((S (f + length (print e2))) + length (print e1)) by lia.
    apply (IHe1 (prec o)); auto; try lia.
    { eapply Forall_impl; [|exact Hst]. simpl; intros; lia. }
    rewrite pfi_S. unfold pfi_body. cbn [app]. cbn beta iota. cbn [tok_is_infix]. rewrite Hi. cbn [Bool.eqb].
    rewrite flush_all.
    2:{ apply pend_prec; auto; lia. }
    2:{ eapply Forall_impl; [|exact Hst]. simpl; intros; lia. }
    apply (IHe2 (S (prec o))); auto; try lia.
    { constructor; [lia|]. eapply Forall_impl; [|exact Hst]. simpl; intros; lia. }
    simpl in H. rewrite <- !app_assoc in *. simpl in *.
    rewrite (compile_body e1) in H. rewrite <- !app_assoc in H. exact H.
  - (* Fun1 *)
    simpl in Hwf, Hv. destruct Hwf as [Hu Ha].
    assert (Hinf: is_infix o = false) by (destruct o; try discriminate; reflexivity).
    assert (Hbf: is_binfun o = false) by (destruct o; try discriminate; reflexivity).
    replace (print (Fun1 o e) ++ rest) with (TOp o :: TLP :: print e ++ TRP :: rest) by (simpl; rewrite <- app_assoc; reflexivity).
    replace (f + length (print (Fun1 o e))) with (S (S (S (f + length (print e))))) by (simpl; rewrite app_length; simpl; lia).
    rewrite pfi_S. unfold pfi_body. cbn beta iota. cbn [tok_is_infix]. rewrite Hinf. cbn [Bool.eqb].
    rewrite flush_none.
    2:{ eapply Forall_impl; [|exact Hst]. simpl; intros. destruct o; try discriminate; simpl; lia. }
    rewrite get_group_fun1. cbn [bind]. rewrite Hbf, Hu. simpl andb. cbn [Nat.eqb negb]. cbn iota.
    simpl app. cbn [args].
    assert (Hin: pfi (S (S (f + length (print e)))) (print e) [] [] true = Ok (compile e)).
    { replace (S (S (f + length (print e)))) with (S (S f) + length (print e)) by lia.
      rewrite <- (app_nil_r (print e)) at 2. apply (IHe 1); auto. simpl. rewrite app_nil_r. rewrite compile_body. reflexivity. }
    replace (slice (TOp o :: TLP :: print e ++ TRP :: rest) 2 (S (S (length (print e))))) with (print e).
    2:{ symmetry. apply (slice_mid [TOp o; TLP] (print e) (TRP :: rest) 2). reflexivity. }
    rewrite Hin. cbn [bind].
    replace (skipn (S (S (S (length (print e))))) (TOp o :: TLP :: print e ++ TRP :: rest)) with rest.
    2:{ symmetry. change (TOp o :: TLP :: print e ++ TRP :: rest) with ([TOp o; TLP] ++ print e ++ [TRP] ++ rest).
        rewrite !app_assoc. apply skipn_pre. rewrite !app_length. simpl. lia. }
    eapply pfi_mono; [|instantiate (1:=f); lia].
    simpl in H. exact H.
  - (* Fun2 *)
    simpl in Hwf, Hv. destruct Hwf as (Hu & Ha & Hb). destruct Hv as [Hv1 Hv2].
    assert (Hinf: is_infix o = false) by (destruct o; try discriminate; reflexivity).
    assert (Hun: is_unary o = false) by (destruct o; try discriminate; reflexivity).
    set (la := length (print e1)). set (lb := length (print e2)).
    replace (print (Fun2 o e1 e2) ++ rest) with (TOp o :: TLP :: print e1 ++ TComma :: print e2 ++ TRP :: rest)
      by (simpl; rewrite <- !app_assoc; simpl; rewrite <- app_assoc; reflexivity).
    replace (f + length (print (Fun2 o e1 e2))) with (S (S (S (S (f + la + lb)))))
      by (simpl; rewrite !app_length; simpl; rewrite app_length; simpl; unfold la, lb; lia).
    rewrite pfi_S. unfold pfi_body. cbn beta iota. cbn [tok_is_infix]. rewrite Hinf. cbn [Bool.eqb].
    rewrite flush_none.
    2:{ eapply Forall_impl; [|exact Hst]. simpl; intros. destruct o; try discriminate; simpl; lia. }
    rewrite get_group_fun2. cbn [bind]. rewrite Hun, Hu. simpl andb. cbn [Nat.eqb negb length]. cbn iota.
    simpl app. cbn [args]. fold la lb.
    assert (Hin1: pfi (S (S (S (f + la + lb)))) (print e1) [] [] true = Ok (compile e1)).
    { replace (S (S (S (f + la + lb)))) with (S (S (S (f + lb))) + length (print e1)) by (unfold la; lia).
      rewrite <- (app_nil_r (print e1)) at 2. apply (IHe1 1); auto. rewrite pfi_S. simpl. rewrite app_nil_r. rewrite compile_body. reflexivity. }
    assert (Hin2: pfi (S (S (S (f + la + lb)))) (print e2) [] [] true = Ok (compile e2)).
    { replace (S (S (S (f + la + lb)))) with (S (S (S (f + la))) + length (print e2)) by (unfold lb; lia).
      rewrite <- (app_nil_r (print e2)) at 2. apply (IHe2 1); auto. rewrite pfi_S. simpl. rewrite app_nil_r. rewrite compile_body. reflexivity. }
    replace (slice (TOp o :: TLP :: print e1 ++ TComma :: print e2 ++ TRP :: rest) 2 (S (S la))) with (print e1).
    2:{ symmetry. apply (slice_mid [TOp o; TLP] (print e1) (TComma :: print e2 ++ TRP :: rest) 2). reflexivity. }
    rewrite Hin1. cbn [bind].
    replace (slice (TOp o :: TLP :: print e1 ++ TComma :: print e2 ++ TRP :: rest) (S (S (S la))) (S (S (S (la + lb))))) with (print e2).
    2:{ symmetry. change (TOp o :: TLP :: print e1 ++ TComma :: print e2 ++ TRP :: rest) with ([TOp o; TLP] ++ print e1 ++ [TComma] ++ print e2 ++ TRP :: rest).
        rewrite (app_assoc [TOp o; TLP]). rewrite (app_assoc _ [TComma]).
        replace (S (S (S (la + lb)))) with (S (S (S la)) + length (print e2)) by (unfold lb; lia).
        apply slice_mid. rewrite !app_length. simpl. unfold la. lia. }
    rewrite Hin2. cbn [bind].
    replace (skipn (S (S (S (S (la + lb))))) (TOp o :: TLP :: print e1 ++ TComma :: print e2 ++ TRP :: rest)) with rest.
    2:{ symmetry. change (TOp o :: TLP :: print e1 ++ TComma :: print e2 ++ TRP :: rest) with ([TOp o; TLP] ++ print e1 ++ [TComma] ++ print e2 ++ [TRP] ++ rest).
        rewrite !app_assoc. apply skipn_pre. rewrite !app_length. simpl. unfold la, lb. lia. }
    eapply pfi_mono; [|instantiate (1:=f); lia].
    simpl in H. rewrite <- !app_assoc in *. exact H.
  - (* Paren *)
    simpl in Hwf, Hv.
    replace (print (Paren e) ++ rest) with (TLP :: print e ++ TRP :: rest) by (simpl; rewrite <- app_assoc; reflexivity).
    replace (f + length (print (Paren e))) with (S (S (f + length (print e)))) by (simpl; rewrite app_length; simpl; lia).
    rewrite pfi_S. unfold pfi_body. cbn beta iota. cbn [tok_is_infix Bool.eqb].
    rewrite flush_none.
    2:{ eapply Forall_impl; [|exact Hst]. simpl; intros. pose proof (prec_lt6 a). unfold prec_lparen. lia. }
    rewrite get_group_paren. cbn [bind]. simpl negb. cbn iota.
    assert (Hin: pfi (S (f + length (print e))) (print e) [] [] true = Ok (compile e)).
    { replace (S (f + length (print e))) with (S f + length (print e)) by lia.
      rewrite <- (app_nil_r (print e)) at 2. apply (IHe 1); auto. rewrite pfi_S. simpl. rewrite app_nil_r. rewrite compile_body. reflexivity. }
    replace (slice (TLP :: print e ++ TRP :: rest) 1 (S (length (print e)))) with (print e).
    2:{ symmetry. apply (slice_mid [TLP] (print e) (TRP :: rest) 1). reflexivity. }
    rewrite Hin. cbn [bind].
    replace (skipn (S (S (length (print e)))) (TLP :: print e ++ TRP :: rest)) with rest.
    2:{ symmetry. change (TLP :: print e ++ TRP :: rest) with ([TLP] ++ print e ++ [TRP] ++ rest).
        rewrite !app_assoc. apply skipn_pre. rewrite !app_length. simpl. lia. }
    eapply pfi_mono; [|instantiate (1:=f); lia].
    simpl in H. exact H.
Qed.

Theorem shunting_yard_correct e : wf 1 e -> names_ok e -> postfix_from_infix (print e) = Ok (compile e).
Proof. intros Hwf Hv. unfold postfix_from_infix. rewrite <- (app_nil_r (print e)) at 2.
  replace (S (length (print e))) with (1 + length (print e)) by lia.
  apply (SY e 1); auto. rewrite pfi_S. simpl. rewrite app_nil_r, compile_body. reflexivity. Qed.
