(* CtxSound.v - soundness of the binding table (no false accepts): when the model of DLTypeContext accepts a
   queue of tensors, the final table is one assignment that every processed axis agrees with. *)
From DL Require Import Base Lexer Parser Eval Shape Dtypes Check Context.

Definition extends (a b:scope) : Prop := forall k v, lookup k a = Some v -> lookup k b = Some v.
Lemma extends_refl a : extends a a. Proof. red; auto. Qed.
Lemma extends_trans a b c : extends a b -> extends b c -> extends a c. Proof. unfold extends; auto. Qed.
Lemma lookup_app k a b : lookup k (a ++ b) = match lookup k a with Some v => Some v | None => lookup k b end.
Proof. induction a as [|[a0 v0] a IH]; simpl; auto. destruct (a0 =? k)%string; auto. Qed.
Lemma mem_false k sc : mem k sc = false -> lookup k sc = None.
Proof. unfold mem. destruct (lookup k sc); auto; discriminate. Qed.
Lemma mem_true k sc : mem k sc = true -> exists v, lookup k sc = Some v.
Proof. unfold mem. destruct (lookup k sc); eauto; discriminate. Qed.
Lemma extends_bind sc k v : mem k sc = false -> extends sc (sc_bind k v sc).
Proof. intros H k' v' H'. unfold sc_bind. rewrite lookup_app, H'. reflexivity. Qed.
Lemma lookup_bind sc k v : mem k sc = false -> lookup k (sc_bind k v sc) = Some v.
Proof. intros H. unfold sc_bind. rewrite lookup_app, (mem_false _ _ H). simpl. rewrite String.eqb_refl. reflexivity. Qed.

(* values of postfix programs only grow with the table *)
Lemma eval_post_mono p : forall sc sc' st v, extends sc sc' -> eval_post p sc st = Ok v -> eval_post p sc' st = Ok v.
Proof.
  induction p as [|t p IH]; intros sc sc' st v Hx H; simpl in *; auto.
  destruct t.
  - eapply IH; eauto.
  - destruct (lookup s sc) eqn:E; [|discriminate]. rewrite (Hx _ _ E). eapply IH; eauto.
  - destruct st as [|b st1]; [discriminate|]. destruct (is_unary o).
    + destruct (eval_un b); [|discriminate]. cbn [bind] in *. eapply IH; eauto.
    + destruct st1 as [|a st2]; [discriminate|]. destruct (eval_bin o a b); [|discriminate]. cbn [bind] in *. eapply IH; eauto.
Qed.

(* what an accepted axis guarantees, in terms of a table *)
Definition dim_sat (sc:scope) (d:dimexpr) (size:Z) : Prop :=
  d_anon d = false ->
  (d_literal d = true -> isnumeric (d_ident d) = false -> lookup (d_ident d) sc = Some size) /\
  (d_literal d = false -> lookup (d_ident d) sc = Some size) /\
  (d_literal d = false -> d_identifier d = false -> eval_post (d_post d) sc [] = Ok size).
(* flags of dimension expressions built by the parser or by get_expected_shape *)
Definition dim_wf (d:dimexpr) : Prop := d_literal d = false -> d_identifier d = false -> d_expression d = true.

Lemma dim_sat_mono sc sc' d s : extends sc sc' -> dim_sat sc d s -> dim_sat sc' d s.
Proof. intros Hx H Ha. destruct (H Ha) as (A & B & C). repeat split; intros; auto. eapply eval_post_mono; eauto. Qed.

Lemma first_mismatch_none vs actual : first_mismatch vs actual = None -> Forall (fun v => v = actual) vs.
Proof. induction vs as [|v vs IH]; simpl; intros H; auto. destruct (v =? actual)%Z eqn:E; [|discriminate].
  apply Z.eqb_eq in E. constructor; auto. Qed.

Lemma step_dim_sound name sc idx d actual sc' : dim_wf d ->
  step_dim name sc idx d actual = DOk sc' -> extends sc sc' /\ dim_sat sc' d actual.
Proof.
  intros Hwf. unfold step_dim. destruct (d_anon d) eqn:Ea.
  { intros [= <-]. split; [apply extends_refl|]. intros H; congruence. }
  destruct (d_literal d) eqn:El; cbn [andb].
  - (* literal *)
    destruct (mem (d_ident d) sc) eqn:Em; cbn [negb].
    + (* its identifier is in the table: compared with the established value *)
      rewrite andb_false_r.
      destruct (expected_values d sc) as [vs|x] eqn:Ev; [|destruct x; discriminate].
      destruct (first_mismatch vs actual) eqn:Ef; [discriminate|]. intros [= <-].
      unfold expected_values, evaluate in Ev. rewrite Ea in Ev. destruct (mem_true _ _ Em) as [c Hc]. rewrite Hc in Ev.
      cbn [bind] in Ev. unfold needs_recheck in Ev. rewrite El, andb_false_r in Ev. injection Ev as <-.
      apply first_mismatch_none in Ef. inversion Ef; subst.
      split; [apply extends_refl|]. intros _. repeat split; intros; try congruence.
    + intros [= <-]. destruct (isnumeric (d_ident d)) eqn:En.
      * split; [apply extends_refl|]. intros _. repeat split; intros; congruence.
      * split; [apply extends_bind; auto|]. intros _. repeat split; intros; try congruence. apply lookup_bind; auto.
  - (* not a literal *)
    destruct (d_identifier d && negb (mem (d_ident d) sc)) eqn:Eb.
    + apply andb_true_iff in Eb as [Ei Em]. apply negb_true_iff in Em. intros [= <-].
      split; [apply extends_bind; auto|]. intros _. repeat split; intros; try congruence. apply lookup_bind; auto.
    + destruct (expected_values d sc) as [vs|x] eqn:Ev; [|destruct x; discriminate].
      destruct (first_mismatch vs actual) eqn:Ef; [discriminate|]. apply first_mismatch_none in Ef.
      unfold expected_values, evaluate in Ev. rewrite Ea in Ev.
      destruct (mem (d_ident d) sc) eqn:Em.
      * (* established identifier: the established value, and the expression's own value, equal the axis *)
        intros [= <-]. destruct (mem_true _ _ Em) as [c Hc]. rewrite Hc in Ev. cbn [bind] in Ev.
        split; [apply extends_refl|]. intros _. split; [intros; congruence|].
        unfold needs_recheck in Ev. rewrite Em, El in Ev. cbn [andb negb] in Ev.
        destruct (d_identifier d) eqn:Ei.
        -- rewrite andb_false_r in Ev. cbn [andb] in Ev. injection Ev as <-. inversion Ef; subst. split; auto. intros; congruence.
        -- rewrite (Hwf El Ei) in Ev. cbn [andb negb] in Ev.
           destruct (eval_post (d_post d) sc []) as [v2|] eqn:E2; [|discriminate]. cbn [bind] in Ev. injection Ev as <-.
           inversion Ef as [|? ? H1 H2]; subst. inversion H2; subst. split; auto.
      * (* first occurrence of an expression axis: evaluated, compared, then bound *)
        rewrite (mem_false _ _ Em) in Ev. unfold needs_recheck in Ev. rewrite Em in Ev. cbn [andb] in Ev.
        destruct (eval_post (d_post d) sc []) as [v1|] eqn:E1; [|discriminate]. cbn [bind] in Ev. injection Ev as <-.
        inversion Ef; subst. intros [= <-].
        split; [apply extends_bind; auto|]. intros _. repeat split; intros; try congruence.
        -- apply lookup_bind; auto.
        -- eapply eval_post_mono; [apply extends_bind; auto|]. exact E1.
Qed.

(* one tensor: its expected dims zipped with its actual sizes *)
Lemma assert_dims_sound name : forall ds sc idx shape sc', Forall dim_wf ds ->
  assert_dims name sc idx ds shape = DOk sc' ->
  extends sc sc' /\ exists sizes, length sizes = length ds /\ firstn (length ds) shape = sizes /\ Forall2 (dim_sat sc') ds sizes.
Proof.
  induction ds as [|d ds IH]; intros sc idx shape sc' Hwf H; simpl in H.
  - injection H as <-. split; [apply extends_refl|]. exists []. repeat split; auto.
  - destruct shape as [|s shape]; [discriminate|]. inversion Hwf; subst.
    destruct (step_dim name sc idx d s) as [sc1|e|x] eqn:E1; cbn [dbind] in H; try discriminate.
    apply step_dim_sound in E1 as [X1 S1]; auto.
    apply IH in H as (X2 & sizes & L & F & S2); auto.
    split; [eapply extends_trans; eauto|]. exists (s :: sizes). simpl. repeat split; auto; try congruence.
    constructor; auto. eapply dim_sat_mono; eauto.
Qed.

(* ---- dimension expressions that the model constructs are well-flagged ---- *)
Lemma mk_dimexpr_wf ident post ml an nm d : mk_dimexpr ident post ml an nm = Ok d -> dim_wf d.
Proof.
  unfold mk_dimexpr, dim_wf. cbv zeta.
  match goal with |- (if ?c then _ else _) = _ -> _ => destruct c eqn:E; [discriminate|] end.
  intros [= <-]. simpl. intros Hl Hi. rewrite Hl, Hi in *. simpl in *.
  destruct (1 <? length post) eqn:E1; simpl; auto.
  destruct (existsb (ptok_is_name ident) post) eqn:E2; simpl; auto.
  exfalso. apply Nat.ltb_ge in E1. apply orb_false_iff in Hi as [Hi1 Hi2]. apply orb_false_iff in Hi1 as [Hml Hnm].
  destruct post as [|p [|p2 r]]; simpl in *; try discriminate; try lia.
  destruct p; simpl in *; try discriminate. rewrite orb_false_r in E2. congruence.
Qed.
Lemma mlit_wf id v an : dim_wf (mlit id v an).
Proof. unfold dim_wf, mlit. simpl. discriminate. Qed.
Lemma maybe_multiaxis_wf id ts d : maybe_multiaxis id ts = Some (Ok d) -> dim_wf d.
Proof.
  unfold maybe_multiaxis. intros H.
  destruct ts as [|t1 ts]; [discriminate|]. destruct t1; try discriminate.
  - destruct ts; [|discriminate]. destruct (s =? "...")%string; [|discriminate].
    injection H as H. subst d. unfold dim_wf. simpl. intros; congruence.
  - destruct o; try discriminate. destruct ts as [|t2 ts]; [discriminate|]. destruct t2; try discriminate.
    destruct ts; [|discriminate]. destruct (valid_ident s); [|discriminate].
    assert (H': mk_dimexpr s [PName s] false false true = Ok d) by congruence. eapply mk_dimexpr_wf; eauto.
Qed.
Lemma expression_from_string_wf s d : expression_from_string s = Ok d -> dim_wf d.
Proof.
  unfold expression_from_string. destruct (s =? "")%string; [discriminate|].
  destruct (split_eq s "") as [[i b]|].
  - destruct (true && negb (valid_ident i)); [discriminate|].
    destruct (tokenize b) as [ts|]; [|discriminate]. cbn [bind].
    destruct (maybe_multiaxis i ts) as [r|]; [discriminate|].
    destruct (postfix_from_infix ts) as [post|]; [|discriminate]. cbn [bind].
    destruct (mk_dimexpr i post false false false) as [d0|] eqn:E; [|discriminate]. cbn [bind].
    destruct (true && existsb (ptok_is_name i) post); [discriminate|]. intros [= <-]. eapply mk_dimexpr_wf; eauto.
  - cbn [andb]. destruct (tokenize s) as [ts|]; [|discriminate]. cbn [bind].
    destruct (maybe_multiaxis s ts) as [r|] eqn:Em.
    + intros ->. eapply maybe_multiaxis_wf; eauto.
    + destruct (postfix_from_infix ts) as [post|]; [|discriminate]. cbn [bind].
      destruct (mk_dimexpr s post false false false) as [d0|] eqn:E; [|discriminate]. cbn [bind].
      cbn [andb]. intros [= <-]. eapply mk_dimexpr_wf; eauto.
Qed.
Lemma parse_dims_wf ds : forall i acc mi mn an cnt r mi' mn' an' cnt', Forall dim_wf acc ->
  parse_dims ds i acc mi mn an cnt = Ok (r, mi', mn', an', cnt') -> Forall dim_wf r.
Proof.
  induction ds as [|s ds IH]; intros i acc mi mn an cnt r mi' mn' an' cnt' Ha H; simpl in H.
  - injection H as <- _ _ _ _. apply Forall_rev. exact Ha.
  - destruct (expression_from_string s) as [d|] eqn:E; [|discriminate]. cbn [bind] in H.
    eapply IH; [|exact H]. constructor; auto. eapply expression_from_string_wf; eauto.
Qed.
Theorem parse_shape_dims_wf s ty : parse_shape s = Ok ty -> Forall dim_wf (t_shape ty).
Proof.
  unfold parse_shape. destruct (split_ws s "" []) as [|p ps]; [discriminate|].
  destruct (parse_dims (p :: ps) 0 [] None None false 0) as [[[[[ds mi] mn] an] cnt]|] eqn:Ep; [|discriminate].
  cbn [bind]. destruct (1 <? cnt); [discriminate|]. destruct (lits ds 0 mi); [|discriminate]. cbn [bind]. intros [= <-]. simpl.
  eapply parse_dims_wf; [|exact Ep]. constructor.
Qed.

Lemma mlits_wf ty shape m : forall count i ms, mlits ty shape m i count = Ok ms -> Forall dim_wf ms /\ length ms = count.
Proof.
  induction count as [|k IH]; intros i ms H; simpl in H.
  - injection H as <-. split; auto.
  - destruct (nth_error shape (m + i)); [|discriminate].
    destruct (mlits ty shape m (S i) k) as [rest|] eqn:E; [|discriminate]. cbn [bind] in H. injection H as <-.
    apply IH in E as [A B]. split; [constructor; auto; apply mlit_wf|simpl; congruence].
Qed.
Lemma expected_shape_wf ty shape ds : Forall dim_wf (t_shape ty) -> expected_shape ty shape = Ok ds -> Forall dim_wf ds.
Proof.
  unfold expected_shape. intros Hw. destruct (t_mindex ty) as [m|]; [|intros [= <-]; auto].
  destruct (mlits ty shape m 0 (length shape + 1 - length (t_shape ty))) as [ms|] eqn:E; [|discriminate].
  cbn [bind]. intros [= <-]. apply mlits_wf in E as [A _].
  rewrite !Forall_app. repeat split; auto.
  - rewrite <- (firstn_skipn m (t_shape ty)) in Hw. apply Forall_app in Hw. tauto.
  - rewrite <- (firstn_skipn (S m) (t_shape ty)) in Hw. apply Forall_app in Hw. tauto.
Qed.

(* ---- one tensor, then the whole queue ---- *)
Definition ann_wf (t:concrete) : Prop := Forall dim_wf (t_shape (a_ty (c_annot t))).
Definition tensor_ok (cF:ctx) (t:concrete) : Prop :=
  let ty := a_ty (c_annot t) in
  let shape := x_shape (c_tensor t) in
  check (c_annot t) (c_tensor t) (tensor_arg_name t) = DOk tt /\
  (exists ds sizes, expected_shape ty shape = Ok ds /\ firstn (length ds) shape = sizes /\ Forall2 (dim_sat (table cF)) ds sizes) /\
  (forall b, t_mname ty = Some b -> glookup b (glens cF) = Some (length shape - (length (t_shape ty) - 1))).
Definition gextends (a b:list (string*nat)) : Prop := forall k v, glookup k a = Some v -> glookup k b = Some v.
Lemma glookup_app k a b : glookup k (a ++ b) = match glookup k a with Some v => Some v | None => glookup k b end.
Proof. induction a as [|[a0 v0] a IH]; simpl; auto. destruct (a0 =? k)%string; auto. Qed.

Lemma assert_mlen_sound name ty r g g' : assert_mlen name ty r g = DOk g' ->
  gextends g g' /\ (forall b, t_mname ty = Some b -> glookup b g' = Some (r - (length (t_shape ty) - 1))).
Proof.
  unfold assert_mlen. destruct (t_mname ty) as [b|].
  - destruct (glookup b g) as [k|] eqn:E.
    + destruct (negb (r =? length (t_shape ty) - 1 + k)) eqn:E2; [discriminate|]. intros [= <-].
      apply negb_false_iff, Nat.eqb_eq in E2. split; [red; auto|]. intros b' [= <-]. rewrite E. f_equal. lia.
    + intros [= <-]. split.
      * intros k v H. rewrite glookup_app, H. reflexivity.
      * intros b' [= <-]. rewrite glookup_app, E. simpl. rewrite String.eqb_refl. reflexivity.
  - intros [= <-]. split; [red; auto|]. intros; discriminate.
Qed.

Lemma tensor_ok_mono c c' t : extends (table c) (table c') -> gextends (glens c) (glens c') -> tensor_ok c t -> tensor_ok c' t.
Proof.
  intros Hx Hg (A & (ds & sizes & B1 & B2 & B3) & C). split; [exact A|]. split.
  - exists ds, sizes. repeat split; auto. clear -Hx B3. induction B3; constructor; auto. eapply dim_sat_mono; eauto.
  - intros b Hb. apply Hg. apply C. exact Hb.
Qed.

Lemma assert_one_sound c t c' : ann_wf t -> assert_one c t = DOk c' ->
  extends (table c) (table c') /\ gextends (glens c) (glens c') /\ tensor_ok c' t.
Proof.
  intros Hw. unfold assert_one.
  destruct (check (c_annot t) (c_tensor t) (tensor_arg_name t)) as [[]|e|x] eqn:Ec; cbn [dbind]; try discriminate.
  destruct (existsb (String.eqb (tensor_arg_name t)) (regs c)); [discriminate|].
  destruct (expected_shape (a_ty (c_annot t)) (x_shape (c_tensor t))) as [ds|] eqn:Ee; [|discriminate].
  destruct (assert_dims (tensor_arg_name t) (table c) 0 ds (x_shape (c_tensor t))) as [sc|e|x] eqn:Ed; cbn [dbind]; try discriminate.
  destruct (assert_mlen (tensor_arg_name t) (a_ty (c_annot t)) (length (x_shape (c_tensor t))) (glens c)) as [g|e|x] eqn:Em; cbn [dbind]; try discriminate.
  intros [= <-]. simpl.
  apply assert_dims_sound in Ed as (X & sizes & L & F & S); [|eapply expected_shape_wf; eauto].
  apply assert_mlen_sound in Em as [G1 G2].
  split; [exact X|]. split; [exact G1|].
  unfold tensor_ok. simpl. split; [exact Ec|]. split; [exists ds, sizes; auto|exact G2].
Qed.

Theorem assert_context_sound : forall q c cF, Forall ann_wf q -> assert_context c q = DOk cF ->
  extends (table c) (table cF) /\ gextends (glens c) (glens cF) /\ Forall (tensor_ok cF) q.
Proof.
  induction q as [|t q IH]; intros c cF Hw H; simpl in H.
  - injection H as <-. repeat split; auto using extends_refl. red; auto.
  - inversion Hw; subst. destruct (assert_one c t) as [c1|e|x] eqn:E1; cbn [dbind] in H; try discriminate.
    apply assert_one_sound in E1 as (X1 & G1 & T1); auto.
    apply IH in H as (X2 & G2 & T2); auto.
    split; [eapply extends_trans; eauto|]. split; [unfold gextends in *; auto|].
    constructor; auto. eapply tensor_ok_mono; eauto.
Qed.

Lemma assert_context_app : forall q1 q2 c, assert_context c (q1 ++ q2) = dlet c1 <- assert_context c q1; assert_context c1 q2.
Proof. induction q1 as [|t q1 IH]; intros q2 c; simpl; auto. destruct (assert_one c t); simpl; auto. Qed.
