(* Reports.v - what a rejection of the model of DLTypeContext says is true of the tensor it names, under the
   bindings established by the tensors (and axes) before it. *)
From DL Require Import Base Lexer Parser Eval Shape Dtypes Check Context CtxSound CtxComplete.

Lemma eval_post_keyerr p : forall sc st k, eval_post p sc st = Err (KeyErr k) -> lookup k sc = None /\ In k (names_of p).
Proof.
  induction p as [|t p IH]; intros sc st k H; simpl in H.
  - destruct st as [|v [|w r]]; discriminate.
  - destruct t; simpl.
    + apply IH in H. tauto.
    + destruct (lookup s sc) eqn:E.
      * apply IH in H. tauto.
      * injection H as <-. auto.
    + destruct st as [|b st1]; [discriminate|]. destruct (is_unary o).
      * destruct (eval_un b) eqn:Eu; cbn [bind] in H; [apply IH in H; tauto|].
        unfold eval_un in Eu. destruct (b <? 0)%Z; congruence.
      * destruct st1 as [|a st2]; [discriminate|]. destruct (eval_bin o a b) eqn:Eb; cbn [bind] in H; [apply IH in H; tauto|].
        exfalso. injection H as ->. destruct o; simpl in Eb; try discriminate.
        -- unfold eval_pow in Eb. repeat match type of Eb with context [if ?c then _ else _] => destruct c end; discriminate.
        -- destruct (b =? 0)%Z; discriminate.
Qed.

Lemma first_mismatch_some vs actual v : first_mismatch vs actual = Some v -> In v vs /\ v <> actual.
Proof. induction vs as [|w vs IH]; simpl; intros H; [discriminate|].
  destruct (w =? actual)%Z eqn:E; [apply IH in H; tauto|]. injection H as <-. apply Z.eqb_neq in E. auto. Qed.

(* one axis *)
Definition axis_report (name:string) (sc:scope) (idx:nat) (d:dimexpr) (actual:Z) (e:dlerr) : Prop :=
  (exists v, e = EShape name idx v actual /\ v <> actual /\
             (lookup (d_ident d) sc = Some v \/ eval_post (d_post d) sc [] = Ok v)) \/
  (exists k, e = EInvalidRef name k (map fst sc) /\ lookup k sc = None /\ In k (names_of (d_post d))).
Lemma step_dim_reject name sc idx d actual e : step_dim name sc idx d actual = DRej e -> axis_report name sc idx d actual e.
Proof.
  unfold step_dim, axis_report. destruct (d_anon d) eqn:Ea; [discriminate|].
  destruct (d_literal d && negb (mem (d_ident d) sc)); [discriminate|].
  destruct (d_identifier d && negb (mem (d_ident d) sc)); [discriminate|].
  destruct (expected_values d sc) as [vs|x] eqn:Ev.
  - destruct (first_mismatch vs actual) as [v|] eqn:Ef; [|discriminate]. intros [= <-].
    apply first_mismatch_some in Ef as [Hin Hne]. left. exists v. split; auto. split; auto.
    unfold expected_values, evaluate in Ev. rewrite Ea in Ev.
    destruct (lookup (d_ident d) sc) as [c|] eqn:El.
    + cbn [bind] in Ev. destruct (needs_recheck d sc).
      * destruct (eval_post (d_post d) sc []) as [v2|] eqn:E2; [|discriminate]. cbn [bind] in Ev. injection Ev as <-.
        destruct Hin as [<-|[<-|[]]]; auto.
      * injection Ev as <-. destruct Hin as [<-|[]]; auto.
    + destruct (eval_post (d_post d) sc []) as [v1|] eqn:E1; [|discriminate]. cbn [bind] in Ev.
      destruct (needs_recheck d sc).
      * cbn [bind] in Ev. injection Ev as <-. destruct Hin as [<-|[<-|[]]]; auto.
      * injection Ev as <-. destruct Hin as [<-|[]]; auto.
  - destruct x; try discriminate. intros [= <-]. right. exists k. split; auto.
    unfold expected_values, evaluate in Ev. rewrite Ea in Ev.
    destruct (lookup (d_ident d) sc) as [c|] eqn:El.
    + cbn [bind] in Ev. destruct (needs_recheck d sc); [|discriminate].
      destruct (eval_post (d_post d) sc []) eqn:E2; cbn [bind] in Ev; [discriminate|]. injection Ev as ->.
      apply eval_post_keyerr in E2. exact E2.
    + destruct (eval_post (d_post d) sc []) eqn:E1; cbn [bind] in Ev.
      * destruct (needs_recheck d sc); discriminate.
      * injection Ev as ->. apply eval_post_keyerr in E1. exact E1.
Qed.

(* one tensor: the index in the report is the position in the actual shape *)
Lemma assert_dims_reject name : forall ds sc idx shape e, assert_dims name sc idx ds shape = DRej e ->
  exists i d s sc_i, nth_error ds i = Some d /\ nth_error shape i = Some s /\ extends sc sc_i /\
                     (forall ds0, Forall dim_wf ds -> ds0 = ds -> True) /\
                     axis_report name sc_i (idx + i) d s e.
Proof.
  induction ds as [|d ds IH]; intros sc idx shape e H; simpl in H; [discriminate|].
  destruct shape as [|s shape]; [discriminate|].
  destruct (step_dim name sc idx d s) as [sc1|e1|x] eqn:E1; cbn [dbind] in H; try discriminate.
  - apply IH in H as (i & d' & s' & sc_i & A & B & C & _ & D).
    exists (S i), d', s', sc_i. simpl. repeat split; auto.
    + eapply extends_trans; [|exact C]. clear -E1. unfold step_dim in E1.
      destruct (d_anon d); [injection E1 as <-; apply extends_refl|].
      destruct (d_literal d && negb (mem (d_ident d) sc)) eqn:E2.
      { injection E1 as <-. destruct (isnumeric (d_ident d)); [apply extends_refl|].
        apply extends_bind. apply andb_true_iff in E2 as [_ E2]. apply negb_true_iff in E2. exact E2. }
      destruct (d_identifier d && negb (mem (d_ident d) sc)) eqn:E3.
      { injection E1 as <-. apply extends_bind. apply andb_true_iff in E3 as [_ E3]. apply negb_true_iff in E3. exact E3. }
      destruct (expected_values d sc) as [vs|x]; [|destruct x; discriminate].
      destruct (first_mismatch vs s); [discriminate|]. injection E1 as <-.
      destruct (mem (d_ident d) sc) eqn:E4; [apply extends_refl|apply extends_bind; exact E4].
    + replace (idx + S i) with (S idx + i) by lia. exact D.
  - injection H as <-. exists 0, d, s, sc. simpl. repeat split; auto using extends_refl.
    rewrite Nat.add_0_r. apply step_dim_reject. exact E1.
Qed.

(* the whole queue: the tensors before the rejected one were accepted and established the table it is judged by *)
Theorem assert_context_reject : forall q c e, assert_context c q = DRej e ->
  exists q1 t q2 c1, q = q1 ++ t :: q2 /\ assert_context c q1 = DOk c1 /\ assert_one c1 t = DRej e.
Proof.
  induction q as [|t q IH]; intros c e H; simpl in H; [discriminate|].
  destruct (assert_one c t) as [c1|e1|x] eqn:E1; cbn [dbind] in H; try discriminate.
  - apply IH in H as (q1 & t' & q2 & c2 & -> & A & B). exists (t :: q1), t', q2, c2. simpl. rewrite E1. cbn [dbind]. auto.
  - injection H as <-. exists [], t, q, c. simpl. auto.
Qed.

Definition tensor_report (c:ctx) (t:concrete) (e:dlerr) : Prop :=
  let name := tensor_arg_name t in
  let ty := a_ty (c_annot t) in
  let shape := x_shape (c_tensor t) in
  check (c_annot t) (c_tensor t) name = DRej e \/
  (check (c_annot t) (c_tensor t) name = DOk tt /\
   (e = EDuplicate name /\ In name (regs c) \/
    (exists ds i d s sc_i, expected_shape ty shape = Ok ds /\ nth_error ds i = Some d /\ nth_error shape i = Some s /\
                           extends (table c) sc_i /\ axis_report name sc_i i d s e) \/
    (exists b k, t_mname ty = Some b /\ glookup b (glens c) = Some k /\ length shape <> length (t_shape ty) - 1 + k /\
                 e = ENDims name (length (t_shape ty) - 1 + k) (length shape)))).
Theorem assert_one_reject c t e : assert_one c t = DRej e -> tensor_report c t e.
Proof.
  unfold assert_one, tensor_report.
  destruct (check (c_annot t) (c_tensor t) (tensor_arg_name t)) as [[]|e0|x] eqn:Ec; cbn [dbind]; try discriminate.
  2:{ intros [= <-]. left. reflexivity. }
  right. split; [reflexivity|].
  destruct (existsb (String.eqb (tensor_arg_name t)) (regs c)) eqn:Ed.
  { injection H as <-. left. split; auto. apply existsb_exists in Ed as (x & Hx & He). apply String.eqb_eq in He. subst. exact Hx. }
  destruct (expected_shape (a_ty (c_annot t)) (x_shape (c_tensor t))) as [ds|] eqn:Ee; [|discriminate].
  destruct (assert_dims (tensor_arg_name t) (table c) 0 ds (x_shape (c_tensor t))) as [sc|e1|x] eqn:Ea; cbn [dbind] in H; try discriminate.
  - destruct (assert_mlen (tensor_arg_name t) (a_ty (c_annot t)) (length (x_shape (c_tensor t))) (glens c)) as [g|e2|x] eqn:Em; cbn [dbind] in H; try discriminate.
    injection H as <-. right. right. unfold assert_mlen in Em.
    destruct (t_mname (a_ty (c_annot t))) as [b|]; [|discriminate].
    destruct (glookup b (glens c)) as [k|] eqn:Eg; [|discriminate].
    destruct (negb (length (x_shape (c_tensor t)) =? length (t_shape (a_ty (c_annot t))) - 1 + k)) eqn:En; [|discriminate].
    injection Em as <-. apply negb_true_iff, Nat.eqb_neq in En. exists b, k. auto.
  - injection H as <-. right. left.
    apply assert_dims_reject in Ea as (i & d & s & sc_i & A & B & C & _ & D). simpl in D.
    exists ds, i, d, s, sc_i. auto.
Qed.
