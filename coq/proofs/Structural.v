(* Structural.v - facts about the model of the wrapper, of DLTypeContext.add and of the entry points that follow
   from their structure: phases of a call (C07), optional hints (C10), tuple flattening (C11), equivalence of the
   four entry points (C14). *)
From DL Require Import Base Lexer Parser Eval Shape Dtypes Check Context Hints Call Entry.

(* ---- C07: phases of a decorated call ---- *)
Definition arg_phase (w:wrapped) (ps:pstatus) (args:list (string*value)) : dres ctx :=
  dlet sc <- initial_table (w_provider w) ps;
  dlet q <- add_args (w_params w) args [];
  assert_context (ctx0 sc) q.
Definition ret_phase (w:wrapped) (c:ctx) (v:value) : dres unit :=
  match w_ret w with
  | None => DOk tt
  | Some (it, anns) =>
      match resolve_types anns with
      | None => DOk tt
      | Some ra =>
          match resolve_value it v with
          | Err x => DCrash x
          | Ok vs => dlet q <- ctx_add "return" vs (Some ra) []; dlet _ <- assert_context c q; DOk tt
          end
      end
  end.
Lemma run_call_phases w ps args body :
  run_call w ps args body =
  match arg_phase w ps args with
  | DRej e => (false, CRejected e)
  | DCrash x => (false, CCrashed x)
  | DOk c =>
      match body with
      | BRaise => (true, CBodyRaised)
      | BReturn v => match ret_phase w c v with
                     | DOk _ => (true, CReturned v) | DRej e => (true, CRejected e) | DCrash x => (true, CCrashed x)
                     end
      end
  end.
Proof.
  unfold run_call, arg_phase, ret_phase.
  destruct (initial_table (w_provider w) ps) as [sc|e|x]; cbn [dbind]; auto.
  destruct (add_args (w_params w) args []) as [q|e|x]; cbn [dbind]; auto.
  destruct (assert_context (ctx0 sc) q) as [c|e|x]; auto.
  destruct body as [v|]; auto.
  destruct (w_ret w) as [[it anns]|]; auto.
  destruct (resolve_types anns) as [ra|]; auto.
  destruct (resolve_value it v) as [vs|x]; auto.
  destruct (ctx_add "return" vs (Some ra) []) as [q'|e|x]; cbn [dbind]; auto.
  destruct (assert_context c q') as [c'|e|x]; cbn [dbind]; auto.
Qed.

(* ---- C10 / C11: DLTypeContext.add ---- *)
Lemma add_optional_none name idx an anns vals q : a_opt an = true ->
  add_loop name idx (Some an :: anns) (VNone :: vals) q = add_loop name (S idx) anns vals q.
Proof. intros H. simpl. rewrite H. reflexivity. Qed.
Lemma add_required_none name idx an anns vals q : a_opt an = false ->
  add_loop name idx (Some an :: anns) (VNone :: vals) q = DRej EUnsupported.
Proof. intros H. simpl. rewrite H. reflexivity. Qed.
Lemma add_plain_position name idx anns v vals q :
  add_loop name idx (None :: anns) (v :: vals) q = add_loop name (S idx) anns vals q.
Proof. reflexivity. Qed.
Lemma add_array name idx an anns x vals q :
  add_loop name idx (Some an :: anns) (VArr x :: vals) q =
  add_loop name (S idx) anns vals (q ++ [{| c_idx := idx; c_name := name; c_tensor := x; c_annot := an |}]).
Proof. reflexivity. Qed.
(* the optional flag plays no role once a value is present *)
Lemma assert_one_ignores_optional c t o :
  assert_one c {| c_idx := c_idx t; c_name := c_name t; c_tensor := c_tensor t; c_annot := set_opt (c_annot t) o |} = assert_one c t.
Proof. destruct t as [i n x a]. reflexivity. Qed.
Lemma general_union_refused alts o : length alts <> 1 -> from_hint (HUnion alts) o = Err TypeErr.
Proof. destruct alts as [|a [|b r]]; simpl; intros H; auto. lia. Qed.
Lemma optional_is_union_with_none t o : from_hint (HUnion [t]) o = from_hint t true.
Proof. reflexivity. Qed.

(* the queue a tuple of values contributes: position i is named name (i = 0) or name[i] *)
Fixpoint expected_queue (name:string) (idx:nat) (anns:list (option annot)) (vals:list value) : list concrete :=
  match anns, vals with
  | Some an :: anns', VArr x :: vals' => {| c_idx := idx; c_name := name; c_tensor := x; c_annot := an |} :: expected_queue name (S idx) anns' vals'
  | _ :: anns', _ :: vals' => expected_queue name (S idx) anns' vals'
  | _, _ => []
  end.
Lemma add_loop_queue name : forall anns idx vals q q', add_loop name idx anns vals q = DOk q' ->
  q' = q ++ expected_queue name idx anns vals /\ length anns = length vals.
Proof.
  induction anns as [|a anns IH]; intros idx vals q q' H; destruct vals as [|v vals]; simpl in H; try discriminate.
  - injection H as <-. rewrite app_nil_r. auto.
  - destruct a as [an|].
    + destruct v; try discriminate.
      * destruct (a_opt an); [|discriminate]. apply IH in H as [-> L]. simpl. auto.
      * apply IH in H as [-> L]. simpl. rewrite <- app_assoc. auto.
    + apply IH in H as [-> L]. simpl. destruct v; auto.
Qed.
Lemma tuple_hint_flattens hs : forall r, from_hint (HTuple hs) false = Ok r -> fst r = true.
Proof. destruct hs; simpl; intros r H.
  - injection H as <-. reflexivity.
  - destruct (from_hint h false); [|discriminate]. cbn [bind] in H.
    match type of H with context [bind ?x _] => destruct x end; [|discriminate]. cbn [bind] in H. injection H as <-. reflexivity.
Qed.

(* ---- C14: the class entry points and the pydantic validator ---- *)
Lemma dbind_ret {A} (r:dres A) : (dlet x <- r; DOk x) = r.
Proof. destruct r; reflexivity. Qed.
Lemma validate_field_is_assert_one c n a x :
  validate_field c n a x = assert_one c {| c_idx := 0; c_name := n; c_tensor := x; c_annot := a |}.
Proof.
  unfold validate_field. cbn [ctx_add add_loop app]. cbn [dbind assert_context].
  rewrite (dbind_ret (assert_one c {| c_idx := 0; c_name := n; c_tensor := x; c_annot := a |})).
  destruct (check a x n) as [[]|e|y] eqn:E; cbn [dbind]; auto;
    unfold assert_one; cbn [tensor_arg_name c_idx c_name c_tensor c_annot Nat.ltb Nat.leb]; rewrite E; reflexivity.
Qed.

(* fields of a pydantic model validated one after the other on a persistent context = one queue *)
Fixpoint field_queue (fields:list (string*annot)) (vals:list (string*value)) : option (list concrete) :=
  match fields with
  | [] => Some []
  | (n,a) :: r =>
      match arg_lookup n vals with
      | Some (VArr x) => option_map (cons {| c_idx := 0; c_name := n; c_tensor := x; c_annot := a |}) (field_queue r vals)
      | Some VNone => if a_opt a then field_queue r vals else None
      | _ => None
      end
  end.
Lemma run_pydantic_is_one_context : forall fields vals c q, field_queue fields vals = Some q ->
  run_pydantic_from c fields vals = assert_context c q.
Proof.
  induction fields as [|[n a] r IH]; intros vals c q H; simpl in H.
  - injection H as <-. reflexivity.
  - simpl. destruct (arg_lookup n vals) as [[| x | |]|]; try discriminate.
    + destruct (a_opt a); [eauto|discriminate].
    + destruct (field_queue r vals) as [q'|] eqn:E; [|discriminate]. injection H as <-.
      rewrite validate_field_is_assert_one. simpl.
      destruct (assert_one c {| c_idx := 0; c_name := n; c_tensor := x; c_annot := a |}); cbn [dbind]; auto.
Qed.
(* the dataclass / NamedTuple constructor and the function wrapper build the same queue from the same
   (name, annotation, value) list when no field is called self / cls *)
Lemma add_fields_is_add_args : forall ps vals q,
  Forall (fun p => ((fst p =? "self") || (fst p =? "cls"))%string = false) ps ->
  Forall (fun p => snd (snd p) <> []) ps ->
  add_fields ps vals q = add_args ps vals q.
Proof.
  induction ps as [|[n [it anns]] ps IH]; intros vals q Hs Hn; simpl; auto.
  inversion Hs; subst. inversion Hn; subst. simpl in *. rewrite H1.
  destruct anns as [|a0 anns']; [congruence|].
  destruct (arg_lookup n vals) as [v|]; auto.
  destruct (resolve_types (a0 :: anns')) as [ra|]; [|apply IH; assumption].
  destruct (resolve_value it v) as [vs|]; auto.
  destruct (add_loop n 0 ra vs q) as [q1|e|y]; cbn [dbind]; [apply IH; assumption|reflexivity|reflexivity].
Qed.
