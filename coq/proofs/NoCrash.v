(* NoCrash.v - for annotations built from shape strings the only non-DLType exceptions the model of the context
   can produce are the arithmetic ones of undefined expressions (known finding K1). *)
From DL Require Import Base Lexer Parser Eval Shape Dtypes Check Context CheckSpec CheckProof ShapeWf
                        Grammar Denote ShapeSound CtxSound.

Definition arithmetic (x:exn) : Prop := match x with ZeroDivErr | ValueErr | Unmodelled => True | _ => False end.
(* dimension expressions that come from a shape string, or from the expansion of its marker *)
Definition dim_parsed (d:dimexpr) : Prop := (exists s, expression_from_string s = Ok d) \/ (exists i v a, d = mlit i v a).

Lemma evaluate_parsed d sc uc x : dim_parsed d -> d_anon d = false -> evaluate d sc uc = Err x -> arithmetic_or_unbound x.
Proof.
  intros [[s Hs]|(i & v & a & ->)] Ha H.
  - eapply no_late_error; eauto.
  - unfold evaluate, mlit in *. simpl in *. rewrite Ha in H. destruct (if uc then lookup i sc else None); discriminate.
Qed.
Lemma step_dim_crash name sc idx d actual x : dim_parsed d -> step_dim name sc idx d actual = DCrash x -> arithmetic x.
Proof.
  intros Hp. unfold step_dim. destruct (d_anon d) eqn:Ea; [discriminate|].
  destruct (d_literal d && negb (mem (d_ident d) sc)); [discriminate|].
  destruct (d_identifier d && negb (mem (d_ident d) sc)); [discriminate|].
  destruct (expected_values d sc) as [vs|y] eqn:Ev.
  - destruct (first_mismatch vs actual); discriminate.
  - assert (Hy: arithmetic_or_unbound y).
    { unfold expected_values in Ev. destruct (evaluate d sc true) eqn:E1; cbn [bind] in Ev.
      - destruct (needs_recheck d sc); [|discriminate]. destruct (evaluate d sc false) eqn:E2; cbn [bind] in Ev; [discriminate|].
        injection Ev as <-. eapply evaluate_parsed; eauto.
      - injection Ev as <-. eapply evaluate_parsed; eauto. }
    destruct y; try discriminate; simpl in Hy; try contradiction; intros [= <-]; exact I.
Qed.
Lemma assert_dims_crash name : forall ds sc idx shape x, Forall dim_parsed ds -> length ds <= length shape ->
  assert_dims name sc idx ds shape = DCrash x -> arithmetic x.
Proof.
  induction ds as [|d ds IH]; intros sc idx shape x Hp Hl H; simpl in H; [discriminate|].
  destruct shape as [|s shape]; [simpl in Hl; lia|]. inversion Hp; subst.
  destruct (step_dim name sc idx d s) as [sc1|e|y] eqn:E; cbn [dbind] in H; try discriminate.
  - eapply IH; eauto. simpl in Hl. lia.
  - injection H as <-. eapply step_dim_crash; eauto.
Qed.

Lemma mlits_ok ty shape m : forall count i, m + i + count <= length shape ->
  exists ms, mlits ty shape m i count = Ok ms /\ length ms = count /\ Forall dim_parsed ms.
Proof.
  induction count as [|k IH]; intros i H; simpl.
  - exists []. auto.
  - destruct (nth_error shape (m + i)) as [v|] eqn:E; [|apply nth_error_None in E; lia].
    destruct (IH (S i)) as (rest & R & L & P); [lia|]. rewrite R. cbn [bind].
    exists (mlit (indexed_name (mname_str ty) i) v (t_anon ty) :: rest). simpl. repeat split; auto.
    constructor; auto. right. eauto.
Qed.
Lemma expected_shape_ok ty shape : wf_ttype ty -> rank_ok ty (length shape) -> Forall dim_parsed (t_shape ty) ->
  exists ds, expected_shape ty shape = Ok ds /\ length ds = length shape /\ Forall dim_parsed ds.
Proof.
  unfold wf_ttype, rank_ok, declared, expected_shape. intros [_ Hm] Hr Hp.
  destruct (t_mindex ty) as [m|].
  - destruct (mlits_ok ty shape m (length shape + 1 - length (t_shape ty)) 0) as (ms & R & L & P); [lia|].
    rewrite R. cbn [bind]. eexists; split; [reflexivity|]. split.
    + rewrite !app_length, firstn_length, skipn_length, L. lia.
    + rewrite !Forall_app. repeat split; auto.
      * rewrite <- (firstn_skipn m (t_shape ty)) in Hp. apply Forall_app in Hp. tauto.
      * rewrite <- (firstn_skipn (S m) (t_shape ty)) in Hp. apply Forall_app in Hp. tauto.
  - exists (t_shape ty). auto.
Qed.

Definition annot_parsed (a:annot) : Prop := (exists s, parse_shape s = Ok (a_ty a)) \/ a_ty a = scalar_type.
Lemma parsed_dims s ty : parse_shape s = Ok ty -> Forall dim_parsed (t_shape ty).
Proof.
  unfold parse_shape. destruct (split_ws s "" []) as [|p ps]; [discriminate|].
  destruct (parse_dims (p :: ps) 0 [] None None false 0) as [[[[[ds mi] mn] an] cnt]|] eqn:Ep; [|discriminate]. cbn [bind].
  destruct (1 <? cnt); [discriminate|]. destruct (lits ds 0 mi); [|discriminate]. cbn [bind]. intros [= <-]. simpl.
  apply parse_dims_spec in Ep as (new & -> & F & _). simpl. clear -F.
  induction F; constructor; auto. left. eauto.
Qed.
Lemma annot_parsed_facts a : annot_parsed a -> wf_ttype (a_ty a) /\ Forall dim_parsed (t_shape (a_ty a)).
Proof.
  intros [[s H]|H].
  - split; [eapply parse_shape_wf; eauto|eapply parsed_dims; eauto].
  - rewrite H. split; [apply scalar_type_wf|constructor].
Qed.

Theorem assert_one_crash c t x : annot_parsed (c_annot t) -> assert_one c t = DCrash x -> arithmetic x.
Proof.
  intros Hp. destruct (annot_parsed_facts _ Hp) as [Hwf Hd]. unfold assert_one.
  destruct (check (c_annot t) (c_tensor t) (tensor_arg_name t)) as [[]|e|y] eqn:Ec; cbn [dbind]; try discriminate.
  2:{ intros _. exfalso. eapply check_no_crash; eauto. }
  apply check_iff in Ec as (Hr & _ & _); auto.
  destruct (existsb (String.eqb (tensor_arg_name t)) (regs c)); [discriminate|].
  destruct (expected_shape_ok (a_ty (c_annot t)) (x_shape (c_tensor t)) Hwf Hr Hd) as (ds & Es & Ls & Ps). rewrite Es.
  destruct (assert_dims (tensor_arg_name t) (table c) 0 ds (x_shape (c_tensor t))) as [sc|e|y] eqn:Ea; cbn [dbind]; try discriminate.
  - destruct (assert_mlen _ _ _ _) as [g|e|y] eqn:Em; cbn [dbind]; try discriminate.
    unfold assert_mlen in Em. destruct (t_mname _); [destruct (glookup _ _); [destruct (negb _)|]|]; discriminate.
  - intros [= <-]. eapply assert_dims_crash; eauto. lia.
Qed.
Theorem assert_context_crash : forall q c x, Forall (fun t => annot_parsed (c_annot t)) q ->
  assert_context c q = DCrash x -> arithmetic x.
Proof.
  induction q as [|t q IH]; intros c x Hp H; simpl in H; [discriminate|]. inversion Hp; subst.
  destruct (assert_one c t) as [c1|e|y] eqn:E; cbn [dbind] in H; try discriminate.
  - eapply IH; eauto.
  - injection H as <-. eapply assert_one_crash; eauto.
Qed.
