(* PydanticProofs.v - the pydantic after-validator: keyword order is irrelevant, every validation starts from a
   fresh context, and - as the code stands - an assignment under validate_assignment=True is refused. *)
From Coq Require Import Permutation.
From DL Require Import Base Lexer Parser Eval Shape Dtypes Check Context Hints Call Entry Structural.

Lemma arg_lookup_in n vals v : NoDup (map fst vals) -> In (n, v) vals -> arg_lookup n vals = Some v.
Proof.
  induction vals as [|[a x] vals IH]; simpl; intros Hnd Hin; [contradiction|]. inversion Hnd; subst.
  destruct Hin as [[= -> ->]|Hin]; [rewrite String.eqb_refl; reflexivity|].
  destruct (a =? n)%string eqn:E; [|auto]. apply String.eqb_eq in E. subst. exfalso. apply H1.
  change n with (fst (n, v)). apply in_map. exact Hin.
Qed.
Lemma arg_lookup_none n vals : ~ In n (map fst vals) -> arg_lookup n vals = None.
Proof. induction vals as [|[a x] vals IH]; simpl; intros H; auto. destruct (a =? n)%string eqn:E.
  - apply String.eqb_eq in E. subst. tauto. - apply IH. tauto. Qed.
Lemma arg_lookup_some n vals v : arg_lookup n vals = Some v -> In (n, v) vals.
Proof. induction vals as [|[a x] vals IH]; simpl; intros H; [discriminate|]. destruct (a =? n)%string eqn:E.
  - apply String.eqb_eq in E. injection H as <-. subst. auto. - auto. Qed.
Lemma arg_lookup_perm n vals vals' : Permutation vals vals' -> NoDup (map fst vals) -> arg_lookup n vals = arg_lookup n vals'.
Proof.
  intros Hp Hnd. assert (Hnd': NoDup (map fst vals')) by (eapply Permutation_NoDup; [apply Permutation_map; exact Hp|exact Hnd]).
  destruct (arg_lookup n vals) as [v|] eqn:E.
  - symmetry. apply arg_lookup_in; auto. eapply Permutation_in; [exact Hp|]. apply arg_lookup_some. exact E.
  - destruct (arg_lookup n vals') as [v'|] eqn:E'; auto.
    apply arg_lookup_some in E'. apply (Permutation_in _ (Permutation_sym Hp)) in E'.
    rewrite (arg_lookup_in n vals v' Hnd E') in E. discriminate.
Qed.
Theorem keyword_order_irrelevant : forall fields c vals vals', Permutation vals vals' -> NoDup (map fst vals) ->
  run_pydantic_from c fields vals = run_pydantic_from c fields vals'.
Proof.
  induction fields as [|[n a] r IH]; intros c vals vals' Hp Hnd; simpl; auto.
  rewrite (arg_lookup_perm n vals vals' Hp Hnd). destruct (arg_lookup n vals') as [[| x | |]|]; auto.
  - destruct (a_opt a); auto.
  - destruct (validate_field c n a x); cbn [dbind]; auto.
Qed.

(* names registered by a validation *)
Lemma assert_one_regs c t c' : assert_one c t = DOk c' -> regs c' = regs c ++ [tensor_arg_name t].
Proof.
  unfold assert_one. destruct (check _ _ _) as [[]|e|x]; cbn [dbind]; try discriminate.
  destruct (existsb _ _); [discriminate|]. destruct (expected_shape _ _); [|discriminate].
  destruct (assert_dims _ _ _ _ _); cbn [dbind]; try discriminate.
  destruct (assert_mlen _ _ _ _); cbn [dbind]; try discriminate. intros [= <-]. reflexivity.
Qed.
Lemma validated_fields_registered : forall fields vals c cF n a x,
  run_pydantic_from c fields vals = DOk cF -> In (n, a) fields -> arg_lookup n vals = Some (VArr x) -> In n (regs cF) /\ incl (regs c) (regs cF).
Proof.
  induction fields as [|[m b] r IH]; intros vals c cF n a x H Hin Hl; [destruct Hin|]. simpl in H.
  assert (Hmono: forall c1 cF1, run_pydantic_from c1 r vals = DOk cF1 -> incl (regs c1) (regs cF1)).
  { clear. induction r as [|[m b] r IH]; intros c1 cF1 H; simpl in H; [injection H as <-; apply incl_refl|].
    destruct (arg_lookup m vals) as [[| x | |]|]; try discriminate.
    - destruct (a_opt b); [eauto|discriminate].
    - destruct (validate_field c1 m b x) as [c2|e|y] eqn:E; cbn [dbind] in H; try discriminate.
      rewrite validate_field_is_assert_one in E. apply assert_one_regs in E. apply IH in H.
      intros z Hz. apply H. rewrite E. apply in_or_app. auto. }
  destruct Hin as [[= -> ->]|Hin].
  - rewrite Hl in H. destruct (validate_field c n a x) as [c2|e|y] eqn:E; cbn [dbind] in H; try discriminate.
    rewrite validate_field_is_assert_one in E. apply assert_one_regs in E. pose proof (Hmono _ _ H) as Hm. split.
    + apply Hm. rewrite E. apply in_or_app. right. left. reflexivity.
    + intros z Hz. apply Hm. rewrite E. apply in_or_app. auto.
  - destruct (arg_lookup m vals) as [[| y | |]|]; try discriminate.
    + destruct (a_opt b); [eapply IH; eauto|discriminate].
    + destruct (validate_field c m b y) as [c2|e|z] eqn:E; cbn [dbind] in H; try discriminate.
      destruct (IH vals c2 cF n a x H Hin Hl) as [A B]. split; auto.
      rewrite validate_field_is_assert_one in E. apply assert_one_regs in E. intros w Hw. apply B. rewrite E. apply in_or_app. auto.
Qed.
(* K2: with the construction-time context still in the instance, re-validating a field is a duplicate *)
Theorem assignment_is_refused c n a x : In n (regs c) -> check a x n = DOk tt ->
  assign_field c n a x = DRej (EDuplicate n).
Proof.
  intros Hin Hc. unfold assign_field. rewrite validate_field_is_assert_one. unfold assert_one. simpl.
  unfold tensor_arg_name. simpl. rewrite Hc. cbn [dbind].
  assert (existsb (String.eqb n) (regs c) = true) by (apply existsb_exists; exists n; split; auto; apply String.eqb_refl).
  rewrite H. reflexivity.
Qed.
