(* LexPrint.v - the tokenizer maps the printed string of an expression back to its token list. *)
From DL Require Import Base Lexer Parser Grammar.

Definition sapp := String.append.
Lemma sapp_assoc a b c : sapp (sapp a b) c = sapp a (sapp b c).
Proof. induction a; simpl; auto. unfold sapp in *. simpl. rewrite IHa. reflexivity. Qed.
Lemma sapp_nil_r a : sapp a "" = a.
Proof. induction a; simpl; auto. unfold sapp in *. simpl. rewrite IHa. reflexivity. Qed.

(* characters that extend the current span *)
Definition wordc (c:ascii) : bool :=
  negb (Ascii.eqb c " ") && match char_tok c with None => true | Some _ => false end.
Lemma identchar_word c : is_identchar c = true -> wordc c = true.
Proof. destruct c as [[] [] [] [] [] [] [] []]; vm_compute; intros; try reflexivity; discriminate. Qed.
Lemma digit_word c : is_digit c = true -> wordc c = true.
Proof. destruct c as [[] [] [] [] [] [] [] []]; vm_compute; intros; try reflexivity; discriminate. Qed.
Lemma alpha_identchar c : is_alpha c = true -> is_identchar c = true.
Proof. unfold is_identchar. intros ->. reflexivity. Qed.

Lemma lex_word w : forall s span acc, all_chars wordc w = true ->
  lex (sapp w s) span acc = lex s (sapp span w) acc.
Proof.
  induction w as [|c w IH]; intros s span acc H; simpl.
  - rewrite sapp_nil_r. reflexivity.
  - simpl in H. apply andb_true_iff in H as [Hc Hw]. unfold wordc in Hc. apply andb_true_iff in Hc as [H1 H2].
    apply negb_true_iff in H1. rewrite H1. destruct (char_tok c); [discriminate|].
    fold (sapp w s). rewrite IH by exact Hw. fold (sapp span (String c "")).
    rewrite sapp_assoc. reflexivity.
Qed.
Lemma all_chars_impl (p q:ascii->bool) s : (forall c, p c = true -> q c = true) -> all_chars p s = true -> all_chars q s = true.
Proof. intros Hpq. induction s; simpl; auto. intros H. apply andb_true_iff in H as [A B]. rewrite (Hpq _ A), IHs; auto. Qed.
Lemma ident_word x : valid_ident x = true -> all_chars wordc x = true.
Proof. destruct x as [|c r]; [discriminate|]. simpl. intros H. apply andb_true_iff in H as [A B].
  rewrite (identchar_word c (alpha_identchar c A)). simpl.
  eapply all_chars_impl; [apply identchar_word|exact B]. Qed.
Lemma numeric_word ds : isnumeric ds = true -> all_chars wordc ds = true.
Proof. destruct ds; [discriminate|]. unfold isnumeric. apply all_chars_impl. apply digit_word. Qed.

(* what span_tok makes of identifiers and digit strings *)
Lemma numeric_not_alpha ds : isnumeric ds = true -> valid_ident ds = false.
Proof. destruct ds as [|c r]; [discriminate|]. simpl. intros H. apply andb_true_iff in H as [A _].
  destruct c as [[] [] [] [] [] [] [] []]; vm_compute in A |- *; try reflexivity; discriminate. Qed.
Lemma ident_not_numeric x : valid_ident x = true -> isnumeric x = false.
Proof. intros H. destruct (isnumeric x) eqn:E; auto. rewrite (numeric_not_alpha _ E) in H. discriminate. Qed.
Lemma span_tok_ident x : valid_ident x = true -> reserved x = false -> span_tok x = TStr x.
Proof. unfold reserved, span_tok. intros Hv Hr. apply orb_false_iff in Hr as [Hr H3]. apply orb_false_iff in Hr as [H1 H2].
  rewrite H1, H2, H3, (ident_not_numeric _ Hv). reflexivity. Qed.
Lemma span_tok_numeric ds : isnumeric ds = true -> span_tok ds = TInt (lit_value ds).
Proof. intros H. unfold span_tok.
  assert (Hm: forall w, valid_ident w = true -> (ds =? w)%string = false).
  { intros w Hw. apply String.eqb_neq. intros ->. rewrite (numeric_not_alpha _ H) in Hw. discriminate. }
  rewrite (Hm "min"), (Hm "max"), (Hm "isqrt") by reflexivity. rewrite H. reflexivity. Qed.
Lemma nonempty_ident x : valid_ident x = true -> (x =? "")%string = false.
Proof. destruct x; [discriminate|reflexivity]. Qed.
Lemma nonempty_numeric x : isnumeric x = true -> (x =? "")%string = false.
Proof. destruct x; [discriminate|reflexivity]. Qed.

(* lexer state (pending span, reversed tokens) after an expression printed from an empty span *)
Fixpoint end_state (e:expr) (acc:list tok) : string * list tok :=
  match e with
  | Lit ds => (ds, acc)
  | Var x => (x, acc)
  | Bin o l r => let '(sl, al) := end_state l acc in end_state r (TOp o :: flush_span sl al)
  | Fun1 o a => let '(sa, aa) := end_state a (TLP :: TOp o :: acc) in ("", TRP :: flush_span sa aa)
  | Fun2 o a b =>
      let '(sa, aa) := end_state a (TLP :: TOp o :: acc) in
      let '(sb, ab) := end_state b (TComma :: flush_span sa aa) in ("", TRP :: flush_span sb ab)
  | Paren e => let '(se, ae) := end_state e (TLP :: acc) in ("", TRP :: flush_span se ae)
  end.

Ltac norm_list := repeat (progress (try rewrite rev_app_distr; try rewrite <- app_assoc; simpl)); try reflexivity.
Lemma end_state_flush e : forall acc, names_ok e ->
  flush_span (fst (end_state e acc)) (snd (end_state e acc)) = rev (print e) ++ acc.
Proof.
  induction e; intros acc Hn; simpl in *.
  - unfold flush_span. rewrite (nonempty_numeric _ Hn), (span_tok_numeric _ Hn). reflexivity.
  - destruct Hn as [Hv Hr]. unfold flush_span. rewrite (nonempty_ident _ Hv), (span_tok_ident _ Hv Hr). reflexivity.
  - destruct Hn as [H1 H2].
    destruct (end_state e1 acc) as [sl al] eqn:E1.
    assert (A := IHe1 acc H1). rewrite E1 in A. simpl in A.
    rewrite IHe2; auto. rewrite A. norm_list.
  - destruct (end_state e (TLP :: TOp o :: acc)) as [sa aa] eqn:E.
    assert (A := IHe (TLP :: TOp o :: acc) Hn). rewrite E in A. simpl in A. simpl.
    rewrite A. unfold flush_span. simpl. norm_list.
  - destruct Hn as [H1 H2].
    destruct (end_state e1 (TLP :: TOp o :: acc)) as [sa aa] eqn:E1.
    assert (A := IHe1 (TLP :: TOp o :: acc) H1). rewrite E1 in A. simpl in A.
    destruct (end_state e2 (TComma :: flush_span sa aa)) as [sb ab] eqn:E2.
    assert (B := IHe2 (TComma :: flush_span sa aa) H2). rewrite E2 in B. simpl in B. simpl.
    unfold flush_span at 1. simpl. rewrite B, A.
    norm_list.
  - destruct (end_state e (TLP :: acc)) as [se ae] eqn:E.
    assert (A := IHe (TLP :: acc) Hn). rewrite E in A. simpl in A. simpl.
    rewrite A. unfold flush_span. simpl. norm_list.
Qed.

Fixpoint ops_ok (e:expr) : Prop :=
  match e with
  | Lit _ | Var _ => True
  | Bin o l r => is_infix o = true /\ ops_ok l /\ ops_ok r
  | Fun1 o a => is_unary o = true /\ ops_ok a
  | Fun2 o a b => is_binfun o = true /\ ops_ok a /\ ops_ok b
  | Paren e => ops_ok e
  end.
Lemma wf_ops_ok e : forall lv, wf lv e -> ops_ok e.
Proof. induction e; simpl; intros lv H; auto.
  - destruct H as (A & _ & B & C). eauto.
  - destruct H as [A B]. eauto.
  - destruct H as (A & B & C). eauto.
  - eauto. Qed.

Lemma lex_print_gen e : forall s acc, names_ok e -> ops_ok e ->
  lex (sapp (print_string e) s) "" acc = lex s (fst (end_state e acc)) (snd (end_state e acc)).
Proof.
  induction e; intros s acc Hn Ho; simpl print_string; simpl end_state.
  - rewrite lex_word by (apply numeric_word; exact Hn). reflexivity.
  - destruct Hn as [Hv _]. rewrite lex_word by (apply ident_word; exact Hv). reflexivity.
  - destruct Hn as [H1 H2]. destruct Ho as (Hi & O1 & O2).
    fold sapp. rewrite !sapp_assoc. rewrite IHe1 by auto.
    destruct (end_state e1 acc) as [sl al]. simpl fst. simpl snd.
    destruct o; try discriminate; simpl; fold sapp; rewrite IHe2 by auto; reflexivity.
  - destruct Ho as [Hu O]. destruct o; try discriminate. simpl op_string.
    fold sapp. rewrite !sapp_assoc. simpl. fold sapp. rewrite sapp_assoc. rewrite IHe by auto.
    change (flush_span "isqrt" acc) with (TOp ISQRT :: acc).
    destruct (end_state e (TLP :: TOp ISQRT :: acc)) as [sa aa]. simpl. reflexivity.
  - destruct Ho as (Hu & O1 & O2). destruct Hn as [H1 H2].
    destruct o; try discriminate; simpl op_string; fold sapp; rewrite !sapp_assoc; simpl; fold sapp;
      rewrite !sapp_assoc; rewrite IHe1 by auto;
      try change (flush_span "min" acc) with (TOp MIN :: acc);
      try change (flush_span "max" acc) with (TOp MAX :: acc);
      match goal with |- context [end_state e1 ?a] => destruct (end_state e1 a) as [sa aa] end;
      simpl; fold sapp; rewrite ?sapp_assoc; rewrite IHe2 by auto;
      match goal with |- context [end_state e2 ?a] => destruct (end_state e2 a) as [sb ab] end;
      simpl; reflexivity.
  - simpl. fold sapp. rewrite ?sapp_assoc. rewrite IHe by auto. change (flush_span "" acc) with acc.
    destruct (end_state e (TLP :: acc)) as [se ae]. simpl. reflexivity.
Qed.

Theorem lex_print e : names_ok e -> ops_ok e -> lex (print_string e) "" [] = Ok (print e).
Proof.
  intros Hn Ho. rewrite <- (sapp_nil_r (print_string e)). rewrite lex_print_gen by auto.
  simpl. fold (flush_span (fst (end_state e [])) (snd (end_state e []))).
  rewrite end_state_flush by auto. rewrite app_nil_r, rev_involutive. reflexivity.
Qed.
