(* Relabel.v - a checked call reads its arrays only through their shapes and through the answers of the
   annotations' dtype tables.  Two inputs whose arrays agree on these (same shape, same answer from every table D
   lets in) give the same verdict, the same report, the same decision whether the body runs; the value handed back
   is the body's own.  C15 instantiates D with the class tables and the shared dtypes. *)
From DL Require Import Base Lexer Parser Eval Shape Dtypes Check Context Hints Call.

Section Relabel.
Variable D : list dtok -> Prop.

Definition trel (x y:tensor) : Prop :=
  x_shape x = x_shape y /\
  forall dl, D dl -> dtype_accepted dl (x_lib x) (x_dt x) = dtype_accepted dl (x_lib y) (x_dt y).
(* element level: what add_loop distinguishes *)
Definition vrel1 (v w:value) : Prop :=
  match v, w with
  | VNone, VNone => True
  | VOther, VOther => True
  | VArr x, VArr y => trel x y
  | VTuple _, VTuple _ => True            (* a tuple where a tensor is expected is refused whatever it holds *)
  | _, _ => False
  end.
Definition vrel (v w:value) : Prop :=
  match v, w with
  | VTuple vs, VTuple ws => Forall2 vrel1 vs ws
  | _, _ => vrel1 v w
  end.
Definition crel (t u:concrete) : Prop :=
  c_idx t = c_idx u /\ c_name t = c_name u /\ c_annot t = c_annot u /\ trel (c_tensor t) (c_tensor u) /\
  D (a_dtypes (c_annot t)).
Definition ann_ok (a:option annot) : Prop := match a with None => True | Some an => D (a_dtypes an) end.
Definition drel {A} (R:A -> A -> Prop) (r s:dres A) : Prop :=
  match r, s with
  | DOk a, DOk b => R a b
  | DRej e, DRej f => e = f
  | DCrash x, DCrash y => x = y
  | _, _ => False
  end.
Definition argrel (a b:string*value) : Prop := fst a = fst b /\ vrel (snd a) (snd b).

Lemma drel_bind {A B} (R:A -> A -> Prop) (S:B -> B -> Prop) r s f g :
  drel R r s -> (forall a b, R a b -> drel S (f a) (g b)) -> drel S (dbind r f) (dbind s g).
Proof. destruct r, s; simpl; intros H K; try contradiction; auto. Qed.
Local Arguments ctx_add : simpl never.

Lemma trel_refl x : trel x x. Proof. split; auto. Qed.
Lemma vrel1_refl v : vrel1 v v. Proof. destruct v; simpl; auto using trel_refl. Qed.
Lemma vrel_vrel1 v w : vrel v w -> vrel1 v w.
Proof. destruct v, w; simpl; auto. Qed.

Lemma resolve_value_rel t v w : vrel v w ->
  match resolve_value t v, resolve_value t w with
  | Ok a, Ok b => Forall2 vrel1 a b
  | Err x, Err y => x = y
  | _, _ => False
  end.
Proof.
  intros H. unfold resolve_value. destruct t.
  - destruct v, w; simpl in H; try contradiction; auto.
  - constructor; [apply vrel_vrel1; exact H|constructor].
Qed.

Lemma add_loop_rel name : forall anns idx vs ws q q',
  Forall ann_ok anns -> Forall2 vrel1 vs ws -> Forall2 crel q q' ->
  drel (Forall2 crel) (add_loop name idx anns vs q) (add_loop name idx anns ws q').
Proof.
  induction anns as [|a anns IH]; intros idx vs ws q q' Ha Hv Hq.
  - destruct Hv; simpl; auto.
  - inversion Ha as [|? ? Ha1 Ha2]; subst. destruct Hv as [|v w vs ws Hvw Hv]; simpl; auto.
    destruct a as [an|]; [|apply IH; auto].
    destruct v, w; simpl in Hvw; try contradiction; simpl.
    + destruct (a_opt an); simpl; auto.
    + apply IH; auto. apply Forall2_app; auto. constructor; [|constructor].
      unfold crel; simpl. repeat split; auto; apply Hvw.
    + reflexivity.
    + reflexivity.
Qed.
Lemma ctx_add_rel name vs ws anns q q' :
  match anns with None => True | Some l => Forall ann_ok l end -> Forall2 vrel1 vs ws -> Forall2 crel q q' ->
  drel (Forall2 crel) (ctx_add name vs anns q) (ctx_add name ws anns q').
Proof. unfold ctx_add. destruct anns as [l|]; simpl; intros; [apply add_loop_rel; auto|auto]. Qed.

Lemma check_eq a x y name : trel x y -> D (a_dtypes a) -> check a x name = check a y name.
Proof. intros [Hs Hd] Ha. unfold check. rewrite Hs, (Hd _ Ha). reflexivity. Qed.
Lemma assert_one_eq c t u : crel t u -> assert_one c t = assert_one c u.
Proof.
  intros (Hi & Hn & Ha & Ht & Hd). unfold assert_one, tensor_arg_name. rewrite Hi, Hn, <- Ha.
  rewrite (check_eq _ _ _ _ Ht Hd). destruct Ht as [Hs _]. rewrite Hs. reflexivity.
Qed.
Lemma assert_context_eq : forall q q' c, Forall2 crel q q' -> assert_context c q = assert_context c q'.
Proof.
  induction q as [|t q IH]; intros q' c H; inversion H as [|? u ? q2 Htu Hq]; subst; simpl; auto.
  rewrite (assert_one_eq c t u Htu). destruct (assert_one c u); simpl; auto.
Qed.

Lemma arg_lookup_rel n : forall args args', Forall2 argrel args args' ->
  match arg_lookup n args, arg_lookup n args' with
  | Some v, Some w => vrel v w
  | None, None => True
  | _, _ => False
  end.
Proof.
  induction 1 as [|[a v] [b w] args args' [Hn Hv] _ IH]; simpl; auto.
  simpl in Hn, Hv. subst b. destruct (String.eqb a n); auto.
Qed.

Definition hints_ok (ps:rhints) : Prop := Forall (fun p => Forall ann_ok (snd (snd p))) ps.
Lemma resolve_types_ok anns ra : Forall ann_ok anns -> resolve_types anns = Some ra -> Forall ann_ok ra.
Proof. unfold resolve_types. destruct (forallb is_none anns); intros H [=]; subst; auto. Qed.

Lemma add_args_rel : forall ps args args' q q', hints_ok ps -> Forall2 argrel args args' -> Forall2 crel q q' ->
  drel (Forall2 crel) (add_args ps args q) (add_args ps args' q').
Proof.
  induction ps as [|[n [t anns]] ps IH]; intros args args' q q' Hp Ha Hq; simpl; auto.
  inversion Hp as [|? ? Hp1 Hp2]; subst. simpl in Hp1.
  destruct (String.eqb n "self" || String.eqb n "cls"); simpl; auto.
  destruct anns as [|a0 anns0]; [apply IH; auto|].
  pose proof (arg_lookup_rel n args args' Ha) as Hl.
  destruct (arg_lookup n args) as [v|], (arg_lookup n args') as [w|]; try contradiction; simpl; auto.
  destruct (resolve_types (a0 :: anns0)) as [ra|] eqn:Er; [|apply IH; auto].
  pose proof (resolve_value_rel t v w Hl) as Hr.
  destruct (resolve_value t v) as [vs|x], (resolve_value t w) as [ws|y]; try contradiction; simpl; auto.
  apply drel_bind with (R := Forall2 crel).
  - apply ctx_add_rel; auto. exact (resolve_types_ok _ _ Hp1 Er).
  - intros q1 q1' H1. apply IH; auto.
Qed.

(* what the caller observes: the same, up to the relation on the value handed back *)
Definition orel (o p:call_outcome) : Prop :=
  match o, p with
  | CReturned v, CReturned w => vrel v w
  | CRejected e, CRejected f => e = f
  | CCrashed x, CCrashed y => x = y
  | CBodyRaised, CBodyRaised => True
  | _, _ => False
  end.
Definition brel (b c:bres) : Prop :=
  match b, c with BReturn v, BReturn w => vrel v w | BRaise, BRaise => True | _, _ => False end.
Definition wrapped_ok (w:wrapped) : Prop :=
  hints_ok (w_params w) /\ match w_ret w with None => True | Some r => Forall ann_ok (snd r) end.

Theorem run_call_relabel w ps args args' body body' :
  wrapped_ok w -> Forall2 argrel args args' -> brel body body' ->
  fst (run_call w ps args body) = fst (run_call w ps args' body') /\
  orel (snd (run_call w ps args body)) (snd (run_call w ps args' body')).
Proof.
  intros [Hp Hr] Ha Hb. unfold run_call.
  destruct (initial_table (w_provider w) ps) as [sc|e|x]; simpl; auto.
  pose proof (add_args_rel (w_params w) args args' [] [] Hp Ha (Forall2_nil _)) as Hq.
  destruct (add_args (w_params w) args []) as [q|e|x], (add_args (w_params w) args' []) as [q'|e'|x'];
    simpl in Hq; try contradiction; simpl; subst; auto.
  rewrite (assert_context_eq q q' (ctx0 sc) Hq).
  destruct (assert_context (ctx0 sc) q') as [c|e|x]; simpl; auto.
  destruct body as [v|], body' as [v'|]; simpl in Hb; try contradiction; simpl; auto.
  destruct (w_ret w) as [[t anns]|]; simpl; auto. simpl in Hr.
  destruct (resolve_types anns) as [ra|] eqn:Er; simpl; auto.
  pose proof (resolve_value_rel t v v' Hb) as Hv.
  destruct (resolve_value t v) as [vs|x], (resolve_value t v') as [ws|y]; try contradiction; simpl; subst; auto.
  pose proof (ctx_add_rel "return" vs ws (Some ra) [] [] (resolve_types_ok _ _ Hr Er) Hv (Forall2_nil _)) as Hc.
  destruct (ctx_add "return" vs (Some ra) []) as [q1|e|x], (ctx_add "return" ws (Some ra) []) as [q1'|e'|x'];
    simpl in Hc; try contradiction; simpl; subst; auto.
  rewrite (assert_context_eq q1 q1' c Hc). destruct (assert_context c q1'); simpl; auto.
Qed.
End Relabel.
