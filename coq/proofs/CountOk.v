(* CountOk.v - the operand/operator count pre-check passes on every printed expression. *)
From DL Require Import Base Lexer Parser Grammar LexPrint.

Definition w_opd (t:tok) : nat := match t with TInt _ | TStr _ => 1 | _ => 0 end.
Definition w_bin (t:tok) : nat := match t with TOp o => if is_unary o then 0 else 1 | _ => 0 end.
Definition w_un (t:tok) : nat := match t with TOp o => if is_unary o then 1 else 0 | _ => 0 end.
Definition no_eq (t:tok) : bool := match t with TEq => false | _ => true end.
Definition total (w:tok->nat) (ts:list tok) : nat := fold_right (fun t n => w t + n) 0 ts.
Lemma total_app w a b : total w (a ++ b) = total w a + total w b.
Proof. induction a; simpl; auto. rewrite IHa. lia. Qed.
Lemma total_rev w a : total w (rev a) = total w a.
Proof. induction a; simpl; auto. rewrite total_app, IHa. simpl. lia. Qed.

Lemma count_valid_spec ts : forall e a, forallb no_eq ts = true ->
  count_valid ts e a = Ok (e + 2 * total w_bin ts + total w_un ts, a + total w_opd ts + total w_bin ts + total w_un ts).
Proof.
  induction ts as [|t ts IH]; intros e a H; simpl.
  - apply f_equal; apply f_equal2; lia.
  - simpl in H. apply andb_true_iff in H as [Ht H]. destruct t; try discriminate; simpl;
      try destruct (is_unary o); rewrite IH by auto; apply f_equal; apply f_equal2; lia.
Qed.

Lemma general_count ts : forallb no_eq ts = true -> total w_opd ts = total w_bin ts + 1 ->
  (do p <- count_valid (rev ts) 1 0; let '(e,a) := p in if Nat.eqb e a then Ok tt else Err SyntaxErr) = Ok tt.
Proof.
  intros Hn Hc. rewrite count_valid_spec by (rewrite forallb_forall in *; intros x Hx; apply Hn; apply in_rev; exact Hx).
  rewrite !total_rev. cbn [bind]. rewrite Hc.
  replace (1 + 2 * total w_bin ts + total w_un ts) with (0 + (total w_bin ts + 1) + total w_bin ts + total w_un ts) by lia.
  rewrite Nat.eqb_refl. reflexivity.
Qed.

Lemma assert_valid_counts ts : ts <> [] -> forallb no_eq ts = true -> total w_opd ts = total w_bin ts + 1 ->
  assert_token_list_valid ts = Ok tt.
Proof.
  intros Hne Hn Hc. pose proof (general_count ts Hn Hc) as G.
  destruct ts as [|t1 [|t2 [|t3 r]]]; [congruence| | |];
    destruct t1 as [? | ? |o| | | |]; try destruct o; try destruct t2; try reflexivity; exact G.
Qed.

Lemma print_counts e : ops_ok e ->
  forallb no_eq (print e) = true /\ total w_opd (print e) = total w_bin (print e) + 1.
Proof.
  induction e; simpl; intros H; auto.
  - destruct H as (Hi & H1 & H2). destruct (IHe1 H1) as [A1 B1]. destruct (IHe2 H2) as [A2 B2].
    rewrite forallb_app, !total_app. simpl. rewrite A1, A2. split; auto.
    assert (is_unary o = false) by (destruct o; try discriminate; reflexivity). rewrite H. lia.
  - destruct H as [Hu H]. destruct (IHe H) as [A B]. rewrite forallb_app, !total_app. simpl. rewrite A, Hu. split; auto. lia.
  - destruct H as (Hu & H1 & H2). destruct (IHe1 H1) as [A1 B1]. destruct (IHe2 H2) as [A2 B2].
    rewrite forallb_app, !total_app. simpl. rewrite forallb_app, !total_app. simpl. rewrite A1, A2. split; auto.
    assert (is_unary o = false) by (destruct o; try discriminate; reflexivity). rewrite H. lia.
  - destruct (IHe H) as [A B]. rewrite forallb_app, !total_app. simpl. rewrite A. split; auto. lia.
Qed.
Lemma print_nonempty e : print e <> [].
Proof. destruct e; simpl; try discriminate. destruct (print e1); discriminate. Qed.

Theorem count_ok e : ops_ok e -> assert_token_list_valid (print e) = Ok tt.
Proof. intros H. destruct (print_counts e H). apply assert_valid_counts; auto. apply print_nonempty. Qed.

Theorem tokenize_print e : names_ok e -> ops_ok e -> tokenize (print_string e) = Ok (print e).
Proof. intros Hn Ho. unfold tokenize. rewrite lex_print by auto. cbn [bind]. rewrite count_ok by auto. reflexivity. Qed.
