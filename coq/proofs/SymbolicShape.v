(* SymbolicShape.v - Shape[...] as a whole: the string a sequence of symbolic axes prints to is accepted by
   parse_shape and every dimension of the resulting annotation means what its axis means in Python. *)
From DL Require Import Base Lexer Parser Eval Shape Symbolic Grammar Denote LexPrint ParseEval ShapeSound ShapeComplete Digits SymbolicProof.

Lemma lvl_ge_1 s : 1 <= lvl s.
Proof. unfold lvl. destruct (infix_prec s) as [p|] eqn:E; [|lia]. destruct s; try discriminate. injection E as <-. destruct o; simpl; lia. Qed.

Definition axis_ok (a:saxis) : Prop :=
  match a with
  | SAExpr s => sym_ok s
  | SAConst x v => valid_ident x = true /\ (0 <= v)%Z
  | SAAnon => True
  | SAStar x => valid_ident x = true /\ reserved x = false
  end.
Definition embed_axis (a:saxis) : gdim :=
  match a with
  | SAExpr s => GExpr (embed s)
  | SAConst x v => GNamed x (Lit (string_of_Z v))
  | SAAnon => GAnon
  | SAStar x => GStar x
  end.
Definition amarker (a:saxis) : bool := match a with SAAnon | SAStar _ => true | _ => false end.
Fixpoint amarkers (l:list saxis) : nat := match l with [] => 0 | a :: r => (if amarker a then 1 else 0) + amarkers r end.
Definition axis_means (a:saxis) (d:dimexpr) : Prop :=
  match a with
  | SAExpr s => d_anon d = false /\ d_named d = false /\ forall sc, scope_ok sc -> evaluate d sc true = pyden s sc
  | SAConst x v => d_ident d = x /\ d_anon d = false /\ d_named d = false /\ forall sc, evaluate d sc false = Ok v
  | SAAnon => d_anon d = true /\ d_named d = false
  | SAStar x => d_named d = true /\ d_anon d = false /\ d_ident d = x
  end.

Lemma join_space_sp l : join_space l = join_sp l.
Proof. induction l as [|s r IH]; [reflexivity|]. destruct r as [|s' r']; [reflexivity|].
  change (join_space (s :: s' :: r')) with (String.append s (String " " (join_space (s' :: r')))). rewrite IH. reflexivity. Qed.

Lemma print_axis_embed a : axis_ok a -> print_axis a = Ok (print_dim (embed_axis a)) /\ gdim_ok (embed_axis a).
Proof.
  destruct a as [s|x v| |x]; simpl; intros H.
  - destruct (embed_correct s H) as (P & N & W & _). split; [exact P|]. split; [apply W; apply lvl_ge_1|exact N].
  - destruct H as [Hx Hv]. destruct (lit_ok v Hv) as [N _]. split; [reflexivity|]. repeat split; auto.
  - auto.
  - auto.
Qed.
Lemma print_axes_embed l : Forall axis_ok l ->
  print_axes l = Ok (map print_dim (map embed_axis l)) /\ Forall gdim_ok (map embed_axis l).
Proof.
  induction 1 as [|a l Ha _ [IH1 IH2]]; simpl; [split; [reflexivity|constructor]|].
  destruct (print_axis_embed a Ha) as [P G]. rewrite P. cbn [bind]. rewrite IH1. cbn [bind]. split; [reflexivity|constructor; auto].
Qed.
Lemma gmarkers_embed l : gmarkers (map embed_axis l) = amarkers l.
Proof. induction l as [|a l IH]; simpl; auto. rewrite IH. destruct a; reflexivity. Qed.

Lemma means_embed a d : axis_ok a -> dim_means (embed_axis a) d -> axis_means a d.
Proof.
  destruct a as [s|x v| |x]; simpl; intros Hok Hm; auto.
  - destruct Hm as (_ & A & N & V). destruct (embed_correct s Hok) as (_ & _ & _ & D).
    repeat split; auto. intros sc Hs. rewrite (V sc Hs). apply D.
  - destruct Hm as (I & _ & A & N & V). destruct Hok as [_ Hv]. destruct (lit_ok v Hv) as [_ D].
    split; [exact I|]. split; [exact A|]. split; [exact N|]. intros sc. rewrite (V sc). simpl in D. exact (D sc).
Qed.

Theorem shape_print_parse l : l <> [] -> Forall axis_ok l -> amarkers l <= 1 ->
  exists str ty, print_sshape l = Ok str /\ parse_shape str = Ok ty /\ Forall2 axis_means l (t_shape ty) /\
                 (amarkers l = 0 -> t_mindex ty = None) /\
                 (forall j a, nth_error l j = Some a -> amarker a = true -> t_mindex ty = Some j).
Proof.
  intros Hne Hok Hm. destruct (print_axes_embed l Hok) as [P G].
  assert (Hne': map embed_axis l <> []) by (destruct l; [contradiction|discriminate]).
  assert (Hm': gmarkers (map embed_axis l) <= 1) by (rewrite gmarkers_embed; exact Hm).
  destruct (parse_shape_complete (map embed_axis l) Hne' G Hm') as (ty & E & F & Z & M).
  exists (print_shape (map embed_axis l)), ty. split.
  - unfold print_sshape. rewrite P. cbn [bind]. rewrite join_space_sp. reflexivity.
  - split; [exact E|]. split.
    + clear -F Hok. revert F. generalize (t_shape ty). induction Hok as [|a l Ha _ IH]; intros ds F; inversion F; subst; constructor.
      * apply means_embed; auto.
      * apply IH; auto.
    + split; [intros H0; apply Z; rewrite gmarkers_embed; exact H0|].
      intros j a Hn Ha. apply (M j (embed_axis a)).
      * rewrite nth_error_map. rewrite Hn. reflexivity.
      * destruct a; simpl in *; auto.
Qed.
