(* SourceTie.v - the tables and formulas TRANSLATED from the Python source on every run (coq/gen/GenSrc.v, written by
   harness/srctie.py) agree with the hand-written model: operator semantics, operator classes, precedence ORDER (the
   parser only ever compares precedences), operator strings, the identifier pattern; for the symbolic classes their
   precedence order, constant folding and printed operator.  Any edit of these in /repo breaks a lemma here. *)
From DL Require Import Base Lexer Parser Eval Symbolic Grammar LexPrint SymbolicProof GenSrc.

Theorem src_eval_bin_agrees o a b : src_eval_bin o a b = eval_bin o a b.
Proof. destruct o; reflexivity. Qed.
Theorem src_eval_un_agrees a : src_eval_un_op ISQRT a = eval_un a.
Proof. reflexivity. Qed.
Theorem src_classes o : src_is_unary o = is_unary o /\ src_is_binfun o = is_binfun o /\ src_is_infix o = is_infix o.
Proof. destruct o; repeat split; reflexivity. Qed.
(* the keys of _op_precedence: the operators and "(" *)
Definition src_p (k:option op) : nat := match k with Some o => src_prec o | None => src_prec_lparen end.
Definition mod_p (k:option op) : nat := match k with Some o => prec o | None => prec_lparen end.
Theorem src_prec_order k1 k2 : (src_p k1 <=? src_p k2) = (mod_p k1 <=? mod_p k2).
Proof. destruct k1 as [[]|], k2 as [[]|]; reflexivity. Qed.
Theorem src_strings o : src_op_string o = op_string o.
Proof. destruct o; reflexivity. Qed.
Theorem src_ident : src_ident_rx = "^[a-zA-Z][a-zA-Z0-9\_]*$"%string.
Proof. reflexivity. Qed.

Theorem src_sym_prec_order o1 o2 : is_infix o1 = true -> is_infix o2 = true ->
  exists p1 p2, src_sym_prec o1 = Some p1 /\ src_sym_prec o2 = Some p2 /\ (p1 ?= p2) = (prec o1 ?= prec o2).
Proof. destruct o1, o2; intros H1 H2; try discriminate; (eexists; eexists; split; [reflexivity|split; reflexivity]). Qed.
Theorem src_sym_functions o : is_infix o = false -> src_sym_prec o = None.
Proof. destruct o; intros H; try discriminate; reflexivity. Qed.
Theorem src_sym_fold_agrees o a b : o <> ISQRT -> src_sym_fold o a b = fold_bin o a b.
Proof. destruct o; intros H; try reflexivity; try contradiction. Qed.
Theorem src_sym_text_agrees o : src_sym_text o = op_str o.
Proof. destruct o; reflexivity. Qed.

Definition parser_tables_agree : Prop :=
  (forall o a b, src_eval_bin o a b = eval_bin o a b) /\ (forall a, src_eval_un_op ISQRT a = eval_un a) /\
  (forall o, src_is_unary o = is_unary o /\ src_is_binfun o = is_binfun o /\ src_is_infix o = is_infix o) /\
  (forall k1 k2, (src_p k1 <=? src_p k2) = (mod_p k1 <=? mod_p k2)) /\
  (forall o, src_op_string o = op_string o) /\ src_ident_rx = "^[a-zA-Z][a-zA-Z0-9\_]*$"%string.
Lemma parser_tables : parser_tables_agree.
Proof. repeat split; auto using src_eval_bin_agrees, src_eval_un_agrees, src_prec_order, src_strings, src_ident; apply src_classes. Qed.
Definition symbolic_tables_agree : Prop :=
  (forall o1 o2, is_infix o1 = true -> is_infix o2 = true ->
     exists p1 p2, src_sym_prec o1 = Some p1 /\ src_sym_prec o2 = Some p2 /\ (p1 ?= p2) = (prec o1 ?= prec o2)) /\
  (forall o, is_infix o = false -> src_sym_prec o = None) /\
  (forall o a b, o <> ISQRT -> src_sym_fold o a b = fold_bin o a b) /\ (forall o, src_sym_text o = op_str o).
Lemma symbolic_tables : symbolic_tables_agree.
Proof. repeat split; auto using src_sym_prec_order, src_sym_functions, src_sym_fold_agrees, src_sym_text_agrees. Qed.
