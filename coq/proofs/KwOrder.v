(* KwOrder.v - the order in which a caller writes keyword arguments (or a constructor its fields) is irrelevant:
   every entry point looks values up by name ([arg_lookup]) and walks the parameters / fields in declaration order.
   Stated over permutations of the bound-argument list with distinct names (Python's binding guarantees distinct names). *)
From Coq Require Import Permutation.
From DL Require Import Base Lexer Parser Eval Shape Dtypes Check Context Hints Call Entry.
Local Arguments ctx_add : simpl never.
Local Arguments validate_field : simpl never.

Lemma arg_lookup_not_in n (args:list (string*value)) : ~ In n (map fst args) -> arg_lookup n args = None.
Proof.
  induction args as [|[a v] r IH]; simpl; intros H; [reflexivity|].
  destruct (String.eqb_spec a n) as [->|Hne]; [exfalso; apply H; left; reflexivity|].
  apply IH. intros Hin. apply H. right. exact Hin.
Qed.

Lemma arg_lookup_perm n (a b:list (string*value)) : Permutation a b -> NoDup (map fst a) -> arg_lookup n a = arg_lookup n b.
Proof.
  intros P. induction P as [|[x v] l l' P IH|[x v] [y u] l|l l' l'' P1 IH1 P2 IH2]; intros ND.
  - reflexivity.
  - simpl. destruct (String.eqb x n); [reflexivity|]. apply IH. simpl in ND. inversion ND; assumption.
  - simpl. destruct (String.eqb_spec y n) as [->|Hy]; destruct (String.eqb_spec x n) as [->|Hx]; try reflexivity.
    simpl in ND. inversion ND as [|? ? Hnin _]. exfalso. apply Hnin. left. reflexivity.
  - rewrite IH1 by assumption. apply IH2.
    eapply Permutation_NoDup; [apply Permutation_map; exact P1 | exact ND].
Qed.

Lemma add_args_perm ps : forall a b q, Permutation a b -> NoDup (map fst a) -> add_args ps a q = add_args ps b q.
Proof.
  induction ps as [|[n [it anns]] ps IH]; intros a b q P ND; simpl; [reflexivity|].
  destruct (String.eqb n "self" || String.eqb n "cls"); [reflexivity|].
  destruct anns as [|an anns']; [apply IH; assumption|].
  rewrite (arg_lookup_perm n a b P ND).
  destruct (arg_lookup n b) as [v|]; [|reflexivity].
  destruct (resolve_types (an :: anns')) as [ra|]; [|apply IH; assumption].
  destruct (resolve_value it v) as [vs|x]; [|reflexivity].
  destruct (ctx_add n vs (Some ra) q) as [q1|e|x]; cbn [dbind]; try reflexivity. apply IH; assumption.
Qed.

Theorem run_call_kw_order : forall w ps a b body, Permutation a b -> NoDup (map fst a) ->
  run_call w ps a body = run_call w ps b body.
Proof. intros w ps a b body P ND. unfold run_call. rewrite (add_args_perm (w_params w) a b [] P ND). reflexivity. Qed.

Lemma add_fields_perm ps : forall a b q, Permutation a b -> NoDup (map fst a) -> add_fields ps a q = add_fields ps b q.
Proof.
  induction ps as [|[n [it anns]] ps IH]; intros a b q P ND; simpl; [reflexivity|].
  rewrite (arg_lookup_perm n a b P ND).
  destruct (arg_lookup n b) as [v|]; [|reflexivity].
  destruct (resolve_types anns) as [ra|]; [|apply IH; assumption].
  destruct (resolve_value it v) as [vs|x]; [|reflexivity].
  destruct (ctx_add n vs (Some ra) q) as [q1|e|x]; cbn [dbind]; try reflexivity. apply IH; assumption.
Qed.
Theorem run_construct_kw_order : forall ps a b, Permutation a b -> NoDup (map fst a) -> run_construct ps a = run_construct ps b.
Proof. intros ps a b P ND. unfold run_construct. rewrite (add_fields_perm ps a b [] P ND). reflexivity. Qed.

Lemma run_pydantic_from_perm fields : forall c a b, Permutation a b -> NoDup (map fst a) ->
  run_pydantic_from c fields a = run_pydantic_from c fields b.
Proof.
  induction fields as [|[n an] r IH]; intros c a b P ND; simpl; [reflexivity|].
  rewrite (arg_lookup_perm n a b P ND).
  destruct (arg_lookup n b) as [[| x | |]|]; try reflexivity.
  - destruct (a_opt an); [apply IH; assumption|reflexivity].
  - destruct (validate_field c n an x) as [c1|e|y]; cbn [dbind]; try reflexivity. apply IH; assumption.
Qed.
Theorem run_pydantic_kw_order : forall fields a b, Permutation a b -> NoDup (map fst a) -> run_pydantic fields a = run_pydantic fields b.
Proof. intros. unfold run_pydantic. apply run_pydantic_from_perm; assumption. Qed.
