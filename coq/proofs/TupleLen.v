(* TupleLen.v - DLTypeContext.add on a tuple: exact characterisation (C11).
   [add_loop_queue] (Structural.v) says what a successful add contributes.  Here: (1) a tuple of the wrong length is
   never accepted and never truncated - for every pair of lists of different length the result is an error, whatever the
   common prefix looks like; (2) the converse: equal lengths and admissible positions always succeed, so success is
   decided by exactly those two conditions; (3) position faithfulness: the elements queued are exactly the positions
   that carry an annotation and an array, each with the annotation and the value found AT THAT position, numbered by
   the position, in increasing order. *)
From Coq Require Import Sorted.
From DL Require Import Base Lexer Parser Eval Shape Dtypes Check Context Hints Call Structural.

Lemma add_loop_length_mismatch name : forall anns idx vals q,
  length anns <> length vals -> forall q', add_loop name idx anns vals q <> DOk q'.
Proof. intros anns idx vals q L q' H. apply add_loop_queue in H as [_ E]. exact (L E). Qed.

(* a position is admissible when it has no annotation, or holds an array, or holds None under an optional annotation *)
Definition admissible (a:option annot) (v:value) : bool :=
  match a, v with
  | None, _ => true
  | Some _, VArr _ => true
  | Some an, VNone => a_opt an
  | Some _, _ => false
  end.
Fixpoint all_admissible (anns:list (option annot)) (vals:list value) : bool :=
  match anns, vals with
  | a :: anns', v :: vals' => admissible a v && all_admissible anns' vals'
  | _, _ => true
  end.

Lemma add_loop_complete name : forall anns idx vals q,
  length anns = length vals -> all_admissible anns vals = true ->
  add_loop name idx anns vals q = DOk (q ++ expected_queue name idx anns vals).
Proof.
  induction anns as [|a anns IH]; intros idx vals q L A; destruct vals as [|v vals]; simpl in L; try discriminate.
  - simpl. rewrite app_nil_r. reflexivity.
  - injection L as L. cbn [all_admissible] in A. apply andb_prop in A as [A1 A2].
    destruct a as [an|]; [destruct v; cbn [admissible] in A1; try discriminate|].
    + cbn [add_loop expected_queue]. rewrite A1. apply IH; assumption.
    + cbn [add_loop expected_queue]. rewrite (IH (S idx) vals _ L A2). rewrite <- app_assoc. reflexivity.
    + cbn [add_loop]. rewrite (IH (S idx) vals q L A2). destruct v; reflexivity.
Qed.

Lemma add_loop_sound_admissible name : forall anns idx vals q q',
  add_loop name idx anns vals q = DOk q' -> all_admissible anns vals = true.
Proof.
  induction anns as [|a anns IH]; intros idx vals q q' H; destruct vals as [|v vals]; try reflexivity.
  cbn [all_admissible]. cbn [add_loop] in H. destruct a as [an|].
  - destruct v; try discriminate; cbn [admissible].
    + destruct (a_opt an); [|discriminate]. exact (IH _ _ _ _ H).
    + exact (IH _ _ _ _ H).
  - exact (IH _ _ _ _ H).
Qed.

(* success is decided by exactly: equal lengths and admissible positions *)
Lemma add_loop_ok_iff name anns idx vals q :
  (exists q', add_loop name idx anns vals q = DOk q') <-> (length anns = length vals /\ all_admissible anns vals = true).
Proof.
  split.
  - intros [q' H]. split; [exact (proj2 (add_loop_queue _ _ _ _ _ _ H)) | exact (add_loop_sound_admissible _ _ _ _ _ _ H)].
  - intros [L A]. eexists. apply add_loop_complete; assumption.
Qed.

(* position faithfulness of the queue *)
Lemma expected_queue_positions name : forall anns idx vals c,
  In c (expected_queue name idx anns vals) <->
  exists i, nth_error anns i = Some (Some (c_annot c)) /\ nth_error vals i = Some (VArr (c_tensor c)) /\
            c_idx c = idx + i /\ c_name c = name.
Proof.
  induction anns as [|a anns IH]; intros idx vals c.
  - simpl. split; [tauto|]. intros [[|i] [H _]]; discriminate.
  - destruct vals as [|v vals].
    + assert (expected_queue name idx (a :: anns) [] = []) as -> by (destruct a; reflexivity).
      split; [intros []|]. intros [[|i] (_ & H & _)]; discriminate.
    + assert (Hskip : forall (P:Prop), (In c (expected_queue name (S idx) anns vals) <-> P) ->
                (exists i, nth_error anns i = Some (Some (c_annot c)) /\ nth_error vals i = Some (VArr (c_tensor c)) /\
                           c_idx c = S idx + i /\ c_name c = name) <-> P).
      { intros P HP. rewrite <- HP. symmetry. apply IH. }
      destruct a as [an|]; [destruct v as [|x|vs|]|]; cbn [expected_queue].
      all: try (rewrite IH; split;
                [intros (i & H1 & H2 & H3 & H4); exists (S i); cbn [nth_error]; repeat split; try assumption; lia
                |intros ([|i] & H1 & H2 & H3 & H4); cbn [nth_error] in H1, H2; try discriminate;
                 exists i; repeat split; try assumption; lia]).
      (* the one position that is queued *)
      cbn [In]. rewrite IH. split.
      * intros [<-|(i & H1 & H2 & H3 & H4)].
        -- exists 0. cbn. repeat split; lia.
        -- exists (S i). cbn [nth_error]. repeat split; try assumption; lia.
      * intros ([|i] & H1 & H2 & H3 & H4); cbn [nth_error] in H1, H2.
        -- left. injection H1 as H1. injection H2 as H2. destruct c as [ci cn ct ca]; cbn in *. subst. f_equal. lia.
        -- right. exists i. repeat split; try assumption; lia.
Qed.

(* the queue is in position order *)
Lemma expected_queue_sorted name : forall anns idx vals,
  StronglySorted (fun a b => c_idx a < c_idx b) (expected_queue name idx anns vals).
Proof.
  induction anns as [|a anns IH]; intros idx vals; [constructor|].
  destruct vals as [|v vals]; [destruct a; constructor|].
  destruct a as [an|]; [destruct v|]; cbn [expected_queue]; try apply IH.
  constructor; [apply IH|]. apply Forall_forall. intros c Hc.
  apply expected_queue_positions in Hc as (i & _ & _ & Hi & _). cbn. lia.
Qed.

(* non-vacuity: a three-position tuple with a plain middle position and a None under an optional annotation *)
Example mismatch_is_an_error an x : add_loop "t" 0 [Some an; None] [VArr x] [] = DCrash ValueErr.
Proof. reflexivity. Qed.
