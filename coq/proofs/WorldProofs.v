(* WorldProofs.v - isolation of checked calls for the repaired code (configuration `current`), and machine-checked
   counterexamples for the code as it was (configuration `legacy`). *)
From DL Require Import Base Lexer Parser Eval Shape Dtypes Check Context Hints Call World.

(* what a call decides when nothing but its own ingredients is looked at *)
Definition call_alone (al:list (string*annot)) (pv:pstatus) (f:wfn) (args:list (string*value)) : call_outcome :=
  snd (run_call (wrapped_of current {| aliases := al; providers := [] |} f) pv args (BReturn VNone)).

Lemma wrapped_of_current_aliases w f :
  wrapped_of current w f = wrapped_of current {| aliases := aliases w; providers := [] |} f.
Proof. reflexivity. Qed.

Theorem call_leaves_world_unchanged w f args : fst (step current w (CallOp f args)) = w.
Proof. reflexivity. Qed.
Theorem decoration_leaves_world_unchanged w f : fst (step current w (Decorate f)) = w.
Proof. reflexivity. Qed.
Theorem call_outcome_is_local w f args :
  snd (step current w (CallOp f args)) = Some (call_alone (aliases w) (provider_value w f) f args).
Proof. reflexivity. Qed.

(* the provider mappings after the explicit updates of a history (the only thing calls may depend on) *)
Fixpoint apply_sets (pr:list (string*scope)) (h:list op) : list (string*scope) :=
  match h with
  | [] => pr
  | SetProvider p sc :: r => apply_sets (update p sc pr) r
  | _ :: r => apply_sets pr r
  end.
Definition expected_outcome (al:list (string*annot)) (pr:list (string*scope)) (o:op) : option call_outcome :=
  match o with
  | CallOp f args => Some (call_alone al (provider_value {| aliases := al; providers := pr |} f) f args)
  | _ => None
  end.
Fixpoint expected_outcomes (al:list (string*annot)) (pr:list (string*scope)) (h:list op) : list (option call_outcome) :=
  match h with
  | [] => []
  | o :: r => expected_outcome al pr o :: expected_outcomes al (apply_sets pr [o]) r
  end.

(* every call of every history: its outcome is what the call decides alone, with the annotations as written and
   the provider's value at that moment; aliases and provider mappings are only changed by explicit updates *)
Theorem history_isolated : forall h w,
  run_history current w h =
  ({| aliases := aliases w; providers := apply_sets (providers w) h |}, expected_outcomes (aliases w) (providers w) h).
Proof.
  induction h as [|o h IH]; intros w; simpl.
  - destruct w; reflexivity.
  - destruct o as [f|f args|p sc]; simpl; rewrite IH; simpl; reflexivity.
Qed.

(* in particular: calls (from any number of threads, in any interleaving) do not influence each other *)
Definition is_call (o:op) : bool := match o with CallOp _ _ => true | _ => false end.
Lemma apply_sets_calls pr h : forallb is_call h = true -> apply_sets pr h = pr.
Proof. induction h as [|o h IH]; simpl; auto. destruct o; simpl; try discriminate; auto. Qed.
Theorem calls_commute : forall h w, forallb is_call h = true ->
  snd (run_history current w h) = map (fun o => snd (step current w o)) h.
Proof.
  intros h w Hc. rewrite history_isolated. simpl.
  assert (G: forall pr, pr = providers w -> expected_outcomes (aliases w) pr h = map (fun o => snd (step current w o)) h).
  { induction h as [|o h IH]; intros pr Hpr; simpl; auto. simpl in Hc. apply andb_true_iff in Hc as [Ho Hh].
    destruct o; try discriminate. simpl. f_equal.
    - subst pr. destruct w; reflexivity.
    - apply IH; auto. }
  apply G. reflexivity.
Qed.
(* decoration order is irrelevant: decorations do not touch the world at all *)
Theorem decorations_irrelevant : forall ds w, (forall o, In o ds -> exists f, o = Decorate f) ->
  fst (run_history current w ds) = w.
Proof.
  intros ds w H. rewrite history_isolated. simpl.
  assert (apply_sets (providers w) ds = providers w).
  { clear -H. revert H. generalize (providers w). induction ds as [|o ds IH]; intros pr H; simpl; auto.
    destruct (H o (or_introl eq_refl)) as [f ->]. apply IH. intros o Ho. apply H. right. exact Ho. }
  rewrite H0. destruct w; reflexivity.
Qed.
