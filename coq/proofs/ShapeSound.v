(* ShapeSound.v - C06 for the model: an accepted shape string is in the documented grammar, a rejected one is
   rejected with SyntaxError and nothing else, and an accepted one never fails later for reasons of form. *)
From DL Require Import Base Lexer Parser Eval Shape Grammar Denote LexPrint CountOk SY EvalCompile ParseEval AcceptSound.

(* ---- the lexer only produces tokens pfi_sound can work with, and only SyntaxError ---- *)
Lemma span_tok_ok s : tok_ok (span_tok s).
Proof.
  unfold span_tok. destruct (s =? "min")%string eqn:E1; [exact I|]. destruct (s =? "max")%string eqn:E2; [exact I|].
  destruct (s =? "isqrt")%string eqn:E3; [exact I|]. destruct (isnumeric s) eqn:En.
  - simpl. exists s. auto.
  - simpl. unfold reserved. rewrite E1, E2, E3. reflexivity.
Qed.
Lemma char_tok_ok c t : char_tok c = Some t -> tok_ok t.
Proof. unfold char_tok. repeat match goal with |- context [if ?b then _ else _] => destruct b end; intros [= <-]; exact I. Qed.
Lemma flush_span_ok span acc : Forall tok_ok acc -> Forall tok_ok (flush_span span acc).
Proof. intros H. unfold flush_span. destruct (span =? "")%string; auto. constructor; auto. apply span_tok_ok. Qed.
Lemma lex_ok s : forall span acc ts, Forall tok_ok acc -> lex s span acc = Ok ts -> Forall tok_ok ts.
Proof.
  induction s as [|c s IH]; intros span acc ts Ha H; simpl in H.
  - injection H as <-. apply Forall_rev. apply flush_span_ok. exact Ha.
  - destruct (Ascii.eqb c " "); [discriminate|]. destruct (char_tok c) as [t|] eqn:Ec.
    + eapply IH; [|exact H]. constructor; [eapply char_tok_ok; eauto|apply flush_span_ok; exact Ha].
    + eapply IH; eauto.
Qed.
Lemma lex_err s : forall span acc x, lex s span acc = Err x -> x = SyntaxErr.
Proof. induction s as [|c s IH]; intros span acc x H; simpl in H; [discriminate|].
  destruct (Ascii.eqb c " "); [congruence|]. destruct (char_tok c); eapply IH; eauto. Qed.
Lemma count_valid_err ts : forall e a x, count_valid ts e a = Err x -> x = SyntaxErr.
Proof. induction ts as [|t ts IH]; intros e a x H; simpl in H; [discriminate|].
  destruct t; try (eapply IH; eauto; fail); try congruence. destruct (is_unary o); eapply IH; eauto. Qed.
Lemma assert_valid_err ts x : assert_token_list_valid ts = Err x -> x = SyntaxErr.
Proof.
  unfold assert_token_list_valid.
  assert (G: forall l, (do p <- count_valid (rev l) 1 0; let '(e, a) := p in if e =? a then Ok tt else Err SyntaxErr) = Err x -> x = SyntaxErr).
  { intros l H. destruct (count_valid (rev l) 1 0) as [[e a]|y] eqn:E; cbn [bind] in H.
    - destruct (e =? a); congruence. - injection H as <-. eapply count_valid_err; eauto. }
  destruct ts as [|t1 [|t2 [|t3 r]]]; try congruence;
    destruct t1 as [? | ? |o| | | |]; try destruct o; try destruct t2; try discriminate; try (apply G).
Qed.
Lemma tokenize_ok s ts : tokenize s = Ok ts -> Forall tok_ok ts.
Proof. unfold tokenize. destruct (lex s "" []) as [l|] eqn:E; [|discriminate]. cbn [bind].
  destruct (assert_token_list_valid l); [|discriminate]. cbn [bind]. intros [= <-]. eapply lex_ok; [|exact E]. constructor. Qed.
Lemma tokenize_err s x : tokenize s = Err x -> x = SyntaxErr.
Proof. unfold tokenize. destruct (lex s "" []) as [l|y] eqn:E; cbn [bind].
  - destruct (assert_token_list_valid l) eqn:E2; cbn [bind]; [discriminate|]. intros [= <-]. eapply assert_valid_err; eauto.
  - intros [= <-]. eapply lex_err; eauto. Qed.

(* ---- the parser loop raises SyntaxError only (given the fuel the entry point supplies) ---- *)
Lemma get_group_err ts x : get_group ts = Err x -> x = SyntaxErr.
Proof. unfold get_group. destruct (ggi ts 0 0%Z None []) as [[[l|] cs] [r|]]; try congruence.
  destruct ((r <? l) || existsb _ cs); congruence. Qed.
Lemma slice_length ts a b : length (slice ts a b) <= length ts - a.
Proof. unfold slice. rewrite firstn_length, skipn_length. lia. Qed.
Lemma pfi_err : forall f ts st po ex x, length ts < f -> pfi f ts st po ex = Err x -> x = SyntaxErr.
Proof.
  induction f as [|f IH]; intros ts st po ex x Hl H; [lia|].
  rewrite pfi_S in H. unfold pfi_body in H. destruct ts as [|t ts'].
  { destruct ex; congruence. }
  simpl in Hl. destruct (Bool.eqb (tok_is_infix t) ex); [congruence|].
  assert (Hargs: forall bs lhs pp, args (pfi f) (t :: ts') bs lhs pp = Err x -> x = SyntaxErr).
  { induction bs as [|b bs IHb]; intros lhs pp Ha; simpl in Ha; [discriminate|].
    destruct (pfi f (slice (t :: ts') (S lhs) b) [] [] true) eqn:E; cbn [bind] in Ha.
    - eapply IHb; eauto.
    - injection Ha as <-. eapply IH; [|exact E]. pose proof (slice_length (t :: ts') (S lhs) b). simpl in *. lia. }
  destruct t; try congruence.
  - eapply IH; [|exact H]. lia.
  - destruct (valid_ident s); [|congruence]. eapply IH; [|exact H]. lia.
  - destruct (is_infix o).
    + destruct (flush st po (prec o)). eapply IH; [|exact H]. lia.
    + destruct (flush st po (prec o)) as [st1 po1].
      destruct (get_group (TOp o :: ts')) as [[[l cs] rp]|y] eqn:Eg; cbn [bind] in H; [|injection H as <-; eapply get_group_err; eauto].
      destruct (negb (l =? 1)); [congruence|]. destruct (is_binfun o && negb (length cs =? 1)); [congruence|].
      destruct (is_unary o && negb (length cs =? 0)); [congruence|].
      destruct (args (pfi f) (TOp o :: ts') (cs ++ [rp]) l po1) eqn:Ea; cbn [bind] in H.
      * eapply IH; [|exact H]. rewrite skipn_length. simpl. lia.
      * injection H as <-. eapply Hargs; eauto.
  - destruct (flush st po prec_lparen) as [st1 po1].
    destruct (get_group (TLP :: ts')) as [[[l cs] rp]|y] eqn:Eg; cbn [bind] in H; [|injection H as <-; eapply get_group_err; eauto].
    destruct (negb (length cs =? 0)); [congruence|].
    destruct (pfi f (slice (TLP :: ts') (S l) rp) [] [] true) eqn:Ed; cbn [bind] in H.
    + eapply IH; [|exact H]. rewrite skipn_length. simpl. lia.
    + injection H as <-. eapply IH; [|exact Ed]. pose proof (slice_length (TLP :: ts') (S l) rp). simpl in *. lia.
Qed.
Lemma mk_dimexpr_err i p a b c x : mk_dimexpr i p a b c = Err x -> x = SyntaxErr.
Proof. unfold mk_dimexpr. cbv zeta. match goal with |- (if ?c then _ else _) = _ -> _ => destruct c end; congruence. Qed.
Theorem expression_from_string_err s x : expression_from_string s = Err x -> x = SyntaxErr.
Proof.
  unfold expression_from_string. destruct (s =? "")%string; [congruence|].
  destruct (split_eq s "") as [[i b]|].
  - destruct (true && negb (valid_ident i)); [congruence|].
    destruct (tokenize b) as [ts|y] eqn:Et; cbn [bind]; [|intros [= <-]; eapply tokenize_err; eauto].
    destruct (maybe_multiaxis i ts); [congruence|].
    destruct (postfix_from_infix ts) as [post|y] eqn:Ep; cbn [bind]; [|intros [= <-]; eapply pfi_err; [|exact Ep]; lia].
    destruct (mk_dimexpr i post false false false) eqn:Em; cbn [bind]; [|intros [= <-]; eapply mk_dimexpr_err; eauto].
    destruct (true && existsb (ptok_is_name i) post); congruence.
  - cbn [andb]. destruct (tokenize s) as [ts|y] eqn:Et; cbn [bind]; [|intros [= <-]; eapply tokenize_err; eauto].
    destruct (maybe_multiaxis s ts) as [r|] eqn:Emm.
    + intros ->. unfold maybe_multiaxis in Emm.
      destruct ts as [|t1 ts0]; [discriminate|]. destruct t1; try discriminate.
      * destruct ts0; [|discriminate]. destruct (s0 =? "...")%string; [|discriminate]. injection Emm as Emm. eapply mk_dimexpr_err; eauto.
      * destruct o; try discriminate. destruct ts0 as [|t2 ts1]; [discriminate|]. destruct t2; try discriminate.
        destruct ts1; [|discriminate]. destruct (valid_ident s0); injection Emm as Emm; [eapply mk_dimexpr_err; eauto|congruence].
    + destruct (postfix_from_infix ts) as [post|y] eqn:Ep; cbn [bind]; [|intros [= <-]; eapply pfi_err; [|exact Ep]; lia].
      destruct (mk_dimexpr s post false false false) eqn:Em; cbn [bind]; [|intros [= <-]; eapply mk_dimexpr_err; eauto].
      cbn [andb]. congruence.
Qed.

(* ---- accepted dimensions are in the grammar ---- *)
Lemma vars_in_compile e x : In x (vars e) -> existsb (ptok_is_name x) (compile e) = true.
Proof.
  induction e; simpl; intros H; try contradiction.
  - destruct H as [->|[]]. rewrite String.eqb_refl. reflexivity.
  - rewrite !existsb_app. apply in_app_or in H as [H|H]; [rewrite IHe1|rewrite IHe2]; auto. apply orb_true_r.
  - rewrite existsb_app, IHe; auto.
  - rewrite !existsb_app. apply in_app_or in H as [H|H]; [rewrite IHe1|rewrite IHe2]; auto. apply orb_true_r.
  - auto.
Qed.

Inductive dim_form (s:string) (d:dimexpr) : Prop :=
| F_anon : tokenize s = Ok [TStr "..."] -> d_anon d = true -> d_named d = false -> dim_form s d
| F_star x : tokenize s = Ok [TOp MUL; TStr x] -> valid_ident x = true -> d_named d = true -> d_anon d = false ->
             d_ident d = x -> d_post d = [PName x] -> d_literal d = false -> dim_form s d
| F_expr e : tokenize s = Ok (print e) -> wf 1 e -> names_ok e -> d_ident d = s -> d_post d = compile e ->
             d_anon d = false -> d_named d = false -> d_literal d = forallb ptok_is_int (compile e) -> dim_form s d
| F_named x body e : split_eq s "" = Some (x, body) -> valid_ident x = true -> tokenize body = Ok (print e) ->
             wf 1 e -> names_ok e -> ~ In x (vars e) -> d_ident d = x -> d_post d = compile e ->
             d_anon d = false -> d_named d = false -> d_literal d = forallb ptok_is_int (compile e) -> dim_form s d.

Lemma mk_dimexpr_fields i p a b c d : mk_dimexpr i p a b c = Ok d ->
  d_ident d = i /\ d_post d = p /\ d_anon d = b /\ d_named d = c /\ d_mlit d = a /\
  d_literal d = (negb a && forallb ptok_is_int p).
Proof. unfold mk_dimexpr. cbv zeta. match goal with |- (if ?c then _ else _) = _ -> _ => destruct c end; [discriminate|].
  intros [= <-]. simpl. repeat split; reflexivity. Qed.

Theorem expression_from_string_sound s d : expression_from_string s = Ok d -> dim_form s d.
Proof.
  unfold expression_from_string. destruct (s =? "")%string; [discriminate|].
  destruct (split_eq s "") as [[i b]|] eqn:Es.
  - destruct (valid_ident i) eqn:Ev; cbn [andb negb]; [|discriminate].
    destruct (tokenize b) as [ts|] eqn:Et; [|discriminate]. cbn [bind].
    destruct (maybe_multiaxis i ts); [discriminate|].
    destruct (postfix_from_infix ts) as [post|] eqn:Ep; [|discriminate]. cbn [bind].
    destruct (mk_dimexpr i post false false false) as [d0|] eqn:Em; [|discriminate]. cbn [bind].
    destruct (existsb (ptok_is_name i) post) eqn:Ex; [discriminate|]. intros [= <-].
    destruct (postfix_from_infix_sound ts post (tokenize_ok _ _ Et) Ep) as (e & P & W & N & ->).
    apply mk_dimexpr_fields in Em as (A & B & C & D & _ & L).
    eapply (F_named s d0 i b e); eauto; try congruence.
    intros Hin. apply vars_in_compile in Hin. congruence.
  - cbn [andb]. destruct (tokenize s) as [ts|] eqn:Et; [|discriminate]. cbn [bind].
    destruct (maybe_multiaxis s ts) as [r|] eqn:Emm.
    + intros ->. unfold maybe_multiaxis in Emm.
      destruct ts as [|t1 ts0]; [discriminate|]. destruct t1; try discriminate.
      * destruct ts0; [|discriminate]. destruct (s0 =? "...")%string eqn:E3; [|discriminate].
        assert (Em: mk_dimexpr s [] false true false = Ok d) by congruence.
        apply String.eqb_eq in E3. subst s0. apply mk_dimexpr_fields in Em as (A & B & C & D & _).
        apply F_anon; auto.
      * destruct o; try discriminate. destruct ts0 as [|t2 ts1]; [discriminate|]. destruct t2; try discriminate.
        destruct ts1; [|discriminate]. destruct (valid_ident s0) eqn:Ev; [|discriminate].
        assert (Em: mk_dimexpr s0 [PName s0] false false true = Ok d) by congruence.
        apply mk_dimexpr_fields in Em as (A & B & C & D & _ & L). eapply (F_star s d s0); eauto.
    + destruct (postfix_from_infix ts) as [post|] eqn:Ep; [|discriminate]. cbn [bind].
      destruct (mk_dimexpr s post false false false) as [d0|] eqn:Em; [|discriminate]. cbn [bind].
      cbn [andb]. intros [= <-].
      destruct (postfix_from_infix_sound ts post (tokenize_ok _ _ Et) Ep) as (e & P & W & N & ->).
      apply mk_dimexpr_fields in Em as (A & B & C & D & _ & L).
      eapply (F_expr s d0 e); eauto; congruence.
Qed.

(* no error of form can surface later: the postfix program of an accepted dimension evaluates like its
   expression - the only possible errors are an unbound name and the undefined points of arithmetic *)
Definition arithmetic_or_unbound (x:exn) : Prop :=
  match x with KeyErr _ | ZeroDivErr | ValueErr | Unmodelled => True | _ => False end.
Lemma eval_bin_errors o a b y : eval_bin o a b = Err y -> arithmetic_or_unbound y.
Proof.
  destruct o; simpl; try discriminate.
  - unfold eval_pow. repeat match goal with |- context [if ?c then _ else _] => destruct c end; try discriminate; intros [= <-]; exact I.
  - destruct (b =? 0)%Z; [intros [= <-]; exact I|discriminate].
  - intros [= <-]. exact I.
Qed.
Lemma den_errors e sc : forall y, den e sc = Err y -> arithmetic_or_unbound y.
Proof.
  induction e; simpl; intros y H; try discriminate.
  - destruct (lookup x sc); [discriminate|]. injection H as <-. exact I.
  - destruct (den e1 sc); cbn [bind] in H; [|injection H as <-; auto].
    destruct (den e2 sc); cbn [bind] in H; [|injection H as <-; auto]. eapply eval_bin_errors; eauto.
  - destruct (den e sc); cbn [bind] in H; [|injection H as <-; auto].
    unfold eval_un in H. destruct (a <? 0)%Z; [injection H as <-; exact I|discriminate].
  - destruct (den e1 sc); cbn [bind] in H; [|injection H as <-; auto].
    destruct (den e2 sc); cbn [bind] in H; [|injection H as <-; auto]. eapply eval_bin_errors; eauto.
  - auto.
Qed.
Theorem no_late_error s d sc uc x : expression_from_string s = Ok d -> d_anon d = false ->
  evaluate d sc uc = Err x -> arithmetic_or_unbound x.
Proof.
  intros H Ha. apply expression_from_string_sound in H. unfold evaluate. rewrite Ha.
  destruct (if uc then lookup (d_ident d) sc else None); [discriminate|].
  destruct H as [? ? ? | x0 ? ? ? ? ? Hp ? | e ? W N ? Hp ? ? ? | x0 body e ? ? ? W N ? ? Hp ? ? ?]; try congruence.
  - rewrite Hp. simpl. destruct (lookup x0 sc); [discriminate|]. intros [= <-]. exact I.
  - rewrite Hp, (eval_compile_top e sc (wf_ops_ok _ _ W)). apply den_errors.
  - rewrite Hp, (eval_compile_top e sc (wf_ops_ok _ _ W)). apply den_errors.
Qed.

(* literal dimensions: a postfix program of integers only is a (parenthesised) number *)
Lemma all_int_value e : forallb ptok_is_int (compile e) = true -> exists v, forall sc, den e sc = Ok v.
Proof.
  induction e; simpl; intros H; try discriminate.
  - eauto.
  - rewrite !forallb_app in H. simpl in H. rewrite !andb_false_r in H. discriminate.
  - rewrite forallb_app in H. simpl in H. rewrite andb_false_r in H. discriminate.
  - rewrite !forallb_app in H. simpl in H. rewrite !andb_false_r in H. discriminate.
  - auto.
Qed.

(* ---- whole shape strings ---- *)
Definition is_marker (d:dimexpr) : bool := d_named d || d_anon d.
Fixpoint markers (ds:list dimexpr) : nat := match ds with [] => 0 | d :: r => (if is_marker d then 1 else 0) + markers r end.

Lemma parse_dims_spec ds : forall i acc mi mn an cnt r mi' mn' an' cnt',
  parse_dims ds i acc mi mn an cnt = Ok (r, mi', mn', an', cnt') ->
  exists new, r = rev acc ++ new /\ Forall2 (fun s d => expression_from_string s = Ok d) ds new /\
              cnt' = cnt + markers new /\ (markers new = 0 -> mi' = mi) /\
              (forall j d, nth_error new j = Some d -> is_marker d = true -> markers new <= 1 -> mi' = Some (i + j)).
Proof.
  induction ds as [|s ds IH]; intros i acc mi mn an cnt r mi' mn' an' cnt' H; simpl in H.
  - injection H as <- <- <- <- <-. exists []. rewrite app_nil_r. simpl. repeat split; auto; try constructor.
    intros [|j] d Hn; discriminate.
  - destruct (expression_from_string s) as [d|] eqn:E; [|discriminate]. cbn [bind] in H.
    apply IH in H as (new & -> & F & C & Z & M). exists (d :: new). fold (is_marker d) in *.
    split; [simpl; rewrite <- app_assoc; reflexivity|]. split; [constructor; auto|].
    simpl. destruct (is_marker d) eqn:Em.
    + split; [lia|]. split; [intros; lia|].
      intros [|j] d' Hn Hm Hle; simpl in Hn.
      * rewrite Nat.add_0_r. apply Z. lia.
      * replace (i + S j) with (S i + j) by lia. eapply M; eauto. lia.
    + split; [lia|]. split; [exact Z|].
      intros [|j] d' Hn Hm Hle; simpl in Hn.
      * injection Hn as <-. congruence.
      * replace (i + S j) with (S i + j) by lia. eapply M; eauto.
Qed.

Lemma lits_ok ds : forall i mi, (forall j d, nth_error ds j = Some d -> d_literal d = true ->
                                   mi = Some (i + j) \/ exists v, evaluate d [] true = Ok v) ->
  exists ls, lits ds i mi = Ok ls.
Proof.
  induction ds as [|d ds IH]; intros i mi H; simpl; [eauto|].
  assert (Hrest: forall j d', nth_error ds j = Some d' -> d_literal d' = true -> mi = Some (S i + j) \/ exists v, evaluate d' [] true = Ok v).
  { intros j d' Hn Hl. replace (S i + j) with (i + S j) by lia. apply (H (S j)); auto. }
  destruct (IH (S i) mi Hrest) as [rest Hr].
  destruct (d_literal d) eqn:El; cbn [andb]; [|rewrite Hr; eauto].
  destruct (H 0 d eq_refl El) as [->|[v Hv]].
  - rewrite Nat.add_0_r in *. rewrite Nat.eqb_refl. cbn [negb]. rewrite Hr. eauto.
  - destruct (negb match mi with Some m => m =? i | None => false end); [|rewrite Hr; eauto].
    rewrite Hv. cbn [bind]. rewrite Hr. cbn [bind]. eauto.
Qed.

Lemma dim_form_literal_value s d : dim_form s d -> d_literal d = true ->
  is_marker d = true \/ exists v, evaluate d [] true = Ok v.
Proof.
  intros F Hl. destruct F as [? Ha ? | x0 ? ? ? ? ? Hp L | e ? W N ? Hp Ha ? L | x0 body e ? ? ? W N ? ? Hp Ha ? L].
  - left. unfold is_marker. rewrite Ha. apply orb_true_r.
  - congruence.
  - right. rewrite L in Hl. destruct (all_int_value e Hl) as [v Hv]. exists v. unfold evaluate. rewrite Ha. simpl. rewrite Hp.
    rewrite (eval_compile_top e [] (wf_ops_ok _ _ W)). apply Hv.
  - right. rewrite L in Hl. destruct (all_int_value e Hl) as [v Hv]. exists v. unfold evaluate. rewrite Ha. simpl. rewrite Hp.
    rewrite (eval_compile_top e [] (wf_ops_ok _ _ W)). apply Hv.
Qed.

Lemma parse_dims_err l : forall i acc mi mn an cnt y, parse_dims l i acc mi mn an cnt = Err y -> y = SyntaxErr.
Proof.
  induction l as [|s l IH]; intros i acc mi mn an cnt y H; simpl in H; [discriminate|].
  destruct (expression_from_string s) as [d0|z] eqn:E; cbn [bind] in H; [eapply IH; eauto|].
  assert (z = y) by congruence. subst z. eapply expression_from_string_err; eauto.
Qed.
Theorem parse_shape_err s x : parse_shape s = Err x -> x = SyntaxErr.
Proof.
  unfold parse_shape. destruct (split_ws s "" []) as [|p ps]; [congruence|].
  destruct (parse_dims (p :: ps) 0 [] None None false 0) as [[[[[ds mi] mn] an] cnt]|y] eqn:Ep; cbn [bind].
  2:{ intros [= <-]. eapply parse_dims_err; eauto. }
  destruct (1 <? cnt) eqn:Ec; [congruence|]. apply Nat.ltb_ge in Ec.
  apply parse_dims_spec in Ep as (new & -> & F & C & Z & M). simpl in *. subst cnt.
  destruct (lits_ok new 0 mi) as [ls Hls].
  { intros j d Hn Hl.
    assert (Hs: exists s0, expression_from_string s0 = Ok d).
    { clear -F Hn. revert j Hn. induction F; intros [|j] Hn; simpl in Hn; try discriminate; [injection Hn as <-; eauto|eauto]. }
    destruct Hs as [s0 Hs0]. destruct (dim_form_literal_value s0 d (expression_from_string_sound _ _ Hs0) Hl) as [Hm|Hv]; auto.
    left. simpl. eapply M; eauto. }
  rewrite Hls. cbn [bind]. discriminate.
Qed.

Theorem parse_shape_sound s ty : parse_shape s = Ok ty ->
  split_ws s "" [] <> [] /\ Forall2 dim_form (split_ws s "" []) (t_shape ty) /\ markers (t_shape ty) <= 1.
Proof.
  unfold parse_shape. destruct (split_ws s "" []) as [|p ps] eqn:Es; [discriminate|].
  destruct (parse_dims (p :: ps) 0 [] None None false 0) as [[[[[ds mi] mn] an] cnt]|] eqn:Ep; [|discriminate]. cbn [bind].
  destruct (1 <? cnt) eqn:Ec; [discriminate|]. apply Nat.ltb_ge in Ec.
  destruct (lits ds 0 mi); [|discriminate]. cbn [bind]. intros [= <-]. simpl.
  apply parse_dims_spec in Ep as (new & -> & F & C & _). simpl in *. subst cnt.
  split; [discriminate|]. split; [|lia].
  clear -F. induction F; constructor; auto. apply expression_from_string_sound. auto.
Qed.
