(* ParseEval.v - assembly of C05: every string of the grammar is accepted, parsed to the grammar's postfix
   program and evaluates to the arithmetic value. *)
From DL Require Import Base Lexer Parser Eval Grammar Denote LexPrint CountOk SY EvalCompile.

(* ---- facts about printed strings ---- *)
Lemma all_chars_sapp p a b : all_chars p (sapp a b) = all_chars p a && all_chars p b.
Proof. induction a; simpl; auto. unfold sapp in *. simpl. rewrite IHa. rewrite andb_assoc. reflexivity. Qed.
Definition not_eqc (c:ascii) : bool := negb (Ascii.eqb c "=").
Lemma identchar_not_eq c : is_identchar c = true -> not_eqc c = true.
Proof. destruct c as [[] [] [] [] [] [] [] []]; vm_compute; intros; try reflexivity; discriminate. Qed.
Lemma digit_not_eq c : is_digit c = true -> not_eqc c = true.
Proof. destruct c as [[] [] [] [] [] [] [] []]; vm_compute; intros; try reflexivity; discriminate. Qed.
Lemma ident_no_eq x : valid_ident x = true -> all_chars not_eqc x = true.
Proof. destruct x as [|c r]; [discriminate|]. simpl. intros H. apply andb_true_iff in H as [A B].
  rewrite (identchar_not_eq c (alpha_identchar c A)). simpl.
  eapply all_chars_impl; [apply identchar_not_eq|exact B]. Qed.
Lemma numeric_no_eq ds : isnumeric ds = true -> all_chars not_eqc ds = true.
Proof. destruct ds; [discriminate|]. unfold isnumeric. apply all_chars_impl. apply digit_not_eq. Qed.
Lemma print_no_eq e : names_ok e -> ops_ok e -> all_chars not_eqc (print_string e) = true.
Proof.
  induction e; simpl; intros Hn Ho.
  - apply numeric_no_eq; auto.
  - apply ident_no_eq; tauto.
  - destruct Hn, Ho as (Hi & ? & ?). destruct o; try discriminate;
      simpl; fold sapp; rewrite ?all_chars_sapp; simpl; fold sapp; rewrite ?all_chars_sapp; rewrite IHe1, IHe2 by auto; reflexivity.
  - destruct Ho as [Hu ?]. destruct o; try discriminate.
    simpl; fold sapp; rewrite ?all_chars_sapp; simpl; rewrite IHe by auto; reflexivity.
  - destruct Hn, Ho as (Hu & ? & ?). destruct o; try discriminate;
      simpl; fold sapp; rewrite ?all_chars_sapp; simpl; fold sapp; rewrite ?all_chars_sapp; simpl; rewrite IHe1, IHe2 by auto; reflexivity.
  - simpl; fold sapp; rewrite ?all_chars_sapp; simpl; rewrite IHe by auto; reflexivity.
Qed.
Lemma split_eq_none s : forall acc, all_chars not_eqc s = true -> split_eq s acc = None.
Proof. induction s; intros acc H; simpl; auto. simpl in H. apply andb_true_iff in H as [A B].
  unfold not_eqc in A. apply negb_true_iff in A. rewrite A. apply IHs; auto. Qed.
Lemma split_eq_some x : forall acc rest, all_chars not_eqc x = true ->
  split_eq (sapp x (String "=" rest)) acc = Some (sapp acc x, rest).
Proof. induction x; intros acc rest H; simpl.
  - rewrite sapp_nil_r. reflexivity.
  - simpl in H. apply andb_true_iff in H as [A B]. unfold not_eqc in A. apply negb_true_iff in A. rewrite A.
    fold (sapp x (String "=" rest)). rewrite IHx by auto. fold (sapp acc (String a "")). rewrite sapp_assoc. reflexivity.
Qed.
Lemma print_string_cons e : names_ok e -> exists c r, print_string e = String c r.
Proof. induction e; simpl; intros H.
  - destruct ds; [discriminate|eauto].
  - destruct x; [destruct H; discriminate|eauto].
  - destruct H as [H1 _]. destruct (IHe1 H1) as (c & r & ->). simpl. eauto.
  - destruct o; simpl; eauto. - destruct o; simpl; eauto. - eauto.
Qed.
Lemma print_nonempty_string e : names_ok e -> (print_string e =? "")%string = false.
Proof. intros H. destruct (print_string_cons e H) as (c & r & ->). reflexivity. Qed.

(* a printed expression that is not a bare name is not an identifier *)
Lemma identchars_false p a c b : p c = false -> all_chars p (sapp a (String c b)) = false.
Proof. intros H. rewrite all_chars_sapp. simpl. rewrite H. rewrite andb_false_r. reflexivity. Qed.
Lemma valid_ident_identchars s : all_chars is_identchar s = false -> valid_ident s = false.
Proof. destruct s as [|c r]; simpl; auto. intros H. apply andb_false_iff in H as [H|H].
  - destruct (is_alpha c) eqn:E; auto. rewrite (alpha_identchar _ E) in H. discriminate.
  - rewrite H. apply andb_false_r. Qed.
Lemma print_not_ident e : (forall x, e <> Var x) -> names_ok e -> ops_ok e -> valid_ident (print_string e) = false.
Proof.
  destruct e; intros Hv Hn Ho; simpl.
  - apply numeric_not_alpha; auto.
  - exfalso. eapply Hv; reflexivity.
  - destruct Ho as (Hi & _). apply valid_ident_identchars. fold sapp.
    destruct o; try discriminate; simpl; apply identchars_false; reflexivity.
  - destruct Ho as (Hu & _). apply valid_ident_identchars. destruct o; try discriminate.
    change (op_string ISQRT) with "isqrt". fold sapp.
    apply (identchars_false is_identchar "isqrt" "("%char). reflexivity.
  - destruct Ho as (Hu & _). apply valid_ident_identchars. destruct o; try discriminate; fold sapp.
    + apply (identchars_false is_identchar "min" "("%char). reflexivity.
    + apply (identchars_false is_identchar "max" "("%char). reflexivity.
  - reflexivity.
Qed.

Definition ptok_names_valid (p:ptok) : Prop := match p with PName y => valid_ident y = true | _ => True end.
Lemma compile_names_valid e : names_ok e -> Forall ptok_names_valid (compile e).
Proof. induction e; simpl; intros H.
  - repeat constructor. - repeat constructor. tauto.
  - destruct H. rewrite !Forall_app. repeat split; auto. repeat constructor.
  - rewrite Forall_app. split; auto. repeat constructor.
  - destruct H. rewrite !Forall_app. repeat split; auto. repeat constructor.
  - auto. Qed.
Lemma not_in_post ident post : valid_ident ident = false -> Forall ptok_names_valid post ->
  existsb (ptok_is_name ident) post = false.
Proof. intros Hi. induction 1 as [|p post Hp _ IH]; simpl; auto. rewrite IH, orb_false_r.
  destruct p; simpl; auto. simpl in Hp. apply String.eqb_neq. intros ->. congruence. Qed.
Lemma compile_names_vars e x : existsb (ptok_is_name x) (compile e) = true -> In x (vars e).
Proof. induction e; simpl; intros H; try discriminate.
  - rewrite orb_false_r in H. apply String.eqb_eq in H. auto.
  - rewrite !existsb_app in H. simpl in H. rewrite orb_false_r in H. apply orb_true_iff in H as [H|H]; apply in_or_app; auto.
  - rewrite existsb_app in H. simpl in H. rewrite orb_false_r in H. auto.
  - rewrite !existsb_app in H. simpl in H. rewrite orb_false_r in H. apply orb_true_iff in H as [H|H]; apply in_or_app; auto.
  - auto. Qed.

Lemma maybe_multiaxis_long ident ts : 3 <= length ts -> maybe_multiaxis ident ts = None.
Proof. destruct ts as [|t1 [|t2 [|t3 r]]]; simpl; try lia. intros _. destruct t1; auto. destruct o; auto. destruct t2; auto. Qed.
Lemma print_length e : 1 <= length (print e).
Proof. destruct e; simpl; try lia. rewrite app_length. simpl. lia. Qed.
Lemma maybe_multiaxis_print ident e : names_ok e -> maybe_multiaxis ident (print e) = None.
Proof.
  destruct e; intros Hn.
  - reflexivity.
  - simpl. destruct Hn as [Hv _]. destruct (x =? "...")%string eqn:E; auto. apply String.eqb_eq in E. subst. discriminate.
  - apply maybe_multiaxis_long. simpl. rewrite app_length. simpl. pose proof (print_length e1). pose proof (print_length e2). lia.
  - apply maybe_multiaxis_long. simpl. rewrite app_length. simpl. lia.
  - apply maybe_multiaxis_long. simpl. rewrite app_length. simpl. lia.
  - apply maybe_multiaxis_long. simpl. rewrite app_length. simpl. pose proof (print_length e). lia.
Qed.

(* scopes supplied by providers and built by the checker for names: keys are identifiers *)
Definition scope_ok (sc:scope) : Prop := forall k v, lookup k sc = Some v -> valid_ident k = true.
Lemma lookup_not_ident sc k : scope_ok sc -> valid_ident k = false -> lookup k sc = None.
Proof. intros Hs Hk. destruct (lookup k sc) eqn:E; auto. apply Hs in E. congruence. Qed.

(* ---- the theorem ---- *)
Definition parse_eval_stmt (e:expr) : Prop :=
  exists d, expression_from_string (print_string e) = Ok d /\ d_ident d = print_string e /\
            d_post d = compile e /\ d_anon d = false /\ d_named d = false /\
            forall sc, scope_ok sc -> evaluate d sc true = den e sc.
Lemma parse_eval_common e : wf 1 e -> names_ok e ->
  expression_from_string (print_string e) =
  (do d <- mk_dimexpr (print_string e) (compile e) false false false; Ok d).
Proof.
  intros Hw Hn. pose proof (wf_ops_ok _ _ Hw) as Ho.
  unfold expression_from_string. rewrite (print_nonempty_string e Hn).
  rewrite (split_eq_none _ "" (print_no_eq e Hn Ho)). cbn [andb].
  rewrite (tokenize_print e Hn Ho). cbn [bind]. rewrite (maybe_multiaxis_print _ e Hn).
  rewrite (shunting_yard_correct e Hw Hn). cbn [bind]. reflexivity.
Qed.
Lemma parse_eval_nonvar e : (forall x, e <> Var x) -> wf 1 e -> names_ok e -> parse_eval_stmt e.
Proof.
  intros Hnv Hw Hn. pose proof (wf_ops_ok _ _ Hw) as Ho. unfold parse_eval_stmt.
  rewrite (parse_eval_common e Hw Hn).
  assert (Hni: valid_ident (print_string e) = false) by (apply print_not_ident; auto).
  pose proof (not_in_post _ _ Hni (compile_names_valid e Hn)) as Hnp.
  unfold mk_dimexpr. rewrite Hnp. rewrite andb_false_r. cbn [bind].
  eexists; split; [reflexivity|]. simpl. repeat split; auto.
  intros sc Hs. unfold evaluate. simpl. rewrite (lookup_not_ident sc _ Hs Hni).
  apply eval_compile_top; auto.
Qed.
Lemma parse_eval_var x : names_ok (Var x) -> parse_eval_stmt (Var x).
Proof.
  intros Hn. unfold parse_eval_stmt. rewrite (parse_eval_common (Var x) I Hn).
  simpl. unfold mk_dimexpr. simpl. rewrite String.eqb_refl. simpl.
  eexists; split; [reflexivity|]. simpl. repeat split; auto.
  intros sc Hs. unfold evaluate. simpl. destruct (lookup x sc); reflexivity.
Qed.
Theorem parse_eval e : wf 1 e -> names_ok e -> parse_eval_stmt e.
Proof.
  intros Hw Hn. destruct e; try (apply parse_eval_nonvar; auto; intros; discriminate).
  apply parse_eval_var; auto.
Qed.

(* the `name=` form *)
Theorem parse_eval_named x e : wf 1 e -> names_ok e -> valid_ident x = true -> ~ In x (vars e) ->
  exists d, expression_from_string (sapp x (String "=" (print_string e))) = Ok d /\ d_ident d = x /\
            d_post d = compile e /\ d_anon d = false /\ d_named d = false /\
            forall sc, evaluate d sc false = den e sc.
Proof.
  intros Hw Hn Hx Hnin. pose proof (wf_ops_ok _ _ Hw) as Ho.
  unfold expression_from_string.
  assert (Hne: (sapp x (String "=" (print_string e)) =? "")%string = false) by (destruct x; [discriminate|reflexivity]).
  rewrite Hne. rewrite (split_eq_some x "" _ (ident_no_eq x Hx)). change (sapp "" x) with x. rewrite Hx. cbn [negb andb].
  rewrite (tokenize_print e Hn Ho). cbn [bind]. rewrite (maybe_multiaxis_print _ e Hn).
  rewrite (shunting_yard_correct e Hw Hn). cbn [bind].
  assert (Hnp: existsb (ptok_is_name x) (compile e) = false).
  { destruct (existsb (ptok_is_name x) (compile e)) eqn:E; auto. apply compile_names_vars in E. contradiction. }
  unfold mk_dimexpr. rewrite Hnp. rewrite andb_false_r. cbn [bind andb].
  eexists; split; [reflexivity|]. simpl. repeat split; auto.
  intros sc. unfold evaluate. simpl. apply eval_compile_top; auto.
Qed.
