(* SymbolicProof.v - the string a symbolic operator tree prints to is the printing of a stratified expression of
   the grammar whose arithmetic value is the tree's own (Python's) value. *)
From DL Require Import Base Eval Symbolic Grammar Denote LexPrint Digits.

Definition both_lit (l r:sym) : option (Z*Z) := match l, r with SLit a, SLit b => Some (a, b) | _, _ => None end.
Definition one_lit (a:sym) : option Z := match a with SLit z => Some z | _ => None end.
Definition okv (r:res Z) : Prop := exists v, r = Ok v.

(* the trees the theorem is about: identifiers are identifiers, operators stand in their places, folded constants are defined *)
Fixpoint sym_ok (s:sym) : Prop :=
  match s with
  | SLit z => True
  | SVar x => valid_ident x = true /\ reserved x = false
  | SBin o l r => is_infix o = true /\ match both_lit l r with Some (a, b) => okv (fold_bin o a b) | None => sym_ok l /\ sym_ok r end
  | SIsqrt a => match one_lit a with Some z => (0 <= z)%Z | None => sym_ok a end
  | SFun2 o a b => is_binfun o = true /\ match both_lit a b with Some (x, y) => okv (fold_bin o x y) | None => sym_ok a /\ sym_ok b end
  | SGroup a => sym_ok a
  end.
(* a constant of either sign as an expression of the grammar *)
Definition embed_const (z:Z) : expr :=
  if (z <? 0)%Z then Paren (Bin SUB (Lit "0") (Lit (string_of_Z (- z)))) else Lit (string_of_Z z).
Definition val (r:res Z) : Z := match r with Ok v => v | Err _ => 0%Z end.
Fixpoint embed (s:sym) : expr :=
  match s with
  | SLit z => embed_const z
  | SVar x => Var x
  | SBin o l r =>
      match both_lit l r with
      | Some (a, b) => embed_const (val (fold_bin o a b))
      | None => Bin o (if needs_paren (prec o) l false then Paren (embed l) else embed l)
                      (if needs_paren (prec o) r true then Paren (embed r) else embed r)
      end
  | SIsqrt a => match one_lit a with Some z => Lit (string_of_Z (val (eval_un z))) | None => Fun1 ISQRT (embed a) end
  | SFun2 o a b => match both_lit a b with Some (x, y) => embed_const (val (fold_bin o x y)) | None => Fun2 o (embed a) (embed b) end
  | SGroup a => Paren (embed a)
  end.

(* equations that hide the nested pattern matching of the printer *)
Lemma sprint_bin o l r : sprint (SBin o l r) =
  match both_lit l r with
  | Some (a, b) => do v <- fold_bin o a b; Ok (const_str v)
  | None => do sl <- sprint l; do sr <- sprint r;
            Ok (cat3 (if needs_paren (prec o) l false then cat3 "(" sl ")" else sl) (op_str o)
                     (if needs_paren (prec o) r true then cat3 "(" sr ")" else sr))
  end.
Proof. destruct l, r; reflexivity. Qed.
Lemma sprint_isqrt a : sprint (SIsqrt a) =
  match one_lit a with Some z => do v <- eval_un z; Ok (string_of_Z v) | None => do sa <- sprint a; Ok (cat3 "isqrt(" sa ")") end.
Proof. destruct a; reflexivity. Qed.
Lemma sprint_fun2 o a b : sprint (SFun2 o a b) =
  match both_lit a b with
  | Some (x, y) => do v <- fold_bin o x y; Ok (const_str v)
  | None => do sa <- sprint a; do sb <- sprint b; Ok (String.append (op_str o) (cat3 "(" (cat3 sa "," sb) ")"))
  end.
Proof. destruct a, b; reflexivity. Qed.
Lemma both_lit_some l r a b : both_lit l r = Some (a, b) -> l = SLit a /\ r = SLit b.
Proof. destruct l, r; simpl; intros H; try discriminate. injection H as -> ->. auto. Qed.
Lemma one_lit_some a z : one_lit a = Some z -> a = SLit z.
Proof. destruct a; simpl; intros H; try discriminate. injection H as ->. auto. Qed.
Lemma fold_is_eval o a b v : fold_bin o a b = Ok v -> eval_bin o a b = Ok v.
Proof. destruct o; simpl; auto. unfold eval_pow. destruct (0 <=? b)%Z; auto; discriminate. Qed.
Lemma op_str_string o : op_str o = op_string o. Proof. destruct o; reflexivity. Qed.

Definition lvl (s:sym) : nat := match infix_prec s with Some p => p | None => 4 end.
Lemma lit_ok z : (0 <= z)%Z -> names_ok (Lit (string_of_Z z)) /\ forall sc, den (Lit (string_of_Z z)) sc = Ok z.
Proof. intros H. destruct (string_of_Z_roundtrip z H) as [A B]. simpl. rewrite B. auto. Qed.
Lemma const_ok z : print_string (embed_const z) = const_str z /\ names_ok (embed_const z) /\ (forall k, wf k (embed_const z)) /\
                   forall sc, den (embed_const z) sc = Ok z.
Proof.
  unfold embed_const, const_str. destruct (z <? 0)%Z eqn:E.
  - apply Z.ltb_lt in E. assert (Hn: (0 <= - z)%Z) by lia. destruct (lit_ok (- z) Hn) as [N D].
    split; [reflexivity|]. split; [simpl; split; [reflexivity|exact N]|]. split.
    + intros k. simpl. repeat split; auto.
    + intros sc. pose proof (D sc) as Dz. cbn [den] in Dz |- *. change (lit_value "0") with 0%Z. cbn [bind]. injection Dz as Dz. rewrite Dz.
      cbn [eval_bin]. f_equal. lia.
  - apply Z.ltb_ge in E. destruct (lit_ok z E) as [N D]. split; [reflexivity|]. split; [exact N|]. split; [intros k; exact I|exact D].
Qed.

Theorem embed_correct s : sym_ok s ->
  sprint s = Ok (print_string (embed s)) /\ names_ok (embed s) /\ (forall k, k <= lvl s -> wf k (embed s)) /\
  (forall sc, den (embed s) sc = pyden s sc).
Proof.
  induction s as [z|x|o l IHl r IHr|a IHa|o a IHa b IHb|a IHa]; intros Hok.
  - destruct (const_ok z) as (P & N & W & D). cbn [sprint embed pyden]. rewrite P. repeat split; auto.
  - simpl in *. destruct Hok as [H1 H2]. repeat split; auto.
  - (* infix operation *)
    simpl in Hok. destruct Hok as [Hi Hok]. rewrite sprint_bin. cbn [embed pyden].
    destruct (both_lit l r) as [[a b]|] eqn:Eb.
    + destruct Hok as (v & Hv). apply both_lit_some in Eb as [-> ->]. rewrite Hv. cbn [bind val].
      destruct (const_ok v) as (P & N & W & D). rewrite P. repeat split; auto.
      intros sc. rewrite D. simpl. symmetry. apply fold_is_eval. exact Hv.
    + destruct Hok as [Hl Hr]. destruct (IHl Hl) as (Pl & Nl & Wl & Dl). destruct (IHr Hr) as (Pr & Nr & Wr & Dr).
      rewrite Pl, Pr. cbn [bind].
      assert (Hp3: prec o <= 3) by (destruct o; try discriminate; simpl; lia).
      assert (Hlvl1: forall t, 1 <= lvl t) by (intros t; unfold lvl; destruct (infix_prec t) as [p|] eqn:E; [|lia]; destruct t; try discriminate; injection E as <-; destruct o0; simpl; lia).
      split.
      { f_equal. simpl. rewrite op_str_string. unfold cat3.
        destruct (needs_paren (prec o) l false), (needs_paren (prec o) r true); reflexivity. }
      split.
      { simpl. destruct (needs_paren (prec o) l false), (needs_paren (prec o) r true); simpl; auto. }
      split.
      { intros k Hk. unfold lvl in Hk. simpl in Hk. simpl. split; [exact Hi|]. split; [exact Hk|]. split.
        - unfold needs_paren. unfold lvl in Wl. destruct (infix_prec l) as [p|] eqn:El.
          + destruct (p <? prec o) eqn:E1; cbn [orb andb].
            * simpl. apply Wl. pose proof (Hlvl1 l) as H1. unfold lvl in H1. rewrite El in H1. exact H1.
            * apply Wl. apply Nat.ltb_ge in E1. exact E1.
          + apply Wl. lia.
        - unfold needs_paren. unfold lvl in Wr. destruct (infix_prec r) as [p|] eqn:Er.
          + destruct (p <? prec o) eqn:E1; cbn [orb andb].
            * simpl. apply Wr. pose proof (Hlvl1 r) as H1. unfold lvl in H1. rewrite Er in H1. exact H1.
            * destruct (p =? prec o) eqn:E2.
              -- simpl. apply Wr. pose proof (Hlvl1 r) as H1. unfold lvl in H1. rewrite Er in H1. exact H1.
              -- apply Wr. apply Nat.ltb_ge in E1. apply Nat.eqb_neq in E2. lia.
          + apply Wr. lia. }
      { intros sc. simpl.
        assert (Dl': den (if needs_paren (prec o) l false then Paren (embed l) else embed l) sc = pyden l sc) by (destruct (needs_paren _ l _); simpl; apply Dl).
        assert (Dr': den (if needs_paren (prec o) r true then Paren (embed r) else embed r) sc = pyden r sc) by (destruct (needs_paren _ r _); simpl; apply Dr).
        rewrite Dl', Dr'. reflexivity. }
  - (* ISqrt *)
    simpl in Hok. rewrite sprint_isqrt. cbn [embed pyden]. destruct (one_lit a) as [z|] eqn:Ea.
    + apply one_lit_some in Ea as ->. unfold eval_un. destruct (z <? 0)%Z eqn:Ez; [apply Z.ltb_lt in Ez; lia|]. cbn [bind val].
      destruct (lit_ok (Z.sqrt z) (Z.sqrt_nonneg z)) as [N D]. repeat split; auto. intros sc. rewrite D. simpl. unfold eval_un. rewrite Ez. reflexivity.
    + destruct (IHa Hok) as (Pa & Na & Wa & Da). rewrite Pa. cbn [bind]. split; [reflexivity|]. split; [exact Na|]. split.
      * intros k _. simpl. split; [reflexivity|]. apply Wa. unfold lvl. destruct (infix_prec a) as [p|] eqn:E; [|lia].
        destruct a; try discriminate. injection E as <-. destruct o; simpl; lia.
      * intros sc. simpl. rewrite Da. reflexivity.
  - (* Min / Max *)
    simpl in Hok. destruct Hok as [Hb Hok]. rewrite sprint_fun2. cbn [embed pyden].
    destruct (both_lit a b) as [[x y]|] eqn:Eb.
    + destruct Hok as (v & Hv). apply both_lit_some in Eb as [-> ->]. rewrite Hv. cbn [bind val].
      destruct (const_ok v) as (P & N & W & D). rewrite P. repeat split; auto.
      intros sc. rewrite D. simpl. symmetry. apply fold_is_eval. exact Hv.
    + destruct Hok as [Ha Hb']. destruct (IHa Ha) as (Pa & Na & Wa & Da). destruct (IHb Hb') as (Pb & Nb & Wb & Db).
      rewrite Pa, Pb. cbn [bind].
      assert (Hlvl1: forall t, 1 <= lvl t) by (intros t; unfold lvl; destruct (infix_prec t) as [p|] eqn:E; [|lia]; destruct t; try discriminate; injection E as <-; destruct o0; simpl; lia).
      split.
      { f_equal. simpl. rewrite op_str_string. unfold cat3. fold sapp. rewrite !sapp_assoc. reflexivity. }
      split; [simpl; auto|]. split.
      * intros k _. simpl. split; [exact Hb|]. split; [apply Wa; apply Hlvl1|apply Wb; apply Hlvl1].
      * intros sc. simpl. rewrite Da, Db. reflexivity.
  - (* Group *)
    simpl in Hok. destruct (IHa Hok) as (Pa & Na & Wa & Da). simpl. rewrite Pa. cbn [bind]. split; [reflexivity|]. split; [exact Na|]. split; [|exact Da].
    intros k _. apply Wa. unfold lvl. destruct (infix_prec a) as [p|] eqn:E; [|lia].
    destruct a; try discriminate. injection E as <-. destruct o; simpl; lia.
Qed.
