(* ShapeWf.v - every annotation object the model can construct satisfies CheckSpec.wf_ttype. *)
From DL Require Import Base Lexer Parser Eval Shape Dtypes Check CheckSpec.

Lemma lits_bounds ds : forall i mi ls, lits ds i mi = Ok ls ->
  Forall (fun p => i <= fst p < i + length ds /\ mi <> Some (fst p)) ls.
Proof.
  induction ds as [|d ds IH]; intros i mi ls H; simpl in H.
  - injection H as <-. constructor.
  - destruct (d_literal d && negb (match mi with Some m => m =? i | None => false end)) eqn:E.
    + destruct (evaluate d [] true) as [v|]; [|discriminate]. cbn [bind] in H.
      destruct (lits ds (S i) mi) as [rest|] eqn:Er; [|discriminate]. cbn [bind] in H. injection H as <-.
      constructor.
      * simpl. split; [lia|]. apply andb_true_iff in E as [_ E]. apply negb_true_iff in E.
        destruct mi as [m|]; [|discriminate]. intros [= ->]. rewrite Nat.eqb_refl in E. discriminate.
      * apply IH in Er. eapply Forall_impl; [|exact Er]. simpl. intros p [A B]. split; auto. lia.
    + apply IH in H. eapply Forall_impl; [|exact H]. simpl. intros p [A B]. split; auto. lia.
Qed.

Lemma parse_dims_bounds ds : forall i acc mi mn an cnt r mi' mn' an' cnt',
  parse_dims ds i acc mi mn an cnt = Ok (r, mi', mn', an', cnt') ->
  length r = length acc + length ds /\
  (mi' = mi \/ exists j, mi' = Some j /\ i <= j < i + length ds).
Proof.
  induction ds as [|s ds IH]; intros i acc mi mn an cnt r mi' mn' an' cnt' H; simpl in H.
  - injection H as <- <- <- <- <-. rewrite rev_length. simpl. split; [lia|]. left; reflexivity.
  - destruct (expression_from_string s) as [d|]; [|discriminate]. cbn [bind] in H.
    apply IH in H as [A B]. simpl in A. simpl. split; [lia|].
    destruct B as [->|(j & -> & Hj)].
    + destruct (d_named d || d_anon d); [right; exists i; split; [reflexivity|lia]|left; reflexivity].
    + right. exists j. split; [reflexivity|lia].
Qed.

Theorem parse_shape_wf s ty : parse_shape s = Ok ty -> wf_ttype ty.
Proof.
  unfold parse_shape. destruct (split_ws s "" []) as [|p ps] eqn:Es; [discriminate|].
  destruct (parse_dims (p :: ps) 0 [] None None false 0) as [[[[[ds mi] mn] an] cnt]|] eqn:Ep; [|discriminate].
  cbn [bind]. destruct (1 <? cnt); [discriminate|].
  destruct (lits ds 0 mi) as [ls|] eqn:El; [|discriminate]. cbn [bind]. intros [= <-].
  apply parse_dims_bounds in Ep as [A B]. apply lits_bounds in El.
  unfold wf_ttype, declared. simpl. split.
  - eapply Forall_impl; [|exact El]. simpl. intros q [C D]. split; auto. lia.
  - destruct B as [->|(j & -> & Hj)]; auto. simpl in *. lia.
Qed.
Lemma scalar_type_wf : wf_ttype scalar_type.
Proof. unfold wf_ttype, scalar_type. simpl. split; auto. Qed.
