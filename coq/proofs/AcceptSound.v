(* AcceptSound.v - whatever the model of the parser accepts is a sequence `operand (infix operand)*` whose
   operands are numbers, identifiers, parenthesised sequences and function calls of the right arity; every such
   sequence is the printing of exactly one stratified expression, so (by SY) the postfix program is that
   expression's and later evaluation cannot fail for reasons of form. *)
From DL Require Import Base Lexer Parser Eval Grammar Denote LexPrint CountOk SY EvalCompile.

(* ---- right-spine insertion: appending `o a` to a stratified expression keeps it stratified ---- *)
Fixpoint extend (e:expr) (o:op) (a:expr) : expr :=
  match e with
  | Bin o' l r => if prec o' <? prec o then Bin o' l (extend r o a) else Bin o e a
  | _ => Bin o e a
  end.
Definition is_atom (a:expr) : Prop := match a with Bin _ _ _ => False | _ => True end.
Lemma atom_wf_any a lv : is_atom a -> wf 1 a -> wf lv a.
Proof. destruct a; simpl; tauto. Qed.
Lemma wf_weaken e : forall lv lv', lv' <= lv -> wf lv e -> wf lv' e.
Proof. destruct e; simpl; intros; auto. destruct H0 as (A & B & C & D). repeat split; auto. lia. Qed.
Lemma print_extend e o a : print (extend e o a) = print e ++ TOp o :: print a.
Proof.
  induction e; simpl; auto.
  destruct (prec o0 <? prec o); simpl; auto. rewrite IHe2. rewrite <- !app_assoc. reflexivity.
Qed.
Lemma wf_extend e : forall lv o a, wf lv e -> lv <= prec o -> is_infix o = true -> is_atom a -> wf 1 a ->
  wf lv (extend e o a).
Proof.
  induction e; intros lv o' a Hw Hl Hi Ha Hwa.
  3:{ simpl in Hw. destruct Hw as (A & B & C & D). simpl. destruct (prec o <? prec o') eqn:E.
      - apply Nat.ltb_lt in E. simpl. split; [exact A|]. split; [exact B|]. split; [exact C|]. apply IHe2; auto; lia.
      - apply Nat.ltb_ge in E. simpl. split; [exact Hi|]. split; [exact Hl|]. split; [|apply atom_wf_any; auto].
        simpl. split; [exact A|]. split; [lia|]. split; [exact C|exact D]. }
  all: simpl; simpl in Hw; (split; [exact Hi|]); (split; [exact Hl|]); (split; [|apply atom_wf_any; [exact Ha|exact Hwa]]); tauto.
Qed.
Lemma names_extend e o a : names_ok e -> names_ok a -> names_ok (extend e o a).
Proof. induction e; simpl; intros; auto. destruct (prec o0 <? prec o); simpl; tauto. Qed.

Fixpoint tail_print (tl:list (op*expr)) : list tok :=
  match tl with [] => [] | (o,a) :: r => TOp o :: print a ++ tail_print r end.
Definition atom_ok (a:expr) : Prop := is_atom a /\ wf 1 a /\ names_ok a.
Definition tail_ok (tl:list (op*expr)) : Prop := Forall (fun p => is_infix (fst p) = true /\ atom_ok (snd p)) tl.
Fixpoint resolve (e:expr) (tl:list (op*expr)) : expr :=
  match tl with [] => e | (o,a) :: r => resolve (extend e o a) r end.
Lemma resolve_spec tl : forall e, wf 1 e -> names_ok e -> tail_ok tl ->
  print (resolve e tl) = print e ++ tail_print tl /\ wf 1 (resolve e tl) /\ names_ok (resolve e tl).
Proof.
  induction tl as [|[o a] tl IH]; intros e Hw Hn Ht; simpl.
  - rewrite app_nil_r. auto.
  - inversion Ht as [|? ? [Hi (Ha & Hwa & Hna)] Hrest]; subst. simpl in *.
    destruct (IH (extend e o a)) as (P & W & N); auto.
    + apply wf_extend; auto. destruct o; try discriminate; simpl; lia.
    + apply names_extend; auto.
    + rewrite P, print_extend, <- app_assoc. simpl. auto.
Qed.

(* ---- what _get_group_indices returns points at the right tokens ---- *)
Lemma ggi_spec : forall ts idx depth lp cs l cs' rp,
  ggi ts idx depth lp cs = (Some l, cs', Some rp) ->
  (lp = Some l \/ (idx <= l /\ nth_error ts (l - idx) = Some TLP)) /\
  idx <= rp /\ nth_error ts (rp - idx) = Some TRP /\
  exists new, cs' = cs ++ new /\ Forall (fun c => idx <= c /\ c < rp /\ nth_error ts (c - idx) = Some TComma) new.
Proof.
  induction ts as [|t ts IH]; intros idx depth lp cs l cs' rp H; simpl in H; [discriminate|].
  assert (Hshift: forall k, S idx <= k -> nth_error (t :: ts) (k - idx) = nth_error ts (k - S idx)).
  { intros k Hk. replace (k - idx) with (S (k - S idx)) by lia. reflexivity. }
  assert (Hgen: forall d' lp' cs0, ggi ts (S idx) d' lp' cs0 = (Some l, cs', Some rp) ->
            (lp' = Some l \/ (S idx <= l /\ nth_error ts (l - S idx) = Some TLP)) /\ S idx <= rp /\
            nth_error ts (rp - S idx) = Some TRP /\
            exists new, cs' = cs0 ++ new /\ Forall (fun c => S idx <= c /\ c < rp /\ nth_error ts (c - S idx) = Some TComma) new).
  { intros; eapply IH; eauto. }
  assert (Hlift: forall new, Forall (fun c => S idx <= c /\ c < rp /\ nth_error ts (c - S idx) = Some TComma) new ->
                             Forall (fun c => idx <= c /\ c < rp /\ nth_error (t :: ts) (c - idx) = Some TComma) new).
  { intros new Hn. eapply Forall_impl; [|exact Hn]. simpl. intros c (A & B & C). rewrite Hshift by lia. repeat split; auto; lia. }
  destruct t.
  1,2,3,4: apply Hgen in H as (A & B & C & new & D & E); (split; [destruct A as [A|[A1 A2]]; [left; exact A|right; split; [lia|rewrite Hshift by lia; exact A2]]|]);
           (split; [lia|]); (split; [rewrite Hshift by lia; exact C|]); exists new; split; [exact D|apply Hlift; exact E].
  - (* TLP *)
    apply Hgen in H as (A & B & C & new & D & E).
    split.
    + destruct ((depth + 1 =? 1)%Z).
      * destruct A as [A|[A1 A2]]; [injection A as <-; right; split; [lia|rewrite Nat.sub_diag; reflexivity]|right; split; [lia|rewrite Hshift by lia; exact A2]].
      * destruct A as [A|[A1 A2]]; [left; exact A|right; split; [lia|rewrite Hshift by lia; exact A2]].
    + split; [lia|]. split; [rewrite Hshift by lia; exact C|]. exists new. split; [exact D|apply Hlift; exact E].
  - (* TRP *)
    destruct (depth =? 1)%Z.
    + injection H as <- <- <-. split; [left; reflexivity|]. split; [lia|]. split; [rewrite Nat.sub_diag; reflexivity|].
      exists []. rewrite app_nil_r. split; auto.
    + apply Hgen in H as (A & B & C & new & D & E).
      split; [destruct A as [A|[A1 A2]]; [left; exact A|right; split; [lia|rewrite Hshift by lia; exact A2]]|].
      split; [lia|]. split; [rewrite Hshift by lia; exact C|]. exists new. split; [exact D|apply Hlift; exact E].
  - (* TComma *)
    destruct (depth =? 1)%Z.
    + apply Hgen in H as (A & B & C & new & D & E).
      split; [destruct A as [A|[A1 A2]]; [left; exact A|right; split; [lia|rewrite Hshift by lia; exact A2]]|].
      split; [lia|]. split; [rewrite Hshift by lia; exact C|].
      exists (idx :: new). split; [rewrite D, <- app_assoc; reflexivity|].
      constructor; [|apply Hlift; exact E]. repeat split; try lia. rewrite Nat.sub_diag. reflexivity.
    + apply Hgen in H as (A & B & C & new & D & E).
      split; [destruct A as [A|[A1 A2]]; [left; exact A|right; split; [lia|rewrite Hshift by lia; exact A2]]|].
      split; [lia|]. split; [rewrite Hshift by lia; exact C|]. exists new. split; [exact D|apply Hlift; exact E].
Qed.

Lemma get_group_spec ts l cs rp : get_group ts = Ok (l, cs, rp) ->
  nth_error ts l = Some TLP /\ nth_error ts rp = Some TRP /\ l < rp /\
  Forall (fun c => l < c /\ c < rp /\ nth_error ts c = Some TComma) cs.
Proof.
  unfold get_group. destruct (ggi ts 0 0%Z None []) as [[[l0|] cs0] [r0|]] eqn:E; try discriminate.
  destruct ((r0 <? l0) || existsb (fun c => (c <? l0) || (r0 <? c)) cs0) eqn:Ec; [discriminate|].
  intros [= <- <- <-]. apply orb_false_iff in Ec as [E1 E2]. apply Nat.ltb_ge in E1.
  apply ggi_spec in E as (A & B & C & new & D & F). simpl in D. subst cs0.
  destruct A as [A|[_ A]]; [discriminate|]. rewrite Nat.sub_0_r in A, C.
  assert (Hlr: l0 <> r0) by (intros ->; rewrite A in C; discriminate).
  split; [exact A|]. split; [exact C|]. split; [lia|].
  rewrite Forall_forall in *. intros c Hc. destruct (F c Hc) as (F1 & F2 & F3). rewrite Nat.sub_0_r in F3.
  assert (Hcl: (c <? l0) || (r0 <? c) = false).
  { destruct ((c <? l0) || (r0 <? c)) eqn:Ex; auto. exfalso.
    assert (existsb (fun c => (c <? l0) || (r0 <? c)) new = true) by (apply existsb_exists; exists c; auto). congruence. }
  apply orb_false_iff in Hcl as [G1 G2]. apply Nat.ltb_ge in G1.
  assert (c <> l0) by (intros ->; rewrite A in F3; discriminate). repeat split; auto; lia.
Qed.

(* list surgery *)
Lemma nth_error_split' {A} (l:list A) i t : nth_error l i = Some t -> l = firstn i l ++ t :: skipn (S i) l.
Proof. revert i. induction l as [|a l IH]; intros [|i] H; simpl in *; try discriminate.
  - injection H as <-. reflexivity. - f_equal. apply IH. exact H. Qed.
Lemma firstn_split {A} (l:list A) : forall a b, a <= b -> firstn b l = firstn a l ++ firstn (b - a) (skipn a l).
Proof.
  induction l as [|x l IH]; intros a b H.
  - rewrite !firstn_nil. destruct a; simpl; rewrite firstn_nil; reflexivity.
  - destruct a as [|a].
    + simpl. rewrite Nat.sub_0_r. reflexivity.
    + destruct b as [|b]; [lia|]. simpl. f_equal. apply IH. lia.
Qed.
Lemma between ts l r t1 t2 : nth_error ts l = Some t1 -> nth_error ts r = Some t2 -> l < r ->
  ts = firstn l ts ++ t1 :: slice ts (S l) r ++ t2 :: skipn (S r) ts.
Proof.
  intros H1 H2 Hlr. rewrite (nth_error_split' ts r t2 H2) at 1.
  rewrite (firstn_split ts (S l) r) by lia. fold (slice ts (S l) r).
  rewrite (firstn_split ts l (S l)) by lia. replace (S l - l) with 1 by lia.
  assert (firstn 1 (skipn l ts) = [t1]).
  { clear -H1. revert l H1. induction ts as [|a ts IH]; intros [|l] H; simpl in *; try discriminate.
    - injection H as <-. reflexivity. - apply IH. exact H. }
  rewrite H. rewrite <- !app_assoc. reflexivity.
Qed.

Lemma ggi_lp_stable : forall ts idx depth l0 cs l cs' rp, (1 <= depth)%Z ->
  ggi ts idx depth (Some l0) cs = (Some l, cs', rp) -> l = l0.
Proof.
  induction ts as [|t ts IH]; intros idx depth l0 cs l cs' rp Hd H; simpl in H.
  - injection H as <- _ _. reflexivity.
  - destruct t; try (eapply IH; eauto; fail).
    + destruct (depth + 1 =? 1)%Z eqn:E; [lia|]. eapply IH; [|exact H]. lia.
    + destruct (depth =? 1)%Z eqn:E; [injection H as <- _ _; reflexivity|]. eapply IH; [|exact H]. apply Z.eqb_neq in E. lia.
    + destruct (depth =? 1)%Z; eapply IH; eauto.
Qed.
Lemma get_group_paren_first ts' l cs rp : get_group (TLP :: ts') = Ok (l, cs, rp) -> l = 0.
Proof.
  unfold get_group. simpl. destruct (ggi ts' 1 1%Z (Some 0) []) as [[[l0|] cs0] [r0|]] eqn:E; try discriminate.
  destruct ((r0 <? l0) || existsb (fun c => (c <? l0) || (r0 <? c)) cs0); [discriminate|]. intros [= <- _ _].
  eapply ggi_lp_stable; [|exact E]. lia.
Qed.

Lemma firstn_mid {A} (us:list A) : forall i n t, i < n -> nth_error us i = Some t ->
  firstn n us = firstn i us ++ t :: firstn (n - S i) (skipn (S i) us).
Proof.
  induction us as [|u us IH]; intros [|i] [|n] t Hin H; simpl in *; try discriminate; try lia.
  - injection H as <-. rewrite Nat.sub_0_r. reflexivity.
  - f_equal. apply IH; auto. lia.
Qed.
Lemma skipn_skipn' {A} (l:list A) : forall a b, skipn a (skipn b l) = skipn (a + b) l.
Proof. induction l as [|x l IH]; intros a [|b]; simpl.
  - destruct a; reflexivity. - destruct a; reflexivity.
  - rewrite Nat.add_0_r. reflexivity.
  - rewrite IH. replace (a + S b) with (S (a + b)) by lia. reflexivity. Qed.
Lemma nth_error_skipn {A} (l:list A) : forall a i, nth_error (skipn a l) i = nth_error l (a + i).
Proof. induction l as [|x l IH]; intros [|a] i; simpl; auto. destruct i; reflexivity. Qed.
Lemma slice_split ts a c b t : a <= c -> c < b -> nth_error ts c = Some t ->
  slice ts a b = slice ts a c ++ t :: slice ts (S c) b.
Proof.
  intros Hac Hcb H. unfold slice.
  rewrite (firstn_mid (skipn a ts) (c - a) (b - a) t); [|lia|rewrite nth_error_skipn; replace (a + (c - a)) with c by lia; exact H].
  rewrite skipn_skipn'. replace (S (c - a) + a) with (S c) by lia. replace (b - a - S (c - a)) with (b - S c) by lia. reflexivity.
Qed.
Lemma Forall_firstn {A} (P:A->Prop) l n : Forall P l -> Forall P (firstn n l).
Proof. revert n. induction l; intros [|n] H; simpl; auto. inversion H; subst. constructor; auto. Qed.
Lemma Forall_skipn {A} (P:A->Prop) l n : Forall P l -> Forall P (skipn n l).
Proof. revert n. induction l; intros [|n] H; simpl; auto. inversion H; subst. auto. Qed.

(* tokens as the lexer produces them *)
Definition tok_ok (t:tok) : Prop :=
  match t with
  | TInt z => exists ds, isnumeric ds = true /\ z = lit_value ds
  | TStr x => reserved x = false
  | _ => True
  end.
Lemma tok_ok_slice ts a b : Forall tok_ok ts -> Forall tok_ok (slice ts a b).
Proof. intros H. unfold slice. apply Forall_firstn, Forall_skipn, H. Qed.

(* every successful run of the loop has consumed `operand (infix operand)*` *)
Lemma pfi_sound : forall f ts stack post ex r, Forall tok_ok ts -> pfi f ts stack post ex = Ok r ->
  if ex then exists a tl, ts = print a ++ tail_print tl /\ atom_ok a /\ tail_ok tl
  else exists tl, ts = tail_print tl /\ tail_ok tl.
Proof.
  induction f as [|f IHf]; intros ts stack post ex r Htok H; [discriminate|].
  rewrite pfi_S in H. unfold pfi_body in H.
  destruct ts as [|t ts'].
  { destruct ex; [discriminate|]. exists []. split; auto. constructor. }
  destruct (Bool.eqb (tok_is_infix t) ex) eqn:Ex; [discriminate|].
  inversion Htok as [|? ? Ht Hts']; subst.
  assert (Hinner: forall sl d, Forall tok_ok sl -> pfi f sl [] [] true = Ok d ->
            exists e, print e = sl /\ wf 1 e /\ names_ok e).
  { intros sl d Hs Hd. apply IHf in Hd; auto. destruct Hd as (a & tl & -> & (Ha & Hw & Hn) & Htl).
    exists (resolve a tl). destruct (resolve_spec tl a Hw Hn Htl) as (P & W & N). auto. }
  destruct t; try discriminate.
  - (* number *)
    simpl in Ex. destruct ex; [|discriminate]. apply IHf in H; auto. destruct H as (tl & -> & Htl).
    destruct Ht as (ds & Hd & ->). exists (Lit ds), tl. split; [reflexivity|]. split; [|exact Htl].
    split; [exact I|]. split; [exact I|exact Hd].
  - (* identifier *)
    simpl in Ex. destruct ex; [|discriminate]. destruct (valid_ident s) eqn:Ev; [|discriminate].
    apply IHf in H; auto. destruct H as (tl & -> & Htl). exists (Var s), tl. split; [reflexivity|]. split; [|exact Htl].
    split; [exact I|]. split; [exact I|]. split; [exact Ev|exact Ht].
  - simpl in Ex. destruct (is_infix o) eqn:Ei.
    + (* infix operator *)
      destruct ex; [discriminate|]. destruct (flush stack post (prec o)) as [st po].
      apply IHf in H; auto. destruct H as (a & tl & -> & Ha & Htl).
      exists ((o, a) :: tl). split; [reflexivity|]. constructor; auto.
    + (* function call *)
      destruct ex; [|discriminate]. destruct (flush stack post (prec o)) as [st po].
      destruct (get_group (TOp o :: ts')) as [[[l cs] rp]|] eqn:Eg; [|discriminate]. cbn [bind] in H.
      destruct (negb (l =? 1)) eqn:El; [discriminate|]. apply negb_false_iff, Nat.eqb_eq in El. subst l.
      destruct (is_binfun o && negb (length cs =? 1)) eqn:Eb; [discriminate|].
      destruct (is_unary o && negb (length cs =? 0)) eqn:Eu; [discriminate|].
      destruct (args (pfi f) (TOp o :: ts') (cs ++ [rp]) 1 po) as [po'|] eqn:Ea; [|discriminate]. cbn [bind] in H.
      apply IHf in H; [|apply Forall_skipn; exact Htok]. destruct H as (tl & Hrest & Htl).
      apply get_group_spec in Eg as (G1 & G2 & G3 & G4).
      pose proof (between (TOp o :: ts') 1 rp TLP TRP G1 G2 G3) as Hdec. simpl firstn in Hdec.
      destruct (is_unary o) eqn:Eun.
      * (* one argument *)
        simpl in Eu. apply negb_false_iff, Nat.eqb_eq in Eu. destruct cs; [|discriminate]. simpl in Ea.
        destruct (pfi f (slice (TOp o :: ts') 2 rp) [] [] true) as [d|] eqn:Ed; [|discriminate].
        destruct (Hinner _ _ (tok_ok_slice _ 2 rp Htok) Ed) as (e & Pe & We & Ne).
        exists (Fun1 o e), tl. split.
        -- rewrite Hdec at 1. rewrite <- Pe, Hrest. simpl. rewrite <- app_assoc. reflexivity.
        -- split; [|exact Htl]. split; [exact I|]. split; simpl; auto.
      * (* two arguments *)
        assert (Hbf: is_binfun o = true) by (destruct o; try discriminate; reflexivity).
        rewrite Hbf in Eb. simpl in Eb. apply negb_false_iff, Nat.eqb_eq in Eb.
        destruct cs as [|c [|c2 cs]]; try discriminate. simpl in Ea.
        inversion G4 as [|? ? (C1 & C2 & C3) _]; subst.
        destruct (pfi f (slice (TOp o :: ts') 2 c) [] [] true) as [d1|] eqn:Ed1; [|discriminate]. cbn [bind] in Ea.
        destruct (pfi f (slice (TOp o :: ts') (S c) rp) [] [] true) as [d2|] eqn:Ed2; [|discriminate].
        destruct (Hinner _ _ (tok_ok_slice _ 2 c Htok) Ed1) as (e1 & P1 & W1 & N1).
        destruct (Hinner _ _ (tok_ok_slice _ (S c) rp Htok) Ed2) as (e2 & P2 & W2 & N2).
        exists (Fun2 o e1 e2), tl. split.
        -- rewrite Hdec at 1. rewrite (slice_split (TOp o :: ts') 2 c rp TComma) by (auto; lia).
           rewrite <- P1, <- P2, Hrest. simpl. rewrite <- !app_assoc. simpl. rewrite <- !app_assoc. reflexivity.
        -- split; [|exact Htl]. split; [exact I|]. split; simpl; auto.
  - (* parenthesis *)
    simpl in Ex. destruct ex; [|discriminate]. destruct (flush stack post prec_lparen) as [st po].
    destruct (get_group (TLP :: ts')) as [[[l cs] rp]|] eqn:Eg; [|discriminate]. cbn [bind] in H.
    destruct (negb (length cs =? 0)) eqn:Ec; [discriminate|].
    destruct (pfi f (slice (TLP :: ts') (S l) rp) [] [] true) as [d|] eqn:Ed; [|discriminate]. cbn [bind] in H.
    apply IHf in H; [|apply Forall_skipn; exact Htok]. destruct H as (tl & Hrest & Htl).
    pose proof (get_group_paren_first _ _ _ _ Eg) as ->.
    apply get_group_spec in Eg as (G1 & G2 & G3 & _).
    pose proof (between (TLP :: ts') 0 rp TLP TRP G1 G2 G3) as Hdec. simpl firstn in Hdec.
    destruct (Hinner _ _ (tok_ok_slice _ 1 rp Htok) Ed) as (e & Pe & We & Ne).
    exists (Paren e), tl. split.
    + rewrite Hdec at 1. rewrite <- Pe, Hrest. simpl. rewrite <- app_assoc. reflexivity.
    + split; [|exact Htl]. split; [exact I|]. split; simpl; auto.
Qed.

(* whatever postfix_from_infix accepts is the printing of one stratified expression, and its result is that
   expression's postfix program *)
Theorem postfix_from_infix_sound ts r : Forall tok_ok ts -> postfix_from_infix ts = Ok r ->
  exists e, print e = ts /\ wf 1 e /\ names_ok e /\ r = compile e.
Proof.
  intros Htok H. unfold postfix_from_infix in H. pose proof H as H0.
  apply pfi_sound in H; auto. destruct H as (a & tl & -> & (Ha & Hw & Hn) & Htl).
  destruct (resolve_spec tl a Hw Hn Htl) as (P & W & N).
  exists (resolve a tl). repeat split; auto.
  pose proof (shunting_yard_correct (resolve a tl) W N) as Hsy. rewrite P in Hsy.
  unfold postfix_from_infix in Hsy. congruence.
Qed.
