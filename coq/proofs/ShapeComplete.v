(* ShapeComplete.v - shape level of the grammar: a space-separated list of dimensions (expressions, `name=` forms,
   `...`, `*name`; at most one of the last two) is accepted by parse_shape, dimension by dimension with the meaning
   ParseEval gives each, and the multi-axis bookkeeping (index, name, anonymity) is the marker's. *)
From DL Require Import Base Lexer Parser Eval Shape Grammar Denote LexPrint CountOk SY EvalCompile ParseEval ShapeSound.

(* ---- str.split / " ".join ---- *)
Fixpoint join_sp (l:list string) : string :=
  match l with
  | [] => ""
  | s :: r => match r with [] => s | _ => sapp s (String " " (join_sp r)) end
  end.
Definition not_space (c:ascii) : bool := negb (Ascii.eqb c " ").
Definition word (s:string) : Prop := all_chars not_space s = true /\ s <> ""%string.

Lemma split_word w : forall rest cur acc, all_chars not_space w = true ->
  split_ws (sapp w rest) cur acc = split_ws rest (sapp cur w) acc.
Proof.
  induction w as [|c w IH]; intros rest cur acc H; simpl.
  - rewrite sapp_nil_r. reflexivity.
  - simpl in H. apply andb_true_iff in H as [A B]. unfold not_space in A. apply negb_true_iff in A. rewrite A.
    fold (sapp w rest). rewrite IH by exact B. fold (sapp cur (String c "")). rewrite sapp_assoc. reflexivity.
Qed.
Lemma split_join l : Forall word l -> forall acc, split_ws (join_sp l) "" acc = rev acc ++ l.
Proof.
  induction l as [|s r IH]; intros H acc.
  - simpl. rewrite app_nil_r. reflexivity.
  - inversion H as [|? ? [Hs Hne] Hr]; subst.
    assert (Es: (s =? "")%string = false) by (apply String.eqb_neq; exact Hne).
    destruct r as [|s' r'].
    + simpl join_sp. rewrite <- (sapp_nil_r s) at 1. rewrite split_word by exact Hs. simpl. rewrite Es. simpl. reflexivity.
    + change (join_sp (s :: s' :: r')) with (sapp s (String " " (join_sp (s' :: r')))).
      rewrite split_word by exact Hs. change (sapp "" s) with s.
      cbn [split_ws]. change (Ascii.eqb " " " ") with true. cbv iota. rewrite Es.
      rewrite (IH Hr). simpl. rewrite <- app_assoc. reflexivity.
Qed.

(* ---- the shape-level grammar ---- *)
Inductive gdim := GExpr (e:expr) | GNamed (x:string) (e:expr) | GAnon | GStar (x:string).
Definition print_dim (g:gdim) : string :=
  match g with
  | GExpr e => print_string e
  | GNamed x e => sapp x (String "=" (print_string e))
  | GAnon => "..."
  | GStar x => String "*" x
  end.
Definition gdim_ok (g:gdim) : Prop :=
  match g with
  | GExpr e => wf 1 e /\ names_ok e
  | GNamed x e => wf 1 e /\ names_ok e /\ valid_ident x = true /\ ~ In x (vars e)
  | GAnon => True
  | GStar x => valid_ident x = true /\ reserved x = false
  end.
Definition gmarker (g:gdim) : bool := match g with GAnon | GStar _ => true | _ => false end.
Definition print_shape (gs:list gdim) : string := join_sp (map print_dim gs).
(* what the parsed dimension means *)
Definition dim_means (g:gdim) (d:dimexpr) : Prop :=
  match g with
  | GExpr e => d_post d = compile e /\ d_anon d = false /\ d_named d = false /\
               forall sc, scope_ok sc -> evaluate d sc true = den e sc
  | GNamed x e => d_ident d = x /\ d_post d = compile e /\ d_anon d = false /\ d_named d = false /\
                  forall sc, evaluate d sc false = den e sc
  | GAnon => d_anon d = true /\ d_named d = false
  | GStar x => d_named d = true /\ d_anon d = false /\ d_ident d = x
  end.

(* ---- printed dimensions are words ---- *)
Lemma identchar_not_space c : is_identchar c = true -> not_space c = true.
Proof. destruct c as [[] [] [] [] [] [] [] []]; vm_compute; intros; try reflexivity; discriminate. Qed.
Lemma digit_not_space c : is_digit c = true -> not_space c = true.
Proof. destruct c as [[] [] [] [] [] [] [] []]; vm_compute; intros; try reflexivity; discriminate. Qed.
Lemma ident_no_space x : valid_ident x = true -> all_chars not_space x = true.
Proof. destruct x as [|c r]; [discriminate|]. simpl. intros H. apply andb_true_iff in H as [A B].
  rewrite (identchar_not_space c (alpha_identchar c A)). simpl.
  eapply all_chars_impl; [apply identchar_not_space|exact B]. Qed.
Lemma numeric_no_space ds : isnumeric ds = true -> all_chars not_space ds = true.
Proof. destruct ds; [discriminate|]. unfold isnumeric. apply all_chars_impl. apply digit_not_space. Qed.
Lemma print_no_space e : names_ok e -> ops_ok e -> all_chars not_space (print_string e) = true.
Proof.
  induction e; simpl; intros Hn Ho.
  - apply numeric_no_space; auto.
  - apply ident_no_space; tauto.
  - destruct Hn, Ho as (Hi & ? & ?). destruct o; try discriminate;
      simpl; fold sapp; rewrite ?all_chars_sapp; simpl; fold sapp; rewrite ?all_chars_sapp; rewrite IHe1, IHe2 by auto; reflexivity.
  - destruct Ho as [Hu ?]. destruct o; try discriminate.
    simpl; fold sapp; rewrite ?all_chars_sapp; simpl; rewrite IHe by auto; reflexivity.
  - destruct Hn, Ho as (Hu & ? & ?). destruct o; try discriminate;
      simpl; fold sapp; rewrite ?all_chars_sapp; simpl; fold sapp; rewrite ?all_chars_sapp; simpl; rewrite IHe1, IHe2 by auto; reflexivity.
  - simpl; fold sapp; rewrite ?all_chars_sapp; simpl; rewrite IHe by auto; reflexivity.
Qed.
Lemma print_dim_word g : gdim_ok g -> word (print_dim g).
Proof.
  destruct g as [e|x e| |x]; simpl; intros H.
  - destruct H as [Hw Hn]. split; [apply print_no_space; auto; eapply wf_ops_ok; eauto|].
    destruct (print_string_cons e Hn) as (c & r & ->). discriminate.
  - destruct H as (Hw & Hn & Hx & _). split.
    + rewrite all_chars_sapp. rewrite (ident_no_space x Hx). simpl. apply print_no_space; auto. eapply wf_ops_ok; eauto.
    + destruct x; [discriminate|]. discriminate.
  - split; [reflexivity|discriminate].
  - destruct H as [Hx _]. split; [simpl; apply ident_no_space; exact Hx|discriminate].
Qed.

(* ---- the two marker forms ---- *)
Lemma parse_anon : exists d, expression_from_string "..." = Ok d /\ d_anon d = true /\ d_named d = false.
Proof. eexists. split; [vm_compute; reflexivity|]. split; reflexivity. Qed.
Lemma lex_star x : valid_ident x = true -> reserved x = false -> lex (String "*" x) "" [] = Ok [TOp MUL; TStr x].
Proof.
  intros Hx Hr. cbn [lex]. change (Ascii.eqb "*" " ") with false. cbv iota. change (char_tok "*") with (Some (TOp MUL)). cbv iota.
  change (flush_span "" []) with (@nil tok).
  replace (lex x "" [TOp MUL]) with (lex (sapp x "") "" [TOp MUL]) by (rewrite sapp_nil_r; reflexivity).
  rewrite (lex_word x "" "" [TOp MUL] (ident_word x Hx)). change (sapp "" x) with x. cbn [lex].
  unfold flush_span. rewrite (nonempty_ident x Hx). rewrite (span_tok_ident x Hx Hr). reflexivity.
Qed.
Lemma star_no_eq x : valid_ident x = true -> split_eq (String "*" x) "" = None.
Proof. intros Hx. apply split_eq_none. simpl. apply ident_no_eq. exact Hx. Qed.
Lemma parse_star x : valid_ident x = true -> reserved x = false ->
  exists d, expression_from_string (String "*" x) = Ok d /\ d_named d = true /\ d_anon d = false /\ d_ident d = x.
Proof.
  intros Hx Hr. unfold expression_from_string. cbn [String.eqb]. change (Ascii.eqb "*" _) with false.
  rewrite (star_no_eq x Hx). cbn [andb]. unfold tokenize. rewrite (lex_star x Hx Hr). cbn [bind assert_token_list_valid].
  cbn [maybe_multiaxis]. rewrite Hx. unfold mk_dimexpr. cbn [existsb ptok_is_name length]. rewrite String.eqb_refl.
  cbn. eexists. split; [reflexivity|]. repeat split; reflexivity.
Qed.

Lemma parse_gdim g : gdim_ok g -> exists d, expression_from_string (print_dim g) = Ok d /\ dim_means g d /\
                                         is_marker d = gmarker g.
Proof.
  destruct g as [e|x e| |x]; simpl; intros H.
  - destruct H as [Hw Hn]. destruct (parse_eval e Hw Hn) as (d & E & _ & P & A & N & V).
    exists d. split; [exact E|]. split; [repeat split; auto|]. unfold is_marker. rewrite A, N. reflexivity.
  - destruct H as (Hw & Hn & Hx & Hni). destruct (parse_eval_named x e Hw Hn Hx Hni) as (d & E & I & P & A & N & V).
    exists d. split; [exact E|]. split; [repeat split; auto|]. unfold is_marker. rewrite A, N. reflexivity.
  - destruct parse_anon as (d & E & A & N). exists d. split; [exact E|]. split; [split; auto|]. unfold is_marker. rewrite A, N. reflexivity.
  - destruct H as [Hx Hr]. destruct (parse_star x Hx Hr) as (d & E & N & A & I). exists d. split; [exact E|].
    split; [repeat split; auto|]. unfold is_marker. rewrite A, N. reflexivity.
Qed.

(* ---- parse_dims and parse_shape succeed ---- *)
Lemma parse_dims_complete strs : forall ds i acc mi mn an cnt,
  Forall2 (fun s d => expression_from_string s = Ok d) strs ds ->
  exists r, parse_dims strs i acc mi mn an cnt = Ok r.
Proof.
  induction strs as [|s strs IH]; intros ds i acc mi mn an cnt H; inversion H as [|? d ? ds' E F]; subst; simpl; [eauto|].
  rewrite E. cbn [bind]. eapply IH; eauto.
Qed.
Lemma forall2_functional strs : forall ds ds',
  Forall2 (fun s d => expression_from_string s = Ok d) strs ds ->
  Forall2 (fun s d => expression_from_string s = Ok d) strs ds' -> ds = ds'.
Proof.
  induction strs as [|s strs IH]; intros ds ds' H H'; inversion H; inversion H'; subst; auto.
  f_equal; [congruence|apply IH; auto].
Qed.
Fixpoint gmarkers (gs:list gdim) : nat := match gs with [] => 0 | g :: r => (if gmarker g then 1 else 0) + gmarkers r end.

Theorem parse_shape_complete gs : gs <> [] -> Forall gdim_ok gs -> gmarkers gs <= 1 ->
  exists ty, parse_shape (print_shape gs) = Ok ty /\ Forall2 dim_means gs (t_shape ty) /\
             (gmarkers gs = 0 -> t_mindex ty = None) /\
             (forall j g, nth_error gs j = Some g -> gmarker g = true -> t_mindex ty = Some j).
Proof.
  intros Hne Hok Hm.
  (* every printed dimension parses *)
  assert (Hd: exists ds, Forall2 (fun s d => expression_from_string s = Ok d) (map print_dim gs) ds /\
                         Forall2 dim_means gs ds /\ Forall2 (fun g d => is_marker d = gmarker g) gs ds).
  { clear Hne Hm. induction Hok as [|g gs Hg _ IH]; [exists []; repeat split; constructor|].
    destruct IH as (ds & A & B & C). destruct (parse_gdim g Hg) as (d & E & M & K).
    exists (d :: ds). repeat split; constructor; auto. }
  destruct Hd as (ds & Hp & Hmean & Hmark).
  assert (Hcnt: markers ds = gmarkers gs).
  { clear -Hmark. induction Hmark as [|g d gs ds K _ IH]; simpl; auto. rewrite K, IH. reflexivity. }
  unfold parse_shape, print_shape.
  rewrite (split_join (map print_dim gs)) by (apply Forall_map; eapply Forall_impl; [apply print_dim_word|exact Hok]).
  cbn [rev app]. destruct (map print_dim gs) as [|p ps] eqn:Emap; [destruct gs; [contradiction|discriminate]|].
  destruct (parse_dims_complete (p :: ps) ds 0 [] None None false 0 Hp) as [[[[[ds' mi] mn] an] cnt] Hpd].
  rewrite Hpd. cbn [bind].
  destruct (parse_dims_spec _ _ _ _ _ _ _ _ _ _ _ _ Hpd) as (new & -> & F & C & Z & M). simpl in C. cbn [rev app] in *.
  assert (new = ds) by (eapply forall2_functional; eauto). subst new. subst cnt. rewrite Hcnt.
  destruct (1 <? gmarkers gs) eqn:E1; [apply Nat.ltb_lt in E1; lia|].
  destruct (lits_ok ds 0 mi) as [ls Hls].
  { intros j d Hn Hl.
    assert (Hs: exists s0, expression_from_string s0 = Ok d).
    { clear -F Hn. revert j Hn. induction F; intros [|j] Hn; simpl in Hn; try discriminate; [injection Hn as <-; eauto|eauto]. }
    destruct Hs as [s0 Hs0]. destruct (dim_form_literal_value s0 d (expression_from_string_sound _ _ Hs0) Hl) as [Hmk|Hv]; auto.
    left. simpl. eapply M; eauto. lia. }
  rewrite Hls. cbn [bind]. eexists. split; [reflexivity|]. simpl. split; [exact Hmean|]. split.
  - intros H0. apply Z. lia.
  - intros j g Hn Hg.
    assert (Hd: exists d, nth_error ds j = Some d /\ is_marker d = true).
    { clear -Hmark Hn Hg. revert j Hn. induction Hmark as [|g0 d0 gs ds K _ IH]; intros [|j] Hn; simpl in Hn; try discriminate.
      - injection Hn as ->. exists d0. split; [reflexivity|]. rewrite K. exact Hg.
      - simpl. apply IH. exact Hn. }
    destruct Hd as (d & Hnd & Hmd). apply (M j d Hnd Hmd). lia.
Qed.
