(* CtxComplete.v - no false rejects: if one assignment [target] satisfies every axis of every queued tensor, and
   every name used inside an expression is bound earlier in source order (or by the scope provider), the model
   of DLTypeContext accepts the queue - in particular it raises nothing at all. *)
From DL Require Import Base Lexer Parser Eval Shape Dtypes Check Context CtxSound.

Definition names_of (p:list ptok) : list string :=
  flat_map (fun t => match t with PName x => [x] | _ => [] end) p.

(* where the table already binds every name of a program, it computes what the full assignment computes *)
Lemma eval_post_agree p : forall sc target st, extends sc target ->
  (forall x, In x (names_of p) -> mem x sc = true) -> eval_post p sc st = eval_post p target st.
Proof.
  induction p as [|t p IH]; intros sc target st Hx Hn; simpl; auto.
  destruct t; simpl in Hn.
  - apply IH; auto.
  - destruct (mem_true s sc (Hn s (or_introl eq_refl))) as [v Hv]. rewrite Hv, (Hx _ _ Hv). apply IH; auto.
  - destruct st as [|b st1]; auto. destruct (is_unary o).
    + destruct (eval_un b); cbn [bind]; auto.
    + destruct st1 as [|a st2]; auto. destruct (eval_bin o a b); cbn [bind]; auto.
Qed.

(* an axis of size [size] agrees with the assignment *)
Definition dim_conf (target:scope) (d:dimexpr) (size:Z) : Prop :=
  d_anon d = false ->
  (forall c, lookup (d_ident d) target = Some c -> c = size) /\
  ((d_literal d = false \/ isnumeric (d_ident d) = false) -> lookup (d_ident d) target = Some size) /\
  (d_literal d = false -> d_identifier d = false -> eval_post (d_post d) target [] = Ok size).
(* the identifier an axis adds to the table *)
Definition bind_of (d:dimexpr) : list string :=
  if d_anon d then [] else if d_literal d && isnumeric (d_ident d) then [] else [d_ident d].
(* names inside an expression axis are bound before it *)
Definition dim_ordered (bound:list string) (d:dimexpr) : Prop :=
  d_anon d = false -> d_literal d = false -> d_identifier d = false ->
  forall x, In x (names_of (d_post d)) -> In x bound.
Fixpoint ordered_dims (bound:list string) (ds:list dimexpr) : Prop :=
  match ds with [] => True | d :: r => dim_ordered bound d /\ ordered_dims (bind_of d ++ bound) r end.
Definition binds (ds:list dimexpr) : list string := flat_map bind_of (rev ds).

Lemma mem_bind_same k v sc : mem k (sc_bind k v sc) = true.
Proof. unfold mem, sc_bind. rewrite lookup_app. destruct (lookup k sc); auto. simpl. rewrite String.eqb_refl. reflexivity. Qed.
Lemma mem_bind_other k k' v sc : mem k' sc = true -> mem k' (sc_bind k v sc) = true.
Proof. unfold mem, sc_bind. rewrite lookup_app. destruct (lookup k' sc); auto. discriminate. Qed.
Lemma extends_bind_target sc target k v : extends sc target -> lookup k target = Some v -> mem k sc = false -> extends (sc_bind k v sc) target.
Proof. intros Hx Hk Hm k' v' H. unfold sc_bind in H. rewrite lookup_app in H. destruct (lookup k' sc) eqn:E.
  - injection H as <-. auto.
  - simpl in H. destruct (k =? k')%string eqn:Ek; [|discriminate]. apply String.eqb_eq in Ek. subst. congruence. Qed.

Lemma step_dim_complete name sc idx d size target bound : dim_wf d ->
  extends sc target -> (forall x, In x bound -> mem x sc = true) ->
  dim_conf target d size -> dim_ordered bound d ->
  exists sc', step_dim name sc idx d size = DOk sc' /\ extends sc' target /\
              (forall x, In x (bind_of d ++ bound) -> mem x sc' = true).
Proof.
  intros Hwf Hx Hb Hc Ho. unfold step_dim, bind_of. destruct (d_anon d) eqn:Ea.
  { exists sc. repeat split; auto. }
  destruct (Hc Ea) as (C1 & C2 & C3). specialize (Ho Ea).
  destruct (d_literal d) eqn:El; cbn [andb].
  - destruct (mem (d_ident d) sc) eqn:Em; cbn [negb].
    + rewrite andb_false_r. destruct (mem_true _ _ Em) as [c Hcv].
      unfold expected_values, evaluate, needs_recheck. rewrite Ea, Hcv, El. rewrite andb_false_r. cbn [bind].
      rewrite (C1 c (Hx _ _ Hcv)). simpl. rewrite Z.eqb_refl. exists sc. repeat split; auto.
      intros x Hin. destruct (isnumeric (d_ident d)); simpl in Hin; auto. destruct Hin as [<-|Hin]; auto.
    + destruct (isnumeric (d_ident d)) eqn:En.
      * exists sc. repeat split; auto.
      * exists (sc_bind (d_ident d) size sc). split; auto. split.
        -- apply extends_bind_target; auto.
        -- intros x [<-|Hin]; [apply mem_bind_same|apply mem_bind_other; auto].
  - destruct (d_identifier d) eqn:Ei; cbn [andb].
    + destruct (mem (d_ident d) sc) eqn:Em; cbn [negb].
      * destruct (mem_true _ _ Em) as [c Hcv].
        unfold expected_values, evaluate, needs_recheck. rewrite Ea, Hcv, Em, El, Ei. cbn [andb negb bind].
        rewrite ?andb_false_r. cbn [andb negb bind].
        rewrite (C1 c (Hx _ _ Hcv)). simpl. rewrite Z.eqb_refl. exists sc. repeat split; auto.
        intros x [<-|Hin]; auto.
      * exists (sc_bind (d_ident d) size sc). split; auto. split.
        -- apply extends_bind_target; auto.
        -- intros x [<-|Hin]; [apply mem_bind_same|apply mem_bind_other; auto].
    + (* an expression axis *)
      assert (Hev: eval_post (d_post d) sc [] = Ok size).
      { rewrite (eval_post_agree (d_post d) sc target [] Hx); [apply C3; auto|].
        intros x Hin. apply Hb. apply Ho; auto. }
      destruct (mem (d_ident d) sc) eqn:Em.
      * destruct (mem_true _ _ Em) as [c Hcv].
        unfold expected_values, evaluate, needs_recheck. rewrite Ea, Hcv, Em, El, Ei, (Hwf El Ei). cbn [andb negb bind].
        rewrite Hev. cbn [bind]. rewrite (C1 c (Hx _ _ Hcv)). simpl. rewrite !Z.eqb_refl. exists sc. repeat split; auto.
        intros x [<-|Hin]; auto.
      * unfold expected_values, evaluate, needs_recheck. rewrite Ea, (mem_false _ _ Em), Em. cbn [andb]. rewrite Hev. cbn [bind].
        simpl. rewrite Z.eqb_refl. exists (sc_bind (d_ident d) size sc). split; auto. split.
        -- apply extends_bind_target; auto.
        -- intros x [<-|Hin]; [apply mem_bind_same|apply mem_bind_other; auto].
Qed.

Lemma assert_dims_complete name target : forall ds sc idx shape bound, Forall dim_wf ds ->
  extends sc target -> (forall x, In x bound -> mem x sc = true) ->
  Forall2 (dim_conf target) ds shape -> ordered_dims bound ds ->
  exists sc', assert_dims name sc idx ds shape = DOk sc' /\ extends sc' target /\
              (forall x, In x (binds ds ++ bound) -> mem x sc' = true).
Proof.
  induction ds as [|d ds IH]; intros sc idx shape bound Hwf Hx Hb Hc Ho.
  - inversion Hc; subst. exists sc. simpl. repeat split; auto.
  - inversion Hc as [|? s ? shape' Hd Hrest]; subst. inversion Hwf; subst. destruct Ho as [Ho1 Ho2].
    destruct (step_dim_complete name sc idx d s target bound) as (sc1 & E1 & X1 & B1); auto.
    destruct (IH sc1 (S idx) shape' (bind_of d ++ bound)) as (sc2 & E2 & X2 & B2); auto.
    exists sc2. simpl. rewrite E1. cbn [dbind]. split; auto. split; auto.
    intros x Hin. apply B2. unfold binds in *. simpl in Hin. rewrite flat_map_app in Hin. simpl in Hin. rewrite app_nil_r in Hin.
    rewrite <- app_assoc in Hin. exact Hin.
Qed.

(* ---- tensors and queues ---- *)
Definition tensor_conf (target:scope) (gtarget:list (string*nat)) (bound:list string) (t:concrete) : Prop :=
  let ty := a_ty (c_annot t) in
  let shape := x_shape (c_tensor t) in
  check (c_annot t) (c_tensor t) (tensor_arg_name t) = DOk tt /\
  exists ds, expected_shape ty shape = Ok ds /\ Forall2 (dim_conf target) ds shape /\ ordered_dims bound ds /\
  (forall b, t_mname ty = Some b -> glookup b gtarget = Some (length shape - (length (t_shape ty) - 1)) /\ length (t_shape ty) - 1 <= length shape).
Definition bound_after (bound:list string) (t:concrete) : list string :=
  match expected_shape (a_ty (c_annot t)) (x_shape (c_tensor t)) with Ok ds => binds ds ++ bound | Err _ => bound end.
Fixpoint queue_conf (target:scope) (gtarget:list (string*nat)) (bound:list string) (q:list concrete) : Prop :=
  match q with [] => True | t :: r => tensor_conf target gtarget bound t /\ queue_conf target gtarget (bound_after bound t) r end.

Lemma assert_mlen_complete name ty r g gtarget : gextends g gtarget ->
  (forall b, t_mname ty = Some b -> glookup b gtarget = Some (r - (length (t_shape ty) - 1)) /\ length (t_shape ty) - 1 <= r) ->
  exists g', assert_mlen name ty r g = DOk g' /\ gextends g' gtarget.
Proof.
  intros Hg Hb. unfold assert_mlen. destruct (t_mname ty) as [b|]; [|exists g; auto].
  destruct (Hb b eq_refl) as [Hgt Hle]. destruct (glookup b g) as [k|] eqn:E.
  - pose proof (Hg _ _ E) as Hk. rewrite Hgt in Hk. injection Hk as <-.
    replace (r =? length (t_shape ty) - 1 + (r - (length (t_shape ty) - 1))) with true by (symmetry; apply Nat.eqb_eq; lia).
    exists g. auto.
  - exists (g ++ [(b, r - (length (t_shape ty) - 1))]). split; auto.
    intros k v H. rewrite glookup_app in H. destruct (glookup k g) eqn:E2; [injection H as <-; auto|].
    simpl in H. destruct (b =? k)%string eqn:Ek; [|discriminate]. apply String.eqb_eq in Ek. subst. congruence.
Qed.

Theorem assert_context_complete target gtarget : forall q c bound,
  extends (table c) target -> (forall x, In x bound -> mem x (table c) = true) -> gextends (glens c) gtarget ->
  NoDup (map tensor_arg_name q) -> (forall t, In t q -> existsb (String.eqb (tensor_arg_name t)) (regs c) = false) ->
  Forall ann_wf q -> queue_conf target gtarget bound q ->
  exists cF, assert_context c q = DOk cF /\ extends (table cF) target.
Proof.
  induction q as [|t q IH]; intros c bound Hx Hb Hg Hnd Hreg Hwf Hq.
  - exists c. simpl. auto.
  - destruct Hq as [(Hck & ds & Hes & Hconf & Hord & Hgl) Hq]. inversion Hwf; subst. inversion Hnd; subst.
    simpl. unfold assert_one. rewrite Hck. cbn [dbind]. rewrite (Hreg t (or_introl eq_refl)). rewrite Hes.
    destruct (assert_dims_complete (tensor_arg_name t) target ds (table c) 0 (x_shape (c_tensor t)) bound) as (sc1 & E1 & X1 & B1); auto.
    { eapply expected_shape_wf; eauto. }
    rewrite E1. cbn [dbind].
    destruct (assert_mlen_complete (tensor_arg_name t) (a_ty (c_annot t)) (length (x_shape (c_tensor t))) (glens c) gtarget Hg Hgl) as (g1 & E2 & G1).
    rewrite E2. cbn [dbind].
    destruct (IH {| table := sc1; regs := regs c ++ [tensor_arg_name t]; glens := g1 |} (bound_after bound t)) as (cF & EF & XF); auto.
    + simpl. unfold bound_after. rewrite Hes. exact B1.
    + simpl. intros t' Hin. rewrite existsb_app, (Hreg t' (or_intror Hin)). simpl. rewrite orb_false_r.
      apply String.eqb_neq. intros Heq. apply H3. rewrite <- Heq. apply in_map. exact Hin.
    + exists cF. auto.
Qed.
