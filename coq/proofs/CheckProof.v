(* CheckProof.v - the model of TensorTypeBase.check decides exactly CheckSpec and reports factually. *)
From DL Require Import Base Lexer Parser Eval Shape Dtypes Check CheckSpec.

Lemma nth_error_rev {A} (l:list A) i : i < length l -> nth_error (rev l) i = nth_error l (length l - 1 - i).
Proof.
  revert i. induction l as [|a l IH]; intros i Hi; simpl in *; [lia|].
  destruct (Nat.eq_dec i (length l)) as [->|Hne].
  - rewrite nth_error_app2 by (rewrite rev_length; lia). rewrite rev_length, Nat.sub_diag.
    replace (length l - 0 - length l) with 0 by lia. reflexivity.
  - rewrite nth_error_app1 by (rewrite rev_length; lia). rewrite IH by lia.
    replace (length l - 0 - i) with (S (length l - 1 - i)) by lia. reflexivity.
Qed.

(* the index arithmetic of the implementation reads the size the specification talks about *)
Lemma adjust_size_at ty shape idx : wf_ttype ty -> rank_ok ty (length shape) ->
  idx < declared ty -> t_mindex ty <> Some idx ->
  nth_error shape (adjust_idx ty (length shape) idx) = size_at ty shape idx.
Proof.
  unfold wf_ttype, rank_ok, adjust_idx, size_at, declared. intros [_ Hm] Hr Hi Hne.
  destruct (t_mindex ty) as [m|]; auto.
  destruct (m <? idx) eqn:E; auto. apply Nat.ltb_lt in E.
  rewrite nth_error_rev by lia. f_equal. lia.
Qed.

Lemma check_rank_spec ty r name : check_rank ty r name = DOk tt <-> rank_ok ty r.
Proof.
  unfold check_rank, rank_ok, declared. destruct (t_mindex ty).
  - destruct (Nat.ltb_spec r (length (t_shape ty) - 1)); split; intros H'; try discriminate; auto; lia.
  - destruct (Nat.eqb_spec r (length (t_shape ty))); simpl; split; intros H'; try discriminate; auto; contradiction.
Qed.
Lemma check_rank_rej ty r name e : check_rank ty r name = DRej e ->
  ~ rank_ok ty r /\ e = ENDims name (match t_mindex ty with Some _ => declared ty - 1 | None => declared ty end) r.
Proof.
  unfold check_rank, rank_ok, declared. destruct (t_mindex ty).
  - destruct (Nat.ltb_spec r (length (t_shape ty) - 1)); intros H'; try discriminate. injection H' as <-.
    split; auto. lia.
  - destruct (Nat.eqb_spec r (length (t_shape ty))); simpl; intros H'; try discriminate. injection H' as <-.
    split; auto.
Qed.
Lemma check_rank_nocrash ty r name x : check_rank ty r name <> DCrash x.
Proof. unfold check_rank. destruct (t_mindex ty); [destruct (r <? _)|destruct (negb _)]; discriminate. Qed.

Lemma check_lits_spec ty shape name : wf_ttype ty -> rank_ok ty (length shape) ->
  forall ls, incl ls (t_lits ty) ->
  (check_lits ty shape ls name = DOk tt <-> Forall (fun p => size_at ty shape (fst p) = Some (snd p)) ls) /\
  (forall e, check_lits ty shape ls name = DRej e ->
     exists idx ex ac, In (idx, ex) ls /\ size_at ty shape idx = Some ac /\ ac <> ex /\
       e = EShape name (adjust_idx ty (length shape) idx) ex ac /\
       nth_error shape (adjust_idx ty (length shape) idx) = Some ac) /\
  (forall x, check_lits ty shape ls name <> DCrash x).
Proof.
  intros Hwf Hr. induction ls as [|[idx v] ls IH]; intros Hin.
  - simpl. repeat split; auto; intros; discriminate.
  - assert (Hi: In (idx, v) (t_lits ty)) by (apply Hin; left; reflexivity).
    destruct Hwf as [Hl Hm]. rewrite Forall_forall in Hl. destruct (Hl _ Hi) as [Hlt Hne]. simpl in Hlt, Hne.
    assert (Hadj := adjust_size_at ty shape idx (conj (proj2 (Forall_forall _ _) Hl) Hm) Hr Hlt Hne).
    destruct (IH (fun p Hp => Hin p (or_intror Hp))) as (I1 & I2 & I3).
    simpl. rewrite Hadj.
    assert (Hsome: exists s, size_at ty shape idx = Some s).
    { rewrite <- Hadj. destruct (nth_error shape (adjust_idx ty (length shape) idx)) eqn:E; eauto.
      exfalso. apply nth_error_None in E. unfold adjust_idx, rank_ok, declared in *.
      destruct (t_mindex ty) as [m|]; [destruct (m <? idx) eqn:E2; [apply Nat.ltb_lt in E2|apply Nat.ltb_ge in E2]|]; try lia.
      assert (m <> idx) by congruence. lia. }
    destruct Hsome as [s Hs]. rewrite Hs.
    destruct (s =? v)%Z eqn:E.
    + apply Z.eqb_eq in E. subst s. split; [|split].
      * split; intros H.
        -- constructor; auto. apply I1; auto.
        -- inversion H; subst. apply I1; auto.
      * intros e He. destruct (I2 e He) as (i & ex & ac & A & B). exists i, ex, ac. split; [right; exact A|exact B].
      * exact I3.
    + apply Z.eqb_neq in E. split; [|split].
      * split; intros H; [discriminate|]. inversion H; subst. simpl in *. congruence.
      * intros e He. injection He as <-. exists idx, v, s.
        split; [left; reflexivity|]. split; [exact Hs|]. split; [exact E|]. split; [reflexivity|].
        rewrite Hadj. exact Hs.
      * intros x0; discriminate.
Qed.

Theorem check_iff a x name : wf_ttype (a_ty a) ->
  (check a x name = DOk tt <->
     rank_ok (a_ty a) (length (x_shape x)) /\
     dtype_accepted (a_dtypes a) (x_lib x) (x_dt x) = true /\
     literals_ok (a_ty a) (x_shape x)).
Proof.
  intros Hwf. unfold check.
  destruct (check_rank (a_ty a) (length (x_shape x)) name) as [[]|e|c] eqn:Er; cbn [dbind].
  - apply check_rank_spec in Er.
    destruct (dtype_accepted (a_dtypes a) (x_lib x) (x_dt x)) eqn:Ed; cbn [dbind].
    + destruct (check_lits_spec (a_ty a) (x_shape x) name Hwf Er (t_lits (a_ty a)) (incl_refl _)) as (I1 & _ & _).
      unfold literals_ok. rewrite I1. tauto.
    + split; [discriminate|]. intros (_ & H & _). discriminate.
  - split; [discriminate|]. intros (H & _). apply check_rank_spec with (name:=name) in H. congruence.
  - exfalso. eapply check_rank_nocrash; eauto.
Qed.

(* a rejection names the aspect that fails; a shape report carries the index in the actual tensor, the
   size found there and the literal it should have been *)
Theorem check_error_factual a x name e : wf_ttype (a_ty a) -> check a x name = DRej e ->
  match e with
  | ENDims n ex ac => n = name /\ ac = length (x_shape x) /\ ~ rank_ok (a_ty a) ac /\
                      ex = match t_mindex (a_ty a) with Some _ => declared (a_ty a) - 1 | None => declared (a_ty a) end
  | EDtype n => n = name /\ rank_ok (a_ty a) (length (x_shape x)) /\
                dtype_accepted (a_dtypes a) (x_lib x) (x_dt x) = false
  | EShape n i ex ac => n = name /\ rank_ok (a_ty a) (length (x_shape x)) /\
                dtype_accepted (a_dtypes a) (x_lib x) (x_dt x) = true /\
                nth_error (x_shape x) i = Some ac /\ ac <> ex /\
                exists idx, In (idx, ex) (t_lits (a_ty a)) /\ size_at (a_ty a) (x_shape x) idx = Some ac /\
                            i = adjust_idx (a_ty a) (length (x_shape x)) idx
  | _ => False
  end.
Proof.
  intros Hwf. unfold check.
  destruct (check_rank (a_ty a) (length (x_shape x)) name) as [[]|e'|c] eqn:Er; cbn [dbind].
  - apply check_rank_spec in Er.
    destruct (dtype_accepted (a_dtypes a) (x_lib x) (x_dt x)) eqn:Ed; cbn [dbind].
    + intros H.
      destruct (check_lits_spec (a_ty a) (x_shape x) name Hwf Er (t_lits (a_ty a)) (incl_refl _)) as (_ & I2 & _).
      destruct (I2 e H) as (idx & ex & ac & A & B & C & -> & D). repeat split; auto. exists idx. auto.
    + intros [= <-]. auto.
  - intros [= <-]. apply check_rank_rej in Er as [A ->]. auto.
  - intros; discriminate.
Qed.
Theorem check_no_crash a x name c : wf_ttype (a_ty a) -> check a x name <> DCrash c.
Proof.
  intros Hwf. unfold check.
  destruct (check_rank (a_ty a) (length (x_shape x)) name) as [[]|e'|c'] eqn:Er; cbn [dbind]; try discriminate.
  - apply check_rank_spec in Er.
    destruct (dtype_accepted (a_dtypes a) (x_lib x) (x_dt x)); cbn [dbind]; try discriminate.
    destruct (check_lits_spec (a_ty a) (x_shape x) name Hwf Er (t_lits (a_ty a)) (incl_refl _)) as (_ & _ & I3). apply I3.
  - exfalso. eapply check_rank_nocrash; eauto.
Qed.
