(* CallComplete.v - a decorated call whose arguments and return value conform to one assignment runs the body
   and hands its value to the caller. *)
From DL Require Import Base Lexer Parser Eval Shape Dtypes Check Context Hints Call CtxSound CtxLift CtxComplete.

Lemma keys_mem sc : forall x, In x (map fst sc) -> mem x sc = true.
Proof.
  induction sc as [|[k v] sc IH]; simpl; intros x H; [contradiction|]. unfold mem. simpl.
  destruct (k =? x)%string eqn:E; auto. destruct H as [->|H]; [rewrite String.eqb_refl in E; discriminate|].
  apply IH in H. unfold mem in H. exact H.
Qed.

Theorem run_call_complete w ps args v sc0 qa qr target gtarget :
  wrapped_wf w ->
  initial_table (w_provider w) ps = DOk sc0 ->
  add_args (w_params w) args [] = DOk qa ->
  (* what the return annotation queues for the value the body returned *)
  match w_ret w with
  | None => qr = []
  | Some (it, anns) =>
      match resolve_types anns with
      | None => qr = []
      | Some ra => exists vs, resolve_value it v = Ok vs /\ ctx_add "return" vs (Some ra) [] = DOk qr
      end
  end ->
  extends sc0 target ->
  NoDup (map tensor_arg_name (qa ++ qr)) ->
  queue_conf target gtarget (map fst sc0) (qa ++ qr) ->
  run_call w ps args (BReturn v) = (true, CReturned v).
Proof.
  intros [Hp Hr] Hi Ha Hret Hx Hnd Hq. unfold run_call. rewrite Hi, Ha. cbn [dbind].
  assert (Hqa: Forall ann_wf qa) by (eapply add_args_wf; eauto).
  assert (Hqr: Forall ann_wf qr).
  { destruct (w_ret w) as [[it anns]|]; [|subst; constructor].
    destruct (resolve_types anns) as [ra|] eqn:Er; [|subst; constructor].
    destruct Hret as (vs & _ & Hadd). simpl in Hadd, Hr.
    unfold resolve_types in Er. destruct (forallb is_none anns); [discriminate|]. injection Er as <-.
    eapply add_loop_wf; [exact Hr|constructor|exact Hadd]. }
  destruct (assert_context_complete target gtarget (qa ++ qr) (ctx0 sc0) (map fst sc0)) as (cF & EF & _); auto.
  { apply keys_mem. } { red; simpl; intros; discriminate. } { apply Forall_app; auto. }
  rewrite assert_context_app in EF.
  destruct (assert_context (ctx0 sc0) qa) as [c1|e|x] eqn:E1; cbn [dbind] in EF; try discriminate.
  destruct (w_ret w) as [[it anns]|]; [|reflexivity].
  destruct (resolve_types anns) as [ra|]; [|reflexivity].
  destruct Hret as (vs & Hv & Hadd). rewrite Hv, Hadd. cbn [dbind]. rewrite EF. reflexivity.
Qed.
