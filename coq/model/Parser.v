(* Parser.v - mirrors _get_group_indices, _flush_op_by_precedence, _postfix_from_infix,
   DLTypeDimensionExpression.__init__, _maybe_multiaxis, expression_from_string (dltype/_lib/_parser.py).

   The Python loop walks indices over one list; the model consumes the remaining token list and uses
   indices relative to it (validated against the implementation by the correspondence check). *)
From DL Require Import Base Lexer.

(* _get_group_indices over the remaining list: (lparen, commas, rparen), relative indices *)
Fixpoint ggi (ts:list tok) (idx:nat) (depth:Z) (lp:option nat) (commas:list nat)
  : (option nat * list nat * option nat) :=
  match ts with
  | [] => (lp, commas, None)
  | t :: r =>
    match t with
    | TLP => let depth' := (depth+1)%Z in
             let lp' := if (depth' =? 1)%Z then Some idx else lp in ggi r (S idx) depth' lp' commas
    | TComma => if (depth =? 1)%Z then ggi r (S idx) depth lp (commas ++ [idx]) else ggi r (S idx) depth lp commas
    | TRP => if (depth =? 1)%Z then (lp, commas, Some idx) else ggi r (S idx) (depth-1)%Z lp commas
    | _ => ggi r (S idx) depth lp commas
    end
  end.
Definition get_group (ts:list tok) : res (nat * list nat * nat) :=
  match ggi ts 0 0%Z None [] with
  | (Some l, cs, Some r) =>
      if (r <? l) || existsb (fun c => (c <? l) || (r <? c)) cs then Err SyntaxErr else Ok (l,cs,r)
  | _ => Err SyntaxErr
  end.

(* _flush_op_by_precedence: the stack only ever holds operators (top first) *)
Fixpoint flush (stack:list op) (post:list ptok) (p:nat) : list op * list ptok :=
  match stack with
  | o :: r => if (p <=? prec o) then flush r (post ++ [POp o]) p else (stack, post)
  | [] => (stack, post)
  end.
Definition slice (l:list tok) (a b:nat) : list tok := firstn (b-a) (skipn a l).
Definition tok_is_infix (t:tok) : bool := match t with TOp o => is_infix o | _ => false end.

Section Body.
(* rec ts stack postfix expect_operand *)
Variable rec : list tok -> list op -> list ptok -> bool -> res (list ptok).
Fixpoint args (ts:list tok) (bs:list nat) (lhs:nat) (po:list ptok) : res (list ptok) :=
  match bs with
  | [] => Ok po
  | b::bs' => do d <- rec (slice ts (S lhs) b) [] [] true; args ts bs' b (po ++ d)
  end.
Definition pfi_body (ts:list tok) (stack:list op) (post:list ptok) (expect:bool) : res (list ptok) :=
  match ts with
  | [] => if expect then Err SyntaxErr else Ok (post ++ map POp stack)
  | t :: r =>
    if Bool.eqb (tok_is_infix t) expect then Err SyntaxErr else
    match t with
    | TInt z => rec r stack (post ++ [PInt z]) false
    | TStr s => if valid_ident s then rec r stack (post ++ [PName s]) false else Err SyntaxErr
    | TOp o =>
        if is_infix o then let '(st,po) := flush stack post (prec o) in rec r (o::st) po true
        else
          let '(st,po) := flush stack post (prec o) in
          do g <- get_group ts;
          let '(l,cs,rp) := g in
          if negb (Nat.eqb l 1) then Err SyntaxErr else
          if is_binfun o && negb (Nat.eqb (length cs) 1) then Err SyntaxErr else
          if is_unary o && negb (Nat.eqb (length cs) 0) then Err SyntaxErr else
          do po' <- args ts (cs ++ [rp]) l po;
          rec (skipn (S rp) ts) (o::st) po' false
    | TLP =>
        let '(st,po) := flush stack post prec_lparen in
        do g <- get_group ts;
        let '(l,cs,rp) := g in
        if negb (Nat.eqb (length cs) 0) then Err SyntaxErr else
        do d <- rec (slice ts (S l) rp) [] [] true;
        rec (skipn (S rp) ts) st (po ++ d) false
    | _ => Err SyntaxErr
    end
  end.
End Body.
Fixpoint pfi (fuel:nat) : list tok -> list op -> list ptok -> bool -> res (list ptok) :=
  match fuel with O => fun _ _ _ _ => Err RecursionErr | S f => pfi_body (pfi f) end.
Lemma pfi_S f : pfi (S f) = pfi_body (pfi f). Proof. reflexivity. Qed.
Global Opaque pfi.
(* _postfix_from_infix on a whole token list *)
Definition postfix_from_infix (ts:list tok) : res (list ptok) := pfi (S (length ts)) ts [] [] true.

(* DLTypeDimensionExpression *)
Record dimexpr := { d_ident : string; d_post : list ptok; d_literal : bool; d_identifier : bool;
                    d_expression : bool; d_mlit : bool; d_anon : bool; d_named : bool }.
Definition ptok_is_int (p:ptok) := match p with PInt _ => true | _ => false end.
Definition ptok_is_name (s:string) (p:ptok) := match p with PName x => String.eqb x s | _ => false end.
Definition mk_dimexpr (ident:string) (post:list ptok) (mlit anon named:bool) : res dimexpr :=
  let lit := negb mlit && forallb ptok_is_int post in
  let isid := mlit || named || (match post with [PName x] => String.eqb x ident | _ => false end) in
  let inpost := existsb (ptok_is_name ident) post in
  let isexpr := negb (isid && lit) && ((1 <? length post) || negb inpost) in
  if isexpr && inpost then Err SyntaxErr else
  Ok {| d_ident := ident; d_post := post; d_literal := lit; d_identifier := isid; d_expression := isexpr;
        d_mlit := mlit; d_anon := anon; d_named := named |}.
(* from_multiaxis_literal *)
Definition mk_mlit (ident:string) (v:Z) (anon:bool) : res dimexpr := mk_dimexpr ident [PInt v] true anon false.

Definition maybe_multiaxis (ident:string) (e:list tok) : option (res dimexpr) :=
  match e with
  | [TStr s] => if String.eqb s "..." then Some (mk_dimexpr ident [] false true false) else None
  | [TOp MUL; TStr s] => if valid_ident s then Some (mk_dimexpr s [PName s] false false true) else Some (Err SyntaxErr)
  | _ => None
  end.

(* str.split("=", maxsplit=1) when "=" occurs *)
Fixpoint split_eq (s:string) (acc:string) : option (string*string) :=
  match s with
  | EmptyString => None
  | String c r => if Ascii.eqb c "=" then Some (acc, r) else split_eq r (String.append acc (String c EmptyString))
  end.

Definition expression_from_string (s:string) : res dimexpr :=
  if String.eqb s "" then Err SyntaxErr else
  let '(named, ident, body) := match split_eq s "" with Some (i,b) => (true,i,b) | None => (false,s,s) end in
  if named && negb (valid_ident ident) then Err SyntaxErr else
  do ts <- tokenize body;
  match maybe_multiaxis ident ts with
  | Some r => if named then Err SyntaxErr else r
  | None =>
      do post <- postfix_from_infix ts;
      do d <- mk_dimexpr ident post false false false;
      if named && existsb (ptok_is_name ident) post then Err SyntaxErr else Ok d
  end.
