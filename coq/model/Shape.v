(* Shape.v - mirrors TensorTypeBase.__init__ / _parse_shape_string (dltype/_lib/_tensor_type_base.py). *)
From DL Require Import Base Lexer Parser Eval.

(* str.split() restricted to the space character (printable ASCII has no other whitespace) *)
Fixpoint split_ws (s:string) (cur:string) (acc:list string) : list string :=
  match s with
  | EmptyString => rev (if String.eqb cur "" then acc else cur::acc)
  | String c r =>
      if Ascii.eqb c " " then split_ws r "" (if String.eqb cur "" then acc else cur::acc)
      else split_ws r (String.append cur (String c EmptyString)) acc
  end.

Record ttype := { t_shape : list dimexpr; t_mindex : option nat; t_mname : option string;
                  t_anon : bool; t_lits : list (nat*Z) }.

Fixpoint parse_dims (ds:list string) (i:nat) (acc:list dimexpr) (mi:option nat) (mn:option string)
         (an:bool) (cnt:nat) : res (list dimexpr * option nat * option string * bool * nat) :=
  match ds with
  | [] => Ok (rev acc, mi, mn, an, cnt)
  | s :: r =>
      do d <- expression_from_string s;
      let ism := d_named d || d_anon d in
      parse_dims r (S i) (d::acc) (if ism then Some i else mi)
                 (if ism then (if d_named d then Some (d_ident d) else None) else mn)
                 (an || d_anon d) (if ism then S cnt else cnt)
  end.
(* _literal_dims *)
Fixpoint lits (ds:list dimexpr) (i:nat) (mi:option nat) : res (list (nat*Z)) :=
  match ds with
  | [] => Ok []
  | d::r =>
    let skip := match mi with Some m => Nat.eqb m i | None => false end in
    if d_literal d && negb skip
    then (do v <- evaluate d [] true; do rest <- lits r (S i) mi; Ok ((i,v)::rest))
    else lits r (S i) mi
  end.
(* TensorTypeBase(shape) with shape a str; TensorTypeBase(None) is scalar_type *)
Definition parse_shape (s:string) : res ttype :=
  let parts := split_ws s "" [] in
  match parts with
  | [] => Err SyntaxErr
  | _ =>
    do p <- parse_dims parts 0 [] None None false 0;
    let '(ds,mi,mn,an,cnt) := p in
    if (1 <? cnt) then Err SyntaxErr else
    do ls <- lits ds 0 mi;
    Ok {| t_shape := ds; t_mindex := mi; t_mname := mn; t_anon := an; t_lits := ls |}
  end.
Definition scalar_type : ttype :=
  {| t_shape := []; t_mindex := None; t_mname := None; t_anon := false; t_lits := [] |}.
