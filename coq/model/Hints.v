(* Hints.v - mirrors DLTypeAnnotation.from_hint, _resolve_types, _resolve_value (dltype/_lib/_core.py). *)
From DL Require Import Base Lexer Parser Eval Shape Dtypes Check Context.

(* is the first argument of Annotated[...] one of SUPPORTED_TENSOR_TYPES (or a subclass)? *)
Inductive base := BSupported | BUnsupported.
(* a type hint as typing.get_type_hints(include_extras=True) returns it *)
Inductive hint :=
| HPlain                        (* anything that is neither typing.Union, tuple[...] nor Annotated[...] *)
| HAnnOther                     (* Annotated[T, x] where x is not a TensorTypeBase instance *)
| HAnn (b:base) (a:annot)       (* Annotated[T, <TensorTypeBase instance>] *)
| HUnion (non_none:list hint)   (* typing.Union[...]: its alternatives other than None *)
| HTuple (elts:list hint).      (* tuple[...] *)

Definition set_opt (a:annot) (o:bool) : annot := {| a_ty := a_ty a; a_dtypes := a_dtypes a; a_opt := o |}.

(* from_hint: (came from a tuple[...] hint, one annotation per element) or TypeError *)
Fixpoint from_hint (h:hint) (optional:bool) : res (bool * list (option annot)) :=
  match h with
  | HPlain | HAnnOther => Ok (false, [None])
  | HUnion alts => match alts with [t] => from_hint t true | _ => Err TypeErr end
  | HTuple elts =>
      (fix go (es:list hint) : res (bool * list (option annot)) :=
         match es with
         | [] => Ok (true, [])
         | e :: es' => do p <- from_hint e false; do r <- go es'; Ok (true, snd p ++ snd r)
         end) elts
  | HAnn BSupported a => Ok (false, [Some (set_opt a optional)])
  | HAnn BUnsupported _ => Err TypeErr
  end.

Definition is_none {A} (o:option A) : bool := match o with None => true | Some _ => false end.
Definition resolve_types (anns:list (option annot)) : option (list (option annot)) :=
  if forallb is_none anns then None else Some anns.
(* _resolve_value: the value itself when the hint was a tuple, else a 1-tuple.
   zip() over something that is not iterable raises TypeError; an array given where a tuple is
   expected would be iterated row by row, which the model does not represent. *)
Definition resolve_value (is_tuple:bool) (v:value) : res (list value) :=
  if is_tuple then
    match v with VTuple vs => Ok vs | VArr _ => Err Unmodelled | _ => Err TypeErr end
  else Ok [v].
