(* Nested.v - checked calls made from inside a checked body (another function, or the same one: recursion).
   A body is a finite script: the checked calls it makes, each with its own body, and what it finally returns or raises.
   `FreshCtx` is the code: every activation of the wrapper creates its own DLTypeContext (a local variable of the wrapper).
   `CtxPerFunction` keeps one context object per decorated function and rewinds it on entry - the variant a seeded change
   introduced (kept for its refutation): an inner activation of the same function clobbers what the outer one still needs for
   its return value. *)
From DL Require Import Base Lexer Parser Eval Shape Dtypes Check Context Hints Call.

Inductive body :=
| Finish (b:bres)
| CallThen (name:string) (w:wrapped) (ps:pstatus) (args:list (string*value)) (inner:body) (k:body).

Definition arg_phase (w:wrapped) (ps:pstatus) (args:list (string*value)) : dres ctx :=
  dlet sc <- initial_table (w_provider w) ps;
  dlet q <- add_args (w_params w) args [];
  assert_context (ctx0 sc) q.
Definition ret_phase (w:wrapped) (c:ctx) (v:value) : dres unit :=
  match w_ret w with
  | None => DOk tt
  | Some (it, anns) =>
      match resolve_types anns with
      | None => DOk tt
      | Some ra =>
          match resolve_value it v with
          | Err x => DCrash x
          | Ok vs => dlet q <- ctx_add "return" vs (Some ra) []; dlet _ <- assert_context c q; DOk tt
          end
      end
  end.
Definition finish (w:wrapped) (c:ctx) (b:bres) : call_outcome :=
  match b with
  | BRaise => CBodyRaised
  | BReturn v => match ret_phase w c v with DOk _ => CReturned v | DRej e => CRejected e | DCrash x => CCrashed x end
  end.

Inductive discipline := FreshCtx | CtxPerFunction.
(* the store of the CtxPerFunction discipline: function name -> the context object of that function, as it is now *)
Definition store := list (string * ctx).
Fixpoint sassoc (k:string) (l:store) : option ctx :=
  match l with [] => None | (a,v)::r => if String.eqb a k then Some v else sassoc k r end.
Fixpoint supdate (k:string) (v:ctx) (l:store) : store :=
  match l with [] => [(k,v)] | (a,x)::r => if String.eqb a k then (a,v)::r else (a,x)::supdate k v r end.

(* run the script of a body; returns the store, the outcomes of the inner calls in order, and what the body finally does *)
Fixpoint run_body (d:discipline) (st:store) (b:body) : store * list call_outcome * bres :=
  match b with
  | Finish r => (st, [], r)
  | CallThen name w ps args inner k =>
      match arg_phase w ps args with
      | DRej e => let '(st2, outs, r) := run_body d st k in (st2, CRejected e :: outs, r)
      | DCrash x => let '(st2, outs, r) := run_body d st k in (st2, CCrashed x :: outs, r)
      | DOk c =>
          let st1 := supdate name c st in                       (* CtxPerFunction: the function's context object now holds c *)
          let '(st2, outs_in, r_in) := run_body d st1 inner in
          let c_now := match d with FreshCtx => c | CtxPerFunction => match sassoc name st2 with Some c' => c' | None => c end end in
          let out := finish w c_now r_in in
          let '(st3, outs, r) := run_body d st2 k in
          (st3, outs_in ++ out :: outs, r)
      end
  end.
(* a top-level call of function `name` whose body is the script b *)
Definition run_nested (d:discipline) (name:string) (w:wrapped) (ps:pstatus) (args:list (string*value)) (b:body) : list call_outcome * call_outcome :=
  let '(_, outs, _) := run_body d [] (CallThen name w ps args b (Finish BRaise)) in
  match rev outs with
  | [] => ([], CBodyRaised)
  | last :: _ => (removelast outs, last)
  end.
(* what the body finally does, whatever calls it makes on the way *)
Fixpoint final (b:body) : bres := match b with Finish r => r | CallThen _ _ _ _ _ k => final k end.
