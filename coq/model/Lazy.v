(* Lazy.v - hints that cannot be resolved at decoration time (forward references, postponed annotations naming aliases defined
   later): _maybe_get_type_hints returns None then, the wrapper tries again on each call and keeps the first successful
   resolution in ITS OWN closure (`nonlocal dltype_hints`).  What outlives a call is therefore, per decorated function, the
   resolved hints.  `per_function` is the code; `per_decorator` keys the cell by the decorator object (dltyped(...) applied to
   several functions) - the variant a seeded change introduced, kept for its refutation. *)
From DL Require Import Base Lexer Parser Eval Shape Dtypes Check Context Hints Call World.

Inductive cell_key := PerFunction | PerDecorator.
(* a decorated function: its name, the decorator object that decorated it, what it says *)
Record lfn := { l_name : string; l_deco : string; l_fn : wfn }.
Record lworld := { lw : world; cells : list (string * wrapped) }.
Definition key_of (k:cell_key) (f:lfn) : string := match k with PerFunction => l_name f | PerDecorator => l_deco f end.

Inductive lop := LCall (f:lfn) (args:list (string*value)) | LSetProvider (p:string) (sc:scope).
Definition lstep (k:cell_key) (w:lworld) (o:lop) : lworld * option call_outcome :=
  match o with
  | LSetProvider p sc => ({| lw := {| aliases := aliases (lw w); providers := update p sc (providers (lw w)) |}; cells := cells w |}, None)
  | LCall f args =>
      let wr := match assoc (key_of k f) (cells w) with
                | Some wr => wr                                   (* resolved by an earlier call *)
                | None => wrapped_of current (lw w) (l_fn f)       (* resolved now *)
                end in
      let out := snd (run_call wr (provider_value (lw w) (l_fn f)) args (BReturn VNone)) in
      ({| lw := lw w; cells := update (key_of k f) wr (cells w) |}, Some out)
  end.
Fixpoint lrun (k:cell_key) (w:lworld) (h:list lop) : lworld * list (option call_outcome) :=
  match h with
  | [] => (w, [])
  | o :: r => let '(w1, out) := lstep k w o in let '(w2, outs) := lrun k w1 r in (w2, out :: outs)
  end.
(* the same history for functions whose hints resolve at decoration time *)
Definition eager_op (o:lop) : op := match o with LCall f args => CallOp (l_fn f) args | LSetProvider p sc => SetProvider p sc end.
