(* Symbolic.v - mirrors dltype/_lib/_symbolic_expressions.py: the trees that Python's operator overloads
   build, and their __str__ methods (constant folding of literal operands, parentheses by precedence). *)
From Coq Require Import DecimalString.
From DL Require Import Base Eval.

Inductive sym :=
| SLit (z:Z)                 (* LiteralAxis(z), or a plain int operand *)
| SVar (x:string)            (* VariableAxis(x) *)
| SBin (o:op) (l r:sym)      (* l + r, l - r, l * r, l // r, l ** r  (o is an infix operator) *)
| SIsqrt (a:sym)             (* ISqrt(a) *)
| SFun2 (o:op) (a b:sym)     (* Min(a,b) / Max(a,b) *)
| SGroup (a:sym).            (* Group(a) *)

Definition string_of_Z (z:Z) : string := NilZero.string_of_int (Z.to_int z).
(* _const_str: the string grammar has no negative literals, a negative constant is written (0-n) *)
Definition const_str (z:Z) : string :=
  if (z <? 0)%Z then String.append "(0-" (String.append (string_of_Z (- z)) ")") else string_of_Z z.
Definition op_str (o:op) : string :=
  match o with ADD => "+" | SUB => "-" | MUL => "*" | EXP => "^" | DIV => "/" | MIN => "min" | MAX => "max" | ISQRT => "isqrt" end.
Definition cat3 (a b c:string) : string := String.append a (String.append b c).

(* value of `lhs.value <op> rhs.value` as printed by an f-string; ** with a negative exponent yields a
   float whose repr the model does not represent *)
Definition fold_bin (o:op) (a b:Z) : res Z :=
  match o with
  | ADD => Ok (a+b)%Z | SUB => Ok (a-b)%Z | MUL => Ok (a*b)%Z
  | DIV => if (b =? 0)%Z then Err ZeroDivErr else Ok (a / b)%Z
  | EXP => if (0 <=? b)%Z then Ok (a ^ b)%Z else Err Unmodelled
  | MIN => Ok (Z.min a b) | MAX => Ok (Z.max a b)
  | ISQRT => Err Unmodelled
  end.
(* _PRECEDENCE of the operation behind an operand (None for anything that is not an infix operation) *)
Definition infix_prec (s:sym) : option nat := match s with SBin o _ _ => Some (prec o) | _ => None end.
Definition needs_paren (parent:nat) (operand:sym) (is_rhs:bool) : bool :=
  match infix_prec operand with
  | None => false
  | Some p => (p <? parent) || (is_rhs && (p =? parent))
  end.

Fixpoint sprint (s:sym) : res string :=
  match s with
  | SLit z => Ok (const_str z)
  | SVar x => Ok x
  | SBin o l r =>
      match l, r with
      | SLit a, SLit b => do v <- fold_bin o a b; Ok (const_str v)
      | _, _ =>
        do sl <- sprint l; do sr <- sprint r;
        let sl' := if needs_paren (prec o) l false then cat3 "(" sl ")" else sl in
        let sr' := if needs_paren (prec o) r true then cat3 "(" sr ")" else sr in
        Ok (cat3 sl' (op_str o) sr')
      end
  | SIsqrt a =>
      match a with
      | SLit z => do v <- eval_un z; Ok (string_of_Z v)
      | _ => do sa <- sprint a; Ok (cat3 "isqrt(" sa ")")
      end
  | SFun2 o a b =>
      match a, b with
      | SLit x, SLit y => do v <- fold_bin o x y; Ok (const_str v)
      | _, _ => do sa <- sprint a; do sb <- sprint b;
                Ok (String.append (op_str o) (cat3 "(" (cat3 sa "," sb) ")"))
      end
  | SGroup a => do sa <- sprint a; Ok (cat3 "(" sa ")")
  end.

(* the arithmetic Python's own evaluation gives the tree (integers for the variables) *)
Fixpoint pyden (s:sym) (sc:scope) : res Z :=
  match s with
  | SLit z => Ok z
  | SVar x => match lookup x sc with Some v => Ok v | None => Err (KeyErr x) end
  | SBin o l r => do a <- pyden l sc; do b <- pyden r sc; eval_bin o a b
  | SIsqrt a => do v <- pyden a sc; eval_un v
  | SFun2 o a b => do x <- pyden a sc; do y <- pyden b sc; eval_bin o x y
  | SGroup a => pyden a sc
  end.

(* ---- Shape[...]: a sequence of axes printed with " ".join ---- *)
Inductive saxis :=
| SAExpr (s:sym)               (* an operable axis / computed axis / plain int *)
| SAConst (x:string) (v:Z)     (* ConstantAxis(x, v): "x=v" *)
| SAAnon                       (* AnonymousAxis(...) or a bare Ellipsis: "..." *)
| SAStar (x:string).           (* AnonymousAxis("x"): "*x" *)
Definition print_axis (a:saxis) : res string :=
  match a with
  | SAExpr s => sprint s
  | SAConst x v => Ok (String.append x (String "=" (string_of_Z v)))
  | SAAnon => Ok "..."
  | SAStar x => Ok (String "*" x)
  end.
Fixpoint print_axes (l:list saxis) : res (list string) :=
  match l with [] => Ok [] | a :: r => do s <- print_axis a; do rest <- print_axes r; Ok (s :: rest) end.
Fixpoint join_space (l:list string) : string :=
  match l with
  | [] => ""
  | s :: r => match r with [] => s | _ => String.append s (String " " (join_space r)) end
  end.
Definition print_sshape (l:list saxis) : res string := do ss <- print_axes l; Ok (join_space ss).

(* ---- how Python's operators build the trees: operands are operable axes, computed axes, groups or plain ints;
        ConstantAxis and AnonymousAxis take no part in arithmetic (_as_operand raises TypeError; where the left operand
        has no operator method at all Python raises the TypeError itself) ---- *)
Inductive operand :=
| OInt (z:Z)                   (* a plain Python int *)
| OSym (s:sym)                 (* LiteralAxis / VariableAxis / ComputedAxis / Group *)
| OConst (x:string) (v:Z)      (* ConstantAxis *)
| OAnon                        (* AnonymousAxis(...) *)
| OStar (x:string).            (* AnonymousAxis("x") *)
Definition as_operand (a:operand) : res sym :=
  match a with OInt z => Ok (SLit z) | OSym s => Ok s | _ => Err TypeErr end.
Definition operable (a:operand) : bool := match a with OInt _ | OSym _ => true | _ => false end.
(* l <op> r for + - * // ** (either operand order: the reflected methods put the operands back in source order) *)
Definition mk_bin (o:op) (l r:operand) : res sym :=
  match l, r with
  | OInt _, OInt _ => Err Unmodelled          (* two ints: Python's own arithmetic, no axis involved *)
  | _, _ => do a <- as_operand l; do b <- as_operand r; Ok (SBin o a b)
  end.
Definition mk_isqrt (a:operand) : res sym := do s <- as_operand a; Ok (SIsqrt s).
Definition mk_fun2 (o:op) (a b:operand) : res sym := do x <- as_operand a; do y <- as_operand b; Ok (SFun2 o x y).
