(* Check.v - mirrors TensorTypeBase.check (dltype/_lib/_tensor_type_base.py) and the error classes'
   structured content (dltype/_lib/_errors.py). *)
From DL Require Import Base Lexer Parser Eval Shape Dtypes.

Record tensor := { x_lib : lib; x_dt : adtype; x_shape : list Z }.
(* an annotation object: TensorTypeBase subclass instance *)
Record annot := { a_ty : ttype; a_dtypes : list dtok; a_opt : bool }.

Inductive dlerr :=
| ENDims (name:string) (expected actual:nat)
| EDtype (name:string)
| EShape (name:string) (idx:nat) (expected actual:Z)
| EInvalidRef (name:string) (missing:string) (valid:list string)
| EUnsupported
| EDuplicate (name:string)
| EScopeProvider.
(* result of a checking step: fine / a DLTypeError / some other exception *)
Inductive dres (A:Type) := DOk (a:A) | DRej (e:dlerr) | DCrash (x:exn).
Arguments DOk {A} a. Arguments DRej {A} e. Arguments DCrash {A} x.
Definition dbind {A B} (r:dres A) (f:A -> dres B) : dres B :=
  match r with DOk a => f a | DRej e => DRej e | DCrash x => DCrash x end.
Notation "'dlet' x <- r ; k" := (dbind r (fun x => k)) (at level 200, x pattern, right associativity).

Definition check_rank (ty:ttype) (r:nat) (name:string) : dres unit :=
  let n := length (t_shape ty) in
  match t_mindex ty with
  | Some _ => if r <? n - 1 then DRej (ENDims name (n-1) r) else DOk tt
  | None => if negb (r =? n) then DRej (ENDims name n r) else DOk tt
  end.
(* index of a literal axis in the actual tensor *)
Definition adjust_idx (ty:ttype) (r idx:nat) : nat :=
  match t_mindex ty with
  | Some m => if m <? idx then idx + r - length (t_shape ty) else idx
  | None => idx
  end.
Fixpoint check_lits (ty:ttype) (shape:list Z) (ls:list (nat*Z)) (name:string) : dres unit :=
  match ls with
  | [] => DOk tt
  | (idx,v) :: rest =>
      let adj := adjust_idx ty (length shape) idx in
      match nth_error shape adj with
      | None => DCrash IndexErr
      | Some s => if (s =? v)%Z then check_lits ty shape rest name else DRej (EShape name adj v s)
      end
  end.
Definition check (a:annot) (x:tensor) (name:string) : dres unit :=
  dlet _ <- check_rank (a_ty a) (length (x_shape x)) name;
  dlet _ <- (if dtype_accepted (a_dtypes a) (x_lib x) (x_dt x) then DOk tt else DRej (EDtype name));
  check_lits (a_ty a) (x_shape x) (t_lits (a_ty a)) name.
