(* Base.v - shared datatypes of the dltype model: operators, tokens, exceptions-as-values. *)
From Coq Require Export ZArith List Bool String Ascii Lia Arith.
Export ListNotations.
#[global] Open Scope string_scope.
#[global] Open Scope list_scope.
#[global] Open Scope nat_scope.
Notation length := List.length.

(* _DLTypeOperator *)
Inductive op := ADD | SUB | MUL | EXP | DIV | MIN | MAX | ISQRT.
(* tokens produced by _tokenize_string_expr: int | str | operator | '=' | '(' | ')' | ',' *)
Inductive tok := TInt (n:Z) | TStr (s:string) | TOp (o:op) | TEq | TLP | TRP | TComma.
(* postfix program entries: int | identifier | operator *)
Inductive ptok := PInt (n:Z) | PName (s:string) | POp (o:op).

(* Python exceptions that the modelled code can raise (other than DLTypeError subclasses). *)
Inductive exn :=
| SyntaxErr | ValueErr | IndexErr | KeyErr (k:string) | ZeroDivErr | OverflowErr | TypeErr
| RecursionErr   (* fuel exhausted: never produced for the fuel the entry points supply *)
| Unmodelled.    (* float semantics of int(a**b) for b<0 and huge |a| *)

Inductive res (A:Type) := Ok (a:A) | Err (e:exn).
Arguments Ok {A} a. Arguments Err {A} e.
Definition bind {A B} (r:res A) (f:A -> res B) : res B := match r with Ok a => f a | Err e => Err e end.
Notation "'do' x <- r ; k" := (bind r (fun x => k)) (at level 200, x pattern, right associativity).

Definition op_eqb (a b:op) : bool :=
  match a,b with ADD,ADD|SUB,SUB|MUL,MUL|EXP,EXP|DIV,DIV|MIN,MIN|MAX,MAX|ISQRT,ISQRT => true | _,_ => false end.
(* _op_precedence *)
Definition prec (o:op) : nat := match o with ADD|SUB => 1 | MUL|DIV => 2 | EXP => 3 | MIN|MAX => 4 | ISQRT => 5 end.
Definition prec_lparen : nat := 6.
Definition is_unary (o:op) := match o with ISQRT => true | _ => false end.
Definition is_binfun (o:op) := match o with MIN|MAX => true | _ => false end.
Definition is_fun (o:op) := is_unary o || is_binfun o.
Definition is_infix (o:op) := negb (is_fun o).

Lemma op_eqb_eq a b : op_eqb a b = true <-> a = b.
Proof. destruct a, b; simpl; split; intros H; try reflexivity; try discriminate. Qed.

(* character classes (printable ASCII) *)
Definition is_digit (c:ascii) : bool := let n := nat_of_ascii c in (48 <=? n) && (n <=? 57).
Definition is_alpha (c:ascii) : bool :=
  let n := nat_of_ascii c in ((65 <=? n) && (n <=? 90)) || ((97 <=? n) && (n <=? 122)).
Definition is_identchar (c:ascii) : bool := is_alpha c || is_digit c || Ascii.eqb c "_"%char.
Fixpoint all_chars (p:ascii->bool) (s:string) : bool :=
  match s with EmptyString => true | String c r => p c && all_chars p r end.
(* str.isnumeric() restricted to ASCII *)
Definition isnumeric (s:string) : bool := match s with EmptyString => false | _ => all_chars is_digit s end.
(* int(span) for a span of ASCII digits *)
Fixpoint int_of_digits (acc:Z) (s:string) : Z :=
  match s with EmptyString => acc | String c r => int_of_digits (10*acc + Z.of_nat (nat_of_ascii c - 48)) r end.
(* _VALID_IDENTIFIER_RX = ^[a-zA-Z][a-zA-Z0-9_]*$ *)
Definition valid_ident (s:string) : bool :=
  match s with EmptyString => false | String c r => is_alpha c && all_chars is_identchar r end.

(* scopes: insertion-ordered association lists (dict[str,int]) *)
Definition scope := list (string * Z).
Fixpoint lookup (k:string) (sc:scope) : option Z :=
  match sc with [] => None | (a,v)::r => if String.eqb a k then Some v else lookup k r end.
Definition mem (k:string) (sc:scope) : bool := match lookup k sc with Some _ => true | None => false end.
(* dict assignment of a key known to be absent appends at the end *)
Definition sc_bind (k:string) (v:Z) (sc:scope) : scope := sc ++ [(k,v)].
