(* Lexer.v - mirrors _span_to_tok, _span_to_str_or_int, _tokenize_string_expr, _assert_token_list_valid
   (dltype/_lib/_parser.py). *)
From DL Require Import Base.

Definition char_tok (c:ascii) : option tok :=
  if Ascii.eqb c "+" then Some (TOp ADD) else if Ascii.eqb c "-" then Some (TOp SUB) else
  if Ascii.eqb c "*" then Some (TOp MUL) else if Ascii.eqb c "^" then Some (TOp EXP) else
  if Ascii.eqb c "/" then Some (TOp DIV) else if Ascii.eqb c "=" then Some TEq else
  if Ascii.eqb c "(" then Some TLP else if Ascii.eqb c ")" then Some TRP else
  if Ascii.eqb c "," then Some TComma else None.

(* a multi-character span: enum lookup by value, then isnumeric -> int, else the string *)
Definition span_tok (s:string) : tok :=
  if String.eqb s "min" then TOp MIN else if String.eqb s "max" then TOp MAX else
  if String.eqb s "isqrt" then TOp ISQRT else
  if isnumeric s then TInt (int_of_digits 0 s) else TStr s.

Definition flush_span (span:string) (acc:list tok) : list tok :=
  if String.eqb span "" then acc else span_tok span :: acc.

(* acc is reversed *)
Fixpoint lex (s:string) (span:string) (acc:list tok) : res (list tok) :=
  match s with
  | EmptyString => Ok (rev (flush_span span acc))
  | String c r =>
    if Ascii.eqb c " " then Err SyntaxErr else
    match char_tok c with
    | Some t => lex r "" (t :: flush_span span acc)
    | None => lex r (String.append span (String c EmptyString)) acc
    end
  end.

(* the fold of _assert_token_list_valid, over the reversed list *)
Fixpoint count_valid (ts:list tok) (nexp nact:nat) : res (nat*nat) :=
  match ts with
  | [] => Ok (nexp,nact)
  | t :: r => match t with
     | TOp o => if is_unary o then count_valid r (S nexp) (S nact) else count_valid r (S (S nexp)) (S nact)
     | TInt _ | TStr _ => count_valid r nexp (S nact)
     | TLP | TRP | TComma => count_valid r nexp nact
     | TEq => Err SyntaxErr end
  end.
Definition assert_token_list_valid (ts:list tok) : res unit :=
  match ts with
  | [] => Err SyntaxErr
  | [TInt _] | [TStr _] => Ok tt
  | [TOp MUL; TStr _] => Ok tt
  | _ => do p <- count_valid (rev ts) 1 0;
         let '(e,a) := p in if Nat.eqb e a then Ok tt else Err SyntaxErr
  end.
Definition tokenize (s:string) : res (list tok) :=
  do ts <- lex s "" []; do _ <- assert_token_list_valid ts; Ok ts.
