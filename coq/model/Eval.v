(* Eval.v - mirrors _DLTypeOperator.evaluate / evaluate_unary and DLTypeDimensionExpression.evaluate. *)
From DL Require Import Base Lexer Parser.
#[local] Open Scope Z_scope.

(* int(a**b): exact for b >= 0; for b < 0 Python converts both operands to float, computes a float and truncates
   it.  A float of magnitude >= 2^53 is an even integer, so the parity of a huge negative exponent is lost. *)
Definition eval_pow (a b:Z) : res Z :=
  if 0 <=? b then Ok (a ^ b) else
  (* both operands are converted to float first: OverflowError beyond the float range (boundary not modelled) *)
  if (2^1000 <=? Z.abs a) || (2^1000 <=? Z.abs b) then Err Unmodelled else
  if a =? 0 then Err ZeroDivErr else
  if a =? 1 then Ok 1 else
  if a =? -1 then Ok (if (2^53 <=? Z.abs b) || Z.even b then 1 else -1) else Ok 0.
Definition eval_bin (o:op) (a b:Z) : res Z :=
  match o with
  | ADD => Ok (a+b) | SUB => Ok (a-b) | MUL => Ok (a*b)
  | EXP => eval_pow a b
  | DIV => if b =? 0 then Err ZeroDivErr else Ok (a / b)
  | MIN => Ok (Z.min a b) | MAX => Ok (Z.max a b)
  | ISQRT => Err Unmodelled   (* NotImplementedError: never reached, ISQRT is dispatched as unary *)
  end.
(* math.isqrt *)
Definition eval_un (b:Z) : res Z := if b <? 0 then Err ValueErr else Ok (Z.sqrt b).

Fixpoint eval_post (p:list ptok) (sc:scope) (st:list Z) : res Z :=
  match p with
  | [] => match st with [v] => Ok v | _ => Err ValueErr end
  | PInt z :: r => eval_post r sc (z::st)
  | PName x :: r => match lookup x sc with Some v => eval_post r sc (v::st) | None => Err (KeyErr x) end
  | POp o :: r =>
     match st with
     | [] => Err IndexErr
     | b :: st1 =>
       if is_unary o then (do v <- eval_un b; eval_post r sc (v :: st1))
       else match st1 with
            | [] => Err IndexErr
            | a :: st2 => do v <- eval_bin o a b; eval_post r sc (v::st2)
            end
     end
  end.
(* evaluate(scope, use_cached=...) *)
Definition evaluate (d:dimexpr) (sc:scope) (use_cached:bool) : res Z :=
  if d_anon d then Err ValueErr else
  match (if use_cached then lookup (d_ident d) sc else None) with
  | Some v => Ok v
  | None => eval_post (d_post d) sc []
  end.
