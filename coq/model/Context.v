(* Context.v - mirrors _ConcreteType and DLTypeContext (dltype/_lib/_dltype_context.py). *)
From Coq Require Import DecimalString.
From DL Require Import Base Lexer Parser Eval Shape Dtypes Check.

(* what can be passed where a tensor is expected *)
Inductive value := VNone | VArr (x:tensor) | VTuple (vs:list value) | VOther.

Definition string_of_nat (n:nat) : string := NilEmpty.string_of_uint (Nat.to_uint n).
(* f"{name}[{i}]" *)
Definition indexed_name (name:string) (i:nat) : string :=
  String.append name (String.append "[" (String.append (string_of_nat i) "]")).

Record concrete := { c_idx : nat; c_name : string; c_tensor : tensor; c_annot : annot }.
Definition tensor_arg_name (c:concrete) : string :=
  if 0 <? c_idx c then indexed_name (c_name c) (c_idx c) else c_name c.

(* DLTypeContext: tensor_shape_map, registered_tensor_dtypes (names only), _multiaxis_lengths *)
Record ctx := { table : scope; regs : list string; glens : list (string * nat) }.
Definition ctx0 (sc:scope) : ctx := {| table := sc; regs := []; glens := [] |}.

(* DLTypeContext.add: zip(strict=True) over annotations and values *)
Fixpoint add_loop (name:string) (idx:nat) (anns:list (option annot)) (vals:list value)
         (q:list concrete) : dres (list concrete) :=
  match anns, vals with
  | [], [] => DOk q
  | a :: anns', v :: vals' =>
      match a with
      | None => add_loop name (S idx) anns' vals' q
      | Some an =>
          match v with
          | VNone => if a_opt an then add_loop name (S idx) anns' vals' q else DRej EUnsupported
          | VArr x => add_loop name (S idx) anns' vals'
                        (q ++ [{| c_idx := idx; c_name := name; c_tensor := x; c_annot := an |}])
          | _ => DRej EUnsupported
          end
      end
  | _, _ => DCrash ValueErr
  end.
Definition ctx_add (name:string) (vals:list value) (anns:option (list (option annot)))
           (q:list concrete) : dres (list concrete) :=
  match anns with None => DOk q | Some l => add_loop name 0 l vals q end.

(* get_expected_shape: the marker is replaced by one multiaxis literal per absorbed axis *)
Definition mlit (ident:string) (v:Z) (anon:bool) : dimexpr :=
  {| d_ident := ident; d_post := [PInt v]; d_literal := false; d_identifier := true; d_expression := true;
     d_mlit := true; d_anon := anon; d_named := false |}.
Definition mname_str (ty:ttype) : string := match t_mname ty with Some s => s | None => "None" end.
Fixpoint mlits (ty:ttype) (shape:list Z) (m:nat) (i:nat) (count:nat) : res (list dimexpr) :=
  match count with
  | O => Ok []
  | S k => match nth_error shape (m+i) with
           | None => Err IndexErr
           | Some v => do rest <- mlits ty shape m (S i) k;
                       Ok (mlit (indexed_name (mname_str ty) i) v (t_anon ty) :: rest)
           end
  end.
Definition expected_shape (ty:ttype) (shape:list Z) : res (list dimexpr) :=
  match t_mindex ty with
  | None => Ok (t_shape ty)
  | Some m =>
      let off := length shape + 1 - length (t_shape ty) in
      do ms <- mlits ty shape m 0 off;
      Ok (firstn m (t_shape ty) ++ ms ++ skipn (S m) (t_shape ty))
  end.

(* the values an axis is compared against: the cached/evaluated one and, for a named expression whose
   name is already established, the value of the expression as well *)
Definition needs_recheck (d:dimexpr) (sc:scope) : bool :=
  mem (d_ident d) sc && d_expression d && negb (d_identifier d) && negb (d_literal d).
Definition expected_values (d:dimexpr) (sc:scope) : res (list Z) :=
  do v1 <- evaluate d sc true;
  if needs_recheck d sc then (do v2 <- evaluate d sc false; Ok [v1; v2]) else Ok [v1].
Fixpoint first_mismatch (vs:list Z) (actual:Z) : option Z :=
  match vs with [] => None | v :: r => if (v =? actual)%Z then first_mismatch r actual else Some v end.

(* one iteration of the loop of _assert_tensor_shape *)
Definition step_dim (name:string) (sc:scope) (idx:nat) (d:dimexpr) (actual:Z) : dres scope :=
  if d_anon d then DOk sc else
  let id := d_ident d in
  if d_literal d && negb (mem id sc) then DOk (if isnumeric id then sc else sc_bind id actual sc) else
  if d_identifier d && negb (mem id sc) then DOk (sc_bind id actual sc) else
  match expected_values d sc with
  | Err (KeyErr k) => DRej (EInvalidRef name k (map fst sc))
  | Err x => DCrash x
  | Ok vs =>
      match first_mismatch vs actual with
      | Some v => DRej (EShape name idx v actual)
      | None => DOk (if mem id sc then sc else sc_bind id actual sc)
      end
  end.
Fixpoint assert_dims (name:string) (sc:scope) (idx:nat) (ds:list dimexpr) (shape:list Z) : dres scope :=
  match ds with
  | [] => DOk sc
  | d :: ds' =>
      match shape with
      | [] => DCrash IndexErr
      | s :: shape' => dlet sc1 <- step_dim name sc idx d s; assert_dims name sc1 (S idx) ds' shape'
      end
  end.

Fixpoint glookup (k:string) (g:list (string*nat)) : option nat :=
  match g with [] => None | (a,v)::r => if String.eqb a k then Some v else glookup k r end.
(* _assert_multiaxis_length *)
Definition assert_mlen (name:string) (ty:ttype) (r:nat) (g:list (string*nat)) : dres (list (string*nat)) :=
  match t_mname ty with
  | None => DOk g
  | Some b =>
      let nfixed := length (t_shape ty) - 1 in
      match glookup b g with
      | None => DOk (g ++ [(b, r - nfixed)])
      | Some k => if negb (r =? nfixed + k) then DRej (ENDims name (nfixed + k) r) else DOk g
      end
  end.

Definition assert_one (c:ctx) (t:concrete) : dres ctx :=
  let name := tensor_arg_name t in
  let x := c_tensor t in
  let ty := a_ty (c_annot t) in
  dlet _ <- check (c_annot t) x name;
  if existsb (String.eqb name) (regs c) then DRej (EDuplicate name) else
  match expected_shape ty (x_shape x) with
  | Err e => DCrash e
  | Ok ds =>
      dlet sc <- assert_dims name (table c) 0 ds (x_shape x);
      dlet g <- assert_mlen name ty (length (x_shape x)) (glens c);
      DOk {| table := sc; regs := regs c ++ [name]; glens := g |}
  end.
(* assert_context: the queue is emptied front to back *)
Fixpoint assert_context (c:ctx) (q:list concrete) : dres ctx :=
  match q with
  | [] => DOk c
  | t :: q' => dlet c1 <- assert_one c t; assert_context c1 q'
  end.

(* an item is one ctx.add call: (name, values after _resolve_value, annotations after _resolve_types) *)
Definition item := (string * list value * option (list (option annot)))%type.
Fixpoint add_items (its:list item) (q:list concrete) : dres (list concrete) :=
  match its with
  | [] => DOk q
  | (n,vs,anns) :: r => dlet q1 <- ctx_add n vs anns q; add_items r q1
  end.
(* add everything, then assert: one checked context *)
Definition run_ctx (c:ctx) (its:list item) : dres ctx :=
  dlet q <- add_items its []; assert_context c q.
