(* Dtypes.v - array libraries, array dtypes, entries of the DTYPES tuples and Python's `dtype in DTYPES`. *)
From DL Require Import Base.

Inductive lib := LNumpy | LTorch | LJax.
(* what an array's .dtype can be; KOther stands for str/object/datetime/void/... *)
Inductive adtype :=
| KBool | KI8 | KI16 | KI32 | KI64 | KU8 | KU16 | KU32 | KU64
| KF16 | KBF16 | KF32 | KF64 | KLongDouble | KC64 | KC128 | KF8E4M3 | KF8E5M2 | KOther.
(* an entry of a DTYPES tuple: a numpy scalar class (np.float32) or a torch dtype (torch.float32) *)
Inductive dtok := NP (k:adtype) | TO (k:adtype).

Definition lib_eqb (a b:lib) : bool := match a,b with LNumpy,LNumpy|LTorch,LTorch|LJax,LJax => true | _,_ => false end.
Definition adtype_eqb (a b:adtype) : bool :=
  match a,b with
  | KBool,KBool|KI8,KI8|KI16,KI16|KI32,KI32|KI64,KI64|KU8,KU8|KU16,KU16|KU32,KU32|KU64,KU64
  | KF16,KF16|KBF16,KBF16|KF32,KF32|KF64,KF64|KLongDouble,KLongDouble|KC64,KC64|KC128,KC128
  | KF8E4M3,KF8E4M3|KF8E5M2,KF8E5M2|KOther,KOther => true
  | _,_ => false end.
Lemma adtype_eqb_eq a b : adtype_eqb a b = true <-> a = b.
Proof. destruct a, b; simpl; split; intros H; try reflexivity; try discriminate. Qed.

(* `array.dtype == entry`: numpy and jax arrays carry numpy dtypes, which compare equal to the numpy
   scalar class of the same kind and unequal to every torch dtype; torch dtypes compare by identity. *)
Definition dtype_eq (l:lib) (d:adtype) (e:dtok) : bool :=
  match l, e with
  | LTorch, TO k => adtype_eqb d k
  | LNumpy, NP k | LJax, NP k => adtype_eqb d k
  | _, _ => false
  end.
(* `self.DTYPES and tensor.dtype not in self.DTYPES` is the rejection condition *)
Definition dtype_accepted (dtypes:list dtok) (l:lib) (d:adtype) : bool :=
  match dtypes with [] => true | _ => existsb (dtype_eq l d) dtypes end.

Definition all_libs := [LNumpy; LTorch; LJax].
Definition all_adtypes := [KBool; KI8; KI16; KI32; KI64; KU8; KU16; KU32; KU64; KF16; KBF16; KF32; KF64;
                           KLongDouble; KC64; KC128; KF8E4M3; KF8E5M2; KOther].
Lemma all_libs_complete l : In l all_libs. Proof. destruct l; simpl; auto. Qed.
Lemma all_adtypes_complete d : In d all_adtypes. Proof. destruct d; simpl; tauto. Qed.

(* the exported tensor classes *)
Inductive cls :=
| CTensorTypeBase | CFloat | CFloat16 | CIEEE754Half | CBFloat16 | CFloat32 | CFloat64 | CDouble
| CInt | CSignedInt | CUnsignedInt | CInt8 | CInt16 | CInt32 | CInt64 | CUInt8 | CUInt16 | CUInt32 | CUInt64 | CBool.
Definition all_cls := [CTensorTypeBase; CFloat; CFloat16; CIEEE754Half; CBFloat16; CFloat32; CFloat64; CDouble;
  CInt; CSignedInt; CUnsignedInt; CInt8; CInt16; CInt32; CInt64; CUInt8; CUInt16; CUInt32; CUInt64; CBool].
Lemma all_cls_complete c : In c all_cls. Proof. destruct c; simpl; tauto. Qed.
Definition dtok_lib_is_torch (e:dtok) : bool := match e with TO _ => true | NP _ => false end.
