(* World.v - the state that outlives a single checked call, and the two channels through which the code used to
   leak between calls (both closed by fix: commits; kept here as the `legacy` configuration so that the
   refutations are machine-checked):
   - the `.optional` attribute of an annotation object that several hints share through a type alias
     (from_hint used to write it at decoration time; it now sets it on a copy),
   - the mapping a scope provider returns (the wrapper used to adopt it as the binding table of the call and
     so wrote the call's bindings into it; it now copies it). *)
From DL Require Import Base Lexer Parser Eval Shape Dtypes Check Context Hints Call.

Record cfg := { copy_provider : bool; copy_annotation : bool }.
Definition current : cfg := {| copy_provider := true; copy_annotation := true |}.
Definition legacy : cfg := {| copy_provider := false; copy_annotation := false |}.

(* a decorated function as written: parameters refer to aliases, with or without `| None` *)
Record wfn := { wf_params : list (string * string * bool);     (* parameter, alias, optional as written *)
                wf_provider : option string }.                  (* name of the provider object, if any *)
Record world := { aliases : list (string * annot);              (* the shared annotation objects (flag included) *)
                  providers : list (string * scope) }.          (* the mapping each provider object owns *)

Fixpoint assoc {A} (k:string) (l:list (string*A)) : option A :=
  match l with [] => None | (a,v)::r => if String.eqb a k then Some v else assoc k r end.
Fixpoint update {A} (k:string) (v:A) (l:list (string*A)) : list (string*A) :=
  match l with [] => [(k,v)] | (a,x)::r => if String.eqb a k then (a,v)::r else (a,x)::update k v r end.

(* decoration: under the legacy configuration the flag is written onto the shared object *)
Definition decorate_world (c:cfg) (w:world) (f:wfn) : world :=
  if copy_annotation c then w else
  {| aliases := fold_left (fun al p => match assoc (snd (fst p)) al with
                                       | Some a => update (snd (fst p)) (set_opt a (snd p)) al
                                       | None => al end) (wf_params f) (aliases w);
     providers := providers w |}.
(* the wrapper a call really uses: flags as written (copies) or as they are on the shared objects now *)
Definition wrapped_of (c:cfg) (w:world) (f:wfn) : wrapped :=
  {| w_params := flat_map (fun p => match assoc (snd (fst p)) (aliases w) with
                                    | Some a => [(fst (fst p), (false, [Some (if copy_annotation c then set_opt a (snd p) else a)]))]
                                    | None => [] end) (wf_params f);
     w_ret := None;
     w_provider := match wf_provider f with Some _ => PFree | None => PNone end |}.
Definition provider_value (w:world) (f:wfn) : pstatus :=
  match wf_provider f with
  | None => PSBad
  | Some p => match assoc p (providers w) with Some sc => PSOk sc | None => PSBad end
  end.
(* the table a call ends with (what a legacy call leaves in the provider's own dict) *)
Definition final_table (wr:wrapped) (ps:pstatus) (args:list (string*value)) : option scope :=
  match initial_table (w_provider wr) ps with
  | DOk sc => match (dlet q <- add_args (w_params wr) args []; assert_context (ctx0 sc) q) with
              | DOk c => Some (table c) | _ => None end
  | _ => None
  end.

Inductive op := Decorate (f:wfn) | CallOp (f:wfn) (args:list (string*value)) | SetProvider (p:string) (sc:scope).
Definition step (c:cfg) (w:world) (o:op) : world * option call_outcome :=
  match o with
  | Decorate f => (decorate_world c w f, None)
  | SetProvider p sc => ({| aliases := aliases w; providers := update p sc (providers w) |}, None)
  | CallOp f args =>
      let wr := wrapped_of c w f in
      let ps := provider_value w f in
      let out := snd (run_call wr ps args (BReturn VNone)) in
      let w' := if copy_provider c then w else
                  match wf_provider f, final_table wr ps args with
                  | Some p, Some t => {| aliases := aliases w; providers := update p t (providers w) |}
                  | _, _ => w
                  end in
      (w', Some out)
  end.
Fixpoint run_history (c:cfg) (w:world) (h:list op) : world * list (option call_outcome) :=
  match h with
  | [] => (w, [])
  | o :: r => let '(w1, out) := step c w o in let '(w2, outs) := run_history c w1 r in (w2, out :: outs)
  end.
