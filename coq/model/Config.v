(* Config.v - mirrors _constants.py (pydantic-settings reading DLTYPE_DISABLE / DLTYPE_DEBUG_MODE once at
   import), the `enabled=not GLOBAL_DISABLE` defaults and the early returns of the three decorators. *)
From DL Require Import Base.

Definition lower_char (c:ascii) : ascii :=
  let n := nat_of_ascii c in if (65 <=? n) && (n <=? 90) then ascii_of_nat (n + 32) else c.
Fixpoint lower (s:string) : string := match s with EmptyString => EmptyString | String c r => String (lower_char c) (lower r) end.
Definition str_in (s:string) (l:list string) : bool := existsb (String.eqb s) l.
(* pydantic's str -> bool table (case-insensitive); anything else is a validation error at import *)
Definition parse_env_bool (s:string) : option bool :=
  let l := lower s in
  if str_in l ["1"; "on"; "t"; "true"; "y"; "yes"] then Some true else
  if str_in l ["0"; "off"; "f"; "false"; "n"; "no"] then Some false else None.

Inductive import_result := ImportOk (global_disable debug:bool) | ImportFails.
(* None = variable unset *)
Definition read_env (disable debug:option string) : import_result :=
  match (match disable with None => Some false | Some s => parse_env_bool s end),
        (match debug with None => Some false | Some s => parse_env_bool s end) with
  | Some d, Some g => ImportOk d g
  | _, _ => ImportFails
  end.
(* the `enabled` keyword of a decorator: explicit value, or the default bound at import *)
Definition effective_enabled (global_disable:bool) (arg:option bool) : bool :=
  match arg with Some b => b | None => negb global_disable end.
Inductive dkind := KFunction | KNamedTuple | KDataclass.
(* does decorator(kind)(obj) return obj itself because of the switch (not because there is nothing to check) *)
Definition returns_original (k:dkind) (scripting enabled:bool) : bool :=
  match k with
  | KFunction | KDataclass => scripting || negb enabled
  | KNamedTuple => negb enabled
  end.

(* backend selection: _dtypes.py (supported array types) and dltype/__init__.py (class family) *)
From DL Require Import Dtypes.
Inductive family := FamUniversal | FamTorch | FamNumpy.
(* the if / elif chain of dltype/__init__.py; None = ImportError *)
Definition select_family (n t:bool) : option family :=
  if t && n then Some FamUniversal else if t then Some FamTorch else if n then Some FamNumpy else None.
(* the if / elif chain of _dtypes.py; None = ImportError *)
Definition supported_types (n t j:bool) : option (list lib) :=
  if n && negb t && negb j then Some [LNumpy] else
  if negb n && t then Some [LTorch] else
  if n && negb t && j then Some [LNumpy; LJax] else
  if n && t && negb j then Some [LTorch; LNumpy] else
  if n && t && j then Some [LNumpy; LJax; LTorch] else None.
(* an installation with jax but without numpy does not exist *)
Definition realisable (n t j:bool) : bool := implb j n.
(* the entries of a DTYPES tuple that belong to importable libraries *)
Definition restrict (n t:bool) (l:list dtok) : list dtok :=
  filter (fun e => if dtok_lib_is_torch e then t else n) l.
