(* Config.v - mirrors _constants.py (pydantic-settings reading DLTYPE_DISABLE / DLTYPE_DEBUG_MODE once at
   import), the `enabled=not GLOBAL_DISABLE` defaults and the early returns of the three decorators. *)
From DL Require Import Base.

Definition lower_char (c:ascii) : ascii :=
  let n := nat_of_ascii c in if (65 <=? n) && (n <=? 90) then ascii_of_nat (n + 32) else c.
Fixpoint lower (s:string) : string := match s with EmptyString => EmptyString | String c r => String (lower_char c) (lower r) end.
Definition str_in (s:string) (l:list string) : bool := existsb (String.eqb s) l.
(* pydantic's str -> bool table (case-insensitive); anything else is a validation error at import *)
Definition parse_env_bool (s:string) : option bool :=
  let l := lower s in
  if str_in l ["1"; "on"; "t"; "true"; "y"; "yes"] then Some true else
  if str_in l ["0"; "off"; "f"; "false"; "n"; "no"] then Some false else None.

Inductive import_result := ImportOk (global_disable debug:bool) | ImportFails.
(* None = variable unset *)
Definition read_env (disable debug:option string) : import_result :=
  match (match disable with None => Some false | Some s => parse_env_bool s end),
        (match debug with None => Some false | Some s => parse_env_bool s end) with
  | Some d, Some g => ImportOk d g
  | _, _ => ImportFails
  end.
(* the `enabled` keyword of a decorator: explicit value, or the default bound at import *)
Definition effective_enabled (global_disable:bool) (arg:option bool) : bool :=
  match arg with Some b => b | None => negb global_disable end.
Inductive dkind := KFunction | KNamedTuple | KDataclass.
(* does decorator(kind)(obj) return obj itself because of the switch (not because there is nothing to check) *)
Definition returns_original (k:dkind) (scripting enabled:bool) : bool :=
  match k with
  | KFunction | KDataclass => scripting || negb enabled
  | KNamedTuple => negb enabled
  end.
