(* Call.v - mirrors the dltyped() decorator and its wrapper (dltype/_lib/_core.py). *)
From DL Require Import Base Lexer Parser Eval Shape Dtypes Check Context Hints.

Inductive pspec := PNone | PSelf | PFree.             (* the scope_provider argument of dltyped *)
Inductive pstatus := PSOk (sc:scope) | PSBad.         (* does the object satisfy the protocol now, and what it returns *)

Record fn := {
  f_params : list (string * hint);   (* annotated parameters in signature order (the loop follows signature.parameters; class forms follow get_type_hints order = declaration order) *)
  f_ret : option hint;               (* the return annotation, if any *)
  f_provider : pspec;
  f_is_method : bool;                (* "self" or "cls" among the parameters *)
}.
(* dltype_hints: name -> (is_tuple, annotations) *)
Definition rhints := list (string * (bool * list (option annot))).
Record wrapped := { w_params : rhints; w_ret : option (bool * list (option annot)); w_provider : pspec }.
Inductive decorated := DecIdentity | DecWrapped (w:wrapped) | DecError (x:exn).

Fixpoint hints_of (ps:list (string*hint)) : res rhints :=
  match ps with
  | [] => Ok []
  | (n,h) :: r => do a <- from_hint h false; do rest <- hints_of r; Ok ((n,a)::rest)
  end.
Definition all_none_hints (w:wrapped) : bool :=
  forallb (fun p => forallb is_none (snd (snd p))) (w_params w) &&
  match w_ret w with None => true | Some r => forallb is_none (snd r) end.

Definition ret_hints (f:fn) : res (option (bool * list (option annot))) :=
  match f_ret f with None => Ok None | Some h => do a <- from_hint h false; Ok (Some a) end.
Definition decorate (enabled:bool) (f:fn) : decorated :=
  if negb enabled then DecIdentity else
  if (match f_provider f with PSelf => negb (f_is_method f) | _ => false end) then DecError TypeErr else
  match hints_of (f_params f) with
  | Err x => DecError x
  | Ok ps =>
    match ret_hints f with
    | Err x => DecError x
    | Ok r =>
        let w := {| w_params := ps; w_ret := r; w_provider := f_provider f |} in
        if all_none_hints w then DecIdentity else DecWrapped w
    end
  end.

(* what the wrapped body does when it is run *)
Inductive bres := BReturn (v:value) | BRaise.
Inductive call_outcome :=
| CReturned (v:value)       (* the caller receives the body's value *)
| CRejected (e:dlerr)       (* a DLTypeError *)
| CCrashed (x:exn)          (* any other exception raised by the checker *)
| CBodyRaised.              (* the body's own exception propagates *)

Fixpoint arg_lookup (n:string) (args:list (string*value)) : option value :=
  match args with [] => None | (a,v)::r => if String.eqb a n then Some v else arg_lookup n r end.

(* the loop over dltype_hints that queues the arguments *)
Fixpoint add_args (ps:rhints) (args:list (string*value)) (q:list concrete) : dres (list concrete) :=
  match ps with
  | [] => DOk q
  | (n,(is_tuple,anns)) :: r =>
      if String.eqb n "self" || String.eqb n "cls" then DCrash TypeErr else
      match anns with
      | [] => add_args r args q          (* an empty tuple of annotations is falsy *)
      | _ =>
        match arg_lookup n args with
        | None => DCrash (KeyErr n)
        | Some v =>
            match resolve_types anns with
            | None => add_args r args q   (* ctx.add returns at once; the value is never iterated *)
            | Some ra =>
              match resolve_value is_tuple v with
              | Err x => DCrash x
              | Ok vs => dlet q1 <- ctx_add n vs (Some ra) q; add_args r args q1
              end
            end
        end
      end
  end.

Definition initial_table (p:pspec) (ps:pstatus) : dres scope :=
  match p with
  | PNone => DOk []
  | _ => match ps with PSOk sc => DOk sc | PSBad => DRej EScopeProvider end
  end.

(* (was the body run, what the caller observes) *)
Definition run_call (w:wrapped) (ps:pstatus) (args:list (string*value)) (body:bres) : bool * call_outcome :=
  match initial_table (w_provider w) ps with
  | DRej e => (false, CRejected e) | DCrash x => (false, CCrashed x)
  | DOk sc =>
    match (dlet q <- add_args (w_params w) args []; assert_context (ctx0 sc) q) with
    | DRej e => (false, CRejected e) | DCrash x => (false, CCrashed x)
    | DOk c =>
      match body with
      | BRaise => (true, CBodyRaised)
      | BReturn v =>
        match w_ret w with
        | None => (true, CReturned v)
        | Some (is_tuple, anns) =>
          match resolve_types anns with
          | None => (true, CReturned v)
          | Some ra =>
            match resolve_value is_tuple v with
            | Err x => (true, CCrashed x)
            | Ok vs =>
              match (dlet q <- ctx_add "return" vs (Some ra) []; assert_context c q) with
              | DOk _ => (true, CReturned v)
              | DRej e => (true, CRejected e)
              | DCrash x => (true, CCrashed x)
              end
            end
          end
        end
      end
    end
  end.
