(* Entry.v - the class entry points: dltyped_namedtuple, dltyped_dataclass (dltype/_lib/_core.py) and the
   pydantic after-validator (TensorTypeBase.__get_pydantic_core_schema__). *)
From DL Require Import Base Lexer Parser Eval Shape Dtypes Check Context Hints Call.

(* fields in declaration order with their hints, resolved at decoration *)
Definition decorate_class (enabled:bool) (fields:list (string*hint)) : decorated :=
  if negb enabled then DecIdentity else
  match hints_of fields with
  | Err x => DecError x
  | Ok ps => match ps with
             | [] => DecIdentity
             | _ => DecWrapped {| w_params := ps; w_ret := None; w_provider := PNone |}
             end
  end.

(* validated_new / new_init: every field is added, then one assert_context *)
Fixpoint add_fields (ps:rhints) (vals:list (string*value)) (q:list concrete) : dres (list concrete) :=
  match ps with
  | [] => DOk q
  | (n,(is_tuple,anns)) :: r =>
      match arg_lookup n vals with
      | None => DCrash (KeyErr n)
      | Some v =>
          match resolve_types anns with
          | None => add_fields r vals q
          | Some ra =>
            match resolve_value is_tuple v with
            | Err x => DCrash x
            | Ok vs => dlet q1 <- ctx_add n vs (Some ra) q; add_fields r vals q1
            end
          end
      end
  end.
Definition run_construct (ps:rhints) (vals:list (string*value)) : dres ctx :=
  dlet q <- add_fields ps vals []; assert_context (ctx0 []) q.

(* pydantic: one after-validator call per annotated field, in field order, sharing the context stored
   under "__dltype__" in the validation data.  Optional fields given None never reach the validator
   (pydantic's nullable schema); only array values reach it (is-instance schema). *)
Definition validate_field (c:ctx) (name:string) (a:annot) (x:tensor) : dres ctx :=
  dlet _ <- check a x name;
  dlet q <- ctx_add name [VArr x] (Some [Some a]) [];
  assert_context c q.
Fixpoint run_pydantic_from (c:ctx) (fields:list (string * annot)) (vals:list (string*value)) : dres ctx :=
  match fields with
  | [] => DOk c
  | (n,a) :: r =>
      match arg_lookup n vals with
      | Some (VArr x) => dlet c1 <- validate_field c n a x; run_pydantic_from c1 r vals
      | Some VNone => if a_opt a then run_pydantic_from c r vals else DCrash Unmodelled
      | _ => DCrash Unmodelled      (* pydantic's own ValidationError *)
      end
  end.
Definition run_pydantic (fields:list (string * annot)) (vals:list (string*value)) : dres ctx :=
  run_pydantic_from (ctx0 []) fields vals.
(* validate_assignment=True: the validator of the assigned field runs against the context kept in the
   instance's __dict__ since construction *)
Definition assign_field (c:ctx) (name:string) (a:annot) (x:tensor) : dres ctx := validate_field c name a x.

(* __get_pydantic_core_schema__ at class definition: for a numpy array type that names its scalar types
   (npt.NDArray[np.float32], npt.NDArray[np.int32 | np.int64]; a bare np.ndarray names none; typing.Any and abstract scalar
   types such as np.floating[Any] are scalar types that are in no table: the `KOther` kind) the tensor class
   refuses, with the dtype error, as soon as one of them is not in its DTYPES:
   `self.DTYPES and any(dtype not in self.DTYPES for dtype in dtypes)` *)
Definition class_def_refused (dtypes:list dtok) (scalars:list adtype) : bool :=
  match dtypes with
  | [] => false
  | _ => existsb (fun d => negb (existsb (dtype_eq LNumpy d) dtypes)) scalars
  end.
