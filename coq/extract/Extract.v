(* Extraction of the executable model to OCaml for the correspondence check.
   Directives in force: those of ExtrOcamlBasic (bool, option, unit, list, prod, sumbool, comparison ->
   OCaml natives) and ExtrOcamlString (ascii -> char, string -> char list). No Extract Constant of our own:
   nat, positive and Z stay the extracted inductive types. *)
From DL Require Import Base Lexer Parser Eval Shape Dtypes Check Context Hints Call Entry Symbolic Config.
Require Import ExtrOcamlBasic ExtrOcamlString.
Extraction Blacklist String List Nat Bool Char.
Extraction "dlmodel.ml"
  parse_shape scalar_type expression_from_string evaluate check run_ctx ctx0
  decorate run_call decorate_class run_construct run_pydantic_from validate_field
  class_def_refused sprint pyden print_sshape mk_bin mk_isqrt mk_fun2 read_env effective_enabled returns_original dtype_accepted tokenize postfix_from_infix.
