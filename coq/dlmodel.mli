
val negb : bool -> bool

type nat =
| O
| S of nat

val fst : ('a1 * 'a2) -> 'a1

val snd : ('a1 * 'a2) -> 'a2

val length : 'a1 list -> nat

val app : 'a1 list -> 'a1 list -> 'a1 list

type comparison =
| Eq
| Lt
| Gt

val compOpp : comparison -> comparison

type uint =
| Nil
| D0 of uint
| D1 of uint
| D2 of uint
| D3 of uint
| D4 of uint
| D5 of uint
| D6 of uint
| D7 of uint
| D8 of uint
| D9 of uint

type signed_int =
| Pos of uint
| Neg of uint

val revapp : uint -> uint -> uint

val rev : uint -> uint

module Little :
 sig
  val succ : uint -> uint

  val double : uint -> uint

  val succ_double : uint -> uint
 end

val add : nat -> nat -> nat

val sub : nat -> nat -> nat

type positive =
| XI of positive
| XO of positive
| XH

type n =
| N0
| Npos of positive

type z =
| Z0
| Zpos of positive
| Zneg of positive

val eqb : bool -> bool -> bool

module Nat :
 sig
  val eqb : nat -> nat -> bool

  val leb : nat -> nat -> bool

  val ltb : nat -> nat -> bool

  val to_little_uint : nat -> uint -> uint

  val to_uint : nat -> uint
 end

module Pos :
 sig
  type mask =
  | IsNul
  | IsPos of positive
  | IsNeg
 end

module Coq_Pos :
 sig
  val succ : positive -> positive

  val add : positive -> positive -> positive

  val add_carry : positive -> positive -> positive

  val pred_double : positive -> positive

  type mask = Pos.mask =
  | IsNul
  | IsPos of positive
  | IsNeg

  val succ_double_mask : mask -> mask

  val double_mask : mask -> mask

  val double_pred_mask : positive -> mask

  val sub_mask : positive -> positive -> mask

  val sub_mask_carry : positive -> positive -> mask

  val mul : positive -> positive -> positive

  val iter : ('a1 -> 'a1) -> 'a1 -> positive -> 'a1

  val compare_cont : comparison -> positive -> positive -> comparison

  val compare : positive -> positive -> comparison

  val eqb : positive -> positive -> bool

  val leb : positive -> positive -> bool

  val sqrtrem_step :
    (positive -> positive) -> (positive -> positive) -> (positive * mask) ->
    positive * mask

  val sqrtrem : positive -> positive * mask

  val sqrt : positive -> positive

  val iter_op : ('a1 -> 'a1 -> 'a1) -> positive -> 'a1 -> 'a1

  val to_nat : positive -> nat

  val of_succ_nat : nat -> positive

  val to_little_uint : positive -> uint

  val to_uint : positive -> uint
 end

module N :
 sig
  val add : n -> n -> n

  val mul : n -> n -> n

  val to_nat : n -> nat

  val of_nat : nat -> n
 end

module Z :
 sig
  val double : z -> z

  val succ_double : z -> z

  val pred_double : z -> z

  val pos_sub : positive -> positive -> z

  val add : z -> z -> z

  val opp : z -> z

  val sub : z -> z -> z

  val mul : z -> z -> z

  val pow_pos : z -> positive -> z

  val pow : z -> z -> z

  val compare : z -> z -> comparison

  val leb : z -> z -> bool

  val ltb : z -> z -> bool

  val eqb : z -> z -> bool

  val max : z -> z -> z

  val min : z -> z -> z

  val abs : z -> z

  val of_nat : nat -> z

  val to_int : z -> signed_int

  val pos_div_eucl : positive -> z -> z * z

  val div_eucl : z -> z -> z * z

  val div : z -> z -> z

  val even : z -> bool

  val sqrt : z -> z
 end

val nth_error : 'a1 list -> nat -> 'a1 option

val rev0 : 'a1 list -> 'a1 list

val map : ('a1 -> 'a2) -> 'a1 list -> 'a2 list

val existsb : ('a1 -> bool) -> 'a1 list -> bool

val forallb : ('a1 -> bool) -> 'a1 list -> bool

val firstn : nat -> 'a1 list -> 'a1 list

val skipn : nat -> 'a1 list -> 'a1 list

val zero : char

val one : char

val shift : bool -> char -> char

val ascii_of_pos : positive -> char

val ascii_of_N : n -> char

val ascii_of_nat : nat -> char

val n_of_digits : bool list -> n

val n_of_ascii : char -> n

val nat_of_ascii : char -> nat

val eqb0 : char list -> char list -> bool

val append : char list -> char list -> char list

type op =
| ADD
| SUB
| MUL
| EXP
| DIV
| MIN
| MAX
| ISQRT

type tok =
| TInt of z
| TStr of char list
| TOp of op
| TEq
| TLP
| TRP
| TComma

type ptok =
| PInt of z
| PName of char list
| POp of op

type exn =
| SyntaxErr
| ValueErr
| IndexErr
| KeyErr of char list
| ZeroDivErr
| OverflowErr
| TypeErr
| RecursionErr
| Unmodelled

type 'a res =
| Ok of 'a
| Err of exn

val bind : 'a1 res -> ('a1 -> 'a2 res) -> 'a2 res

val prec : op -> nat

val prec_lparen : nat

val is_unary : op -> bool

val is_binfun : op -> bool

val is_fun : op -> bool

val is_infix : op -> bool

val is_digit : char -> bool

val is_alpha : char -> bool

val is_identchar : char -> bool

val all_chars : (char -> bool) -> char list -> bool

val isnumeric : char list -> bool

val int_of_digits : z -> char list -> z

val valid_ident : char list -> bool

type scope = (char list * z) list

val lookup : char list -> scope -> z option

val mem : char list -> scope -> bool

val sc_bind : char list -> z -> scope -> scope

val char_tok : char -> tok option

val span_tok : char list -> tok

val flush_span : char list -> tok list -> tok list

val lex : char list -> char list -> tok list -> tok list res

val count_valid : tok list -> nat -> nat -> (nat * nat) res

val assert_token_list_valid : tok list -> unit res

val tokenize : char list -> tok list res

val ggi :
  tok list -> nat -> z -> nat option -> nat list -> (nat option * nat
  list) * nat option

val get_group : tok list -> ((nat * nat list) * nat) res

val flush : op list -> ptok list -> nat -> op list * ptok list

val slice : tok list -> nat -> nat -> tok list

val tok_is_infix : tok -> bool

val args :
  (tok list -> op list -> ptok list -> bool -> ptok list res) -> tok list ->
  nat list -> nat -> ptok list -> ptok list res

val pfi_body :
  (tok list -> op list -> ptok list -> bool -> ptok list res) -> tok list ->
  op list -> ptok list -> bool -> ptok list res

val pfi : nat -> tok list -> op list -> ptok list -> bool -> ptok list res

val postfix_from_infix : tok list -> ptok list res

type dimexpr = { d_ident : char list; d_post : ptok list; d_literal : 
                 bool; d_identifier : bool; d_expression : bool;
                 d_mlit : bool; d_anon : bool; d_named : bool }

val ptok_is_int : ptok -> bool

val ptok_is_name : char list -> ptok -> bool

val mk_dimexpr : char list -> ptok list -> bool -> bool -> bool -> dimexpr res

val maybe_multiaxis : char list -> tok list -> dimexpr res option

val split_eq : char list -> char list -> (char list * char list) option

val expression_from_string : char list -> dimexpr res

val eval_pow : z -> z -> z res

val eval_bin : op -> z -> z -> z res

val eval_un : z -> z res

val eval_post : ptok list -> scope -> z list -> z res

val evaluate : dimexpr -> scope -> bool -> z res

val split_ws : char list -> char list -> char list list -> char list list

type ttype = { t_shape : dimexpr list; t_mindex : nat option;
               t_mname : char list option; t_anon : bool;
               t_lits : (nat * z) list }

val parse_dims :
  char list list -> nat -> dimexpr list -> nat option -> char list option ->
  bool -> nat -> ((((dimexpr list * nat option) * char list
  option) * bool) * nat) res

val lits : dimexpr list -> nat -> nat option -> (nat * z) list res

val parse_shape : char list -> ttype res

val scalar_type : ttype

type lib =
| LNumpy
| LTorch
| LJax

type adtype =
| KBool
| KI8
| KI16
| KI32
| KI64
| KU8
| KU16
| KU32
| KU64
| KF16
| KBF16
| KF32
| KF64
| KLongDouble
| KC64
| KC128
| KF8E4M3
| KF8E5M2
| KOther

type dtok =
| NP of adtype
| TO of adtype

val adtype_eqb : adtype -> adtype -> bool

val dtype_eq : lib -> adtype -> dtok -> bool

val dtype_accepted : dtok list -> lib -> adtype -> bool

type tensor = { x_lib : lib; x_dt : adtype; x_shape : z list }

type annot = { a_ty : ttype; a_dtypes : dtok list; a_opt : bool }

type dlerr =
| ENDims of char list * nat * nat
| EDtype of char list
| EShape of char list * nat * z * z
| EInvalidRef of char list * char list * char list list
| EUnsupported
| EDuplicate of char list
| EScopeProvider

type 'a dres =
| DOk of 'a
| DRej of dlerr
| DCrash of exn

val dbind : 'a1 dres -> ('a1 -> 'a2 dres) -> 'a2 dres

val check_rank : ttype -> nat -> char list -> unit dres

val adjust_idx : ttype -> nat -> nat -> nat

val check_lits : ttype -> z list -> (nat * z) list -> char list -> unit dres

val check : annot -> tensor -> char list -> unit dres

module NilEmpty :
 sig
  val string_of_uint : uint -> char list
 end

module NilZero :
 sig
  val string_of_uint : uint -> char list

  val string_of_int : signed_int -> char list
 end

type value =
| VNone
| VArr of tensor
| VTuple of value list
| VOther

val string_of_nat : nat -> char list

val indexed_name : char list -> nat -> char list

type concrete = { c_idx : nat; c_name : char list; c_tensor : tensor;
                  c_annot : annot }

val tensor_arg_name : concrete -> char list

type ctx = { table : scope; regs : char list list;
             glens : (char list * nat) list }

val ctx0 : scope -> ctx

val add_loop :
  char list -> nat -> annot option list -> value list -> concrete list ->
  concrete list dres

val ctx_add :
  char list -> value list -> annot option list option -> concrete list ->
  concrete list dres

val mlit : char list -> z -> bool -> dimexpr

val mname_str : ttype -> char list

val mlits : ttype -> z list -> nat -> nat -> nat -> dimexpr list res

val expected_shape : ttype -> z list -> dimexpr list res

val needs_recheck : dimexpr -> scope -> bool

val expected_values : dimexpr -> scope -> z list res

val first_mismatch : z list -> z -> z option

val step_dim : char list -> scope -> nat -> dimexpr -> z -> scope dres

val assert_dims :
  char list -> scope -> nat -> dimexpr list -> z list -> scope dres

val glookup : char list -> (char list * nat) list -> nat option

val assert_mlen :
  char list -> ttype -> nat -> (char list * nat) list -> (char list * nat)
  list dres

val assert_one : ctx -> concrete -> ctx dres

val assert_context : ctx -> concrete list -> ctx dres

type item = (char list * value list) * annot option list option

val add_items : item list -> concrete list -> concrete list dres

val run_ctx : ctx -> item list -> ctx dres

type base =
| BSupported
| BUnsupported

type hint =
| HPlain
| HAnnOther
| HAnn of base * annot
| HUnion of hint list
| HTuple of hint list

val set_opt : annot -> bool -> annot

val from_hint : hint -> bool -> (bool * annot option list) res

val is_none : 'a1 option -> bool

val resolve_types : annot option list -> annot option list option

val resolve_value : bool -> value -> value list res

type pspec =
| PNone
| PSelf
| PFree

type pstatus =
| PSOk of scope
| PSBad

type fn = { f_params : (char list * hint) list; f_ret : hint option;
            f_provider : pspec; f_is_method : bool }

type rhints = (char list * (bool * annot option list)) list

type wrapped = { w_params : rhints;
                 w_ret : (bool * annot option list) option; w_provider : 
                 pspec }

type decorated =
| DecIdentity
| DecWrapped of wrapped
| DecError of exn

val hints_of : (char list * hint) list -> rhints res

val all_none_hints : wrapped -> bool

val ret_hints : fn -> (bool * annot option list) option res

val decorate : bool -> fn -> decorated

type bres =
| BReturn of value
| BRaise

type call_outcome =
| CReturned of value
| CRejected of dlerr
| CCrashed of exn
| CBodyRaised

val arg_lookup : char list -> (char list * value) list -> value option

val add_args :
  rhints -> (char list * value) list -> concrete list -> concrete list dres

val initial_table : pspec -> pstatus -> scope dres

val run_call :
  wrapped -> pstatus -> (char list * value) list -> bres ->
  bool * call_outcome

val decorate_class : bool -> (char list * hint) list -> decorated

val add_fields :
  rhints -> (char list * value) list -> concrete list -> concrete list dres

val run_construct : rhints -> (char list * value) list -> ctx dres

val validate_field : ctx -> char list -> annot -> tensor -> ctx dres

val run_pydantic_from :
  ctx -> (char list * annot) list -> (char list * value) list -> ctx dres

type sym =
| SLit of z
| SVar of char list
| SBin of op * sym * sym
| SIsqrt of sym
| SFun2 of op * sym * sym
| SGroup of sym

val string_of_Z : z -> char list

val op_str : op -> char list

val cat3 : char list -> char list -> char list -> char list

val fold_bin : op -> z -> z -> z res

val infix_prec : sym -> nat option

val needs_paren : nat -> sym -> bool -> bool

val sprint : sym -> char list res

val pyden : sym -> scope -> z res

val lower_char : char -> char

val lower : char list -> char list

val str_in : char list -> char list list -> bool

val parse_env_bool : char list -> bool option

type import_result =
| ImportOk of bool * bool
| ImportFails

val read_env : char list option -> char list option -> import_result

val effective_enabled : bool -> bool option -> bool

type dkind =
| KFunction
| KNamedTuple
| KDataclass

val returns_original : dkind -> bool -> bool -> bool
