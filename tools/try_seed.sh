#!/bin/bash
# tools/try_seed.sh <seed-name> <out-dir-of-agent> <worktree> <property ids to run...>
# Confirms a seeded change (tests pass, demo fails with / passes without), runs our checks against it, records all of it
# under /verif/seeded/<seed-name>/.  /repo is restored afterwards.
name=$1; out=$2; wt=$3; shift 3
dst=/verif/seeded/$name; mkdir -p $dst
cp $out/patch.diff $out/demo.py $dst/ 2>/dev/null; cp $out/meta.json $dst/agent_meta.json 2>/dev/null
res=$dst/confirm.txt; : > $res
cd /repo && git diff --quiet || { echo "repo dirty"; exit 2; }
# 1. demo on the original tree
PYTHONPATH=/repo timeout 300 /venv/bin/python $dst/demo.py > /dev/null 2>&1; echo "demo_on_original_rc=$?" >> $res
git apply $dst/patch.diff || { echo "patch does not apply" >> $res; cat $res; exit 2; }
# 2. tests and demo with the change
/venv/bin/python -m pytest -q -p no:cacheprovider --no-cov dltype/tests 2>&1 | grep -E "passed|failed" | tail -1 | sed 's/^/tests_with_change: /' >> $res
PYTHONPATH=/repo timeout 300 /venv/bin/python $dst/demo.py > /dev/null 2>&1; echo "demo_with_change_rc=$?" >> $res
# 3. our checks
for p in "$@"; do
  out=$(cd /verif && timeout 1200 bin/vcheck "$p" 2>&1 | grep -E "^VIOLATION" | head -1)
  echo "check $p: ${out:-no violation reported}" >> $res
  rp=$(echo "$out" | sed -n 's/.*replay=\([^ ]*\).*/\1/p')
  [ -n "$rp" ] && [ -f "$rp" ] && python3 -c "
import json,sys
d=json.load(open('$rp')); v=(d['violations'] or d['correspondence_disagreements'] or [{}])[0]
print('   first:', json.dumps(v)[:500])" >> $res
done
git checkout -- . ; git status --short | head -3
cat $res
