#!/usr/bin/env python3
"""Regenerates /verif/MANIFEST.json from the table below (claimed properties = those with a check module)."""
import json
from pathlib import Path

V = Path(__file__).resolve().parent.parent
LEVEL = {
    "C05": ("proof", "Coq theorem C05_parse_eval(+_named): every string of the stratified grammar is accepted by the model of expression_from_string, parsed to the grammar's postfix program and evaluates to the arithmetic value under every identifier-keyed scope (no bound on nesting or length); model tied to /repo by running the extracted model, the implementation (public front door: provider + one-axis annotation + expected= field) and an AST-level reference on the same generated strings and scopes.", "DESIGN.md 7 C05"),
}
TECH = {
    "C05": "Coq proof (induction on the grammar: lexer round trip, count check, shunting-yard invariant, postfix evaluation) + extracted-model/implementation correspondence",
}
NOTE = "Trusted: Coq kernel; extraction (ExtrOcamlBasic/ExtrOcamlString) and ocaml/driver.ml; harness generators and canonicalisation; the hand-written model is tied to /repo only behaviourally (DESIGN.md 5, 9)."


def main() -> None:
    props = [json.loads(l)["id"] for l in (V / "properties.jsonl").read_text().splitlines() if l.strip()]
    checks = []
    na = []
    for pid in props:
        if (V / "harness" / "props" / f"{pid.lower()}.py").exists() and pid in LEVEL:
            cat, text, ref = LEVEL[pid]
            checks.append({
                "property_id": pid,
                "quick_cmd": f"bin/vcheck {pid} --tier quick",
                "thorough_cmd": f"bin/vcheck {pid} --tier thorough",
                "evidence_file": f"/verif/evidence/{pid}.json",
                "replay_cmd_template": "bin/vcheck replay {path}",
                "engine": "coq+correspondence",
                "level_claimed": {"category": cat, "text": text, "design_ref": ref},
                "level_note": NOTE,
                "technique": TECH[pid],
            })
        else:
            na.append({"property_id": pid, "reason": "check not built yet in this round (planned: DESIGN.md 7); not a claim that the technique cannot apply"})
    m = {
        "version": 1,
        "setup_cmd": "bin/vcheck setup",
        "hooks": {"guard": "DLTYPE_VERIF", "enable": "no hooks are needed: every observation point is public API (DESIGN.md 11)", "baseline_off_cmd": "cd /repo && /venv/bin/python -m pytest -ra -q -p no:cacheprovider --timeout=900 --continue-on-collection-errors", "source_commits": [], "add_only": True},
        "engines": [{"name": "coq+correspondence", "path": "/verif/coq, /verif/ocaml, /verif/harness", "serves_properties": [c["property_id"] for c in checks], "kind_free_text": "Coq 8.16 model + theorems; model extracted to OCaml and run against the implementation on generated inputs"}],
        "checks": checks,
        "not_applicable": na,
        "notes": "See DESIGN.md. Genuine defects found are repaired by fix: commits in /repo or listed in known_findings.json.",
    }
    (V / "MANIFEST.json").write_text(json.dumps(m, indent=1) + "\n")
    print(f"{len(checks)} checks, {len(na)} not claimed")


if __name__ == "__main__":
    main()
