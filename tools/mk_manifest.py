#!/usr/bin/env python3
"""Regenerates /verif/MANIFEST.json from the table below (claimed properties = those with a check module)."""
import json
from pathlib import Path

V = Path(__file__).resolve().parent.parent
CORR = " Model tied to /repo on every run by executing the extracted OCaml model and the implementation (public API, synthesised programs) on the same generated inputs and comparing canonical outcomes; an independent specification-level reference decides violations."
LEVEL = {
    "C01": ("proof", "Theorems C01_no_false_accept / C01_call_no_false_accept / C01_name_single_valued / C01_expression_axis_value (CtxSound, CtxLift: the final binding table is one assignment that every axis of every accepted tensor - arguments and return value, any number of them - agrees with; invariants extends + monotone evaluation). Correspondence: boundary corpus, conforming / one-fault / multi-fault contexts, exhaustive small scope (thorough); reference = independent consistency pass." + CORR, "DESIGN.md 7 C01"),
    "C02": ("proof", "Theorems C02_no_false_reject / C02_transparent (CtxComplete, CallComplete: a queue that one assignment satisfies, with names inside expressions bound earlier or by the provider, is accepted - no exception at all - and the wrapper returns the body's value). Correspondence: conforming contexts in every call style; call count, identity of result and arguments observed." + CORR, "DESIGN.md 7 C02"),
    "C03": ("proof", "Theorems C03_check_iff / C03_error_factual / C03_no_other_exception for every annotation the model can construct and every shape (front/back alignment stated with rev, independent of the index arithmetic) + exhaustive small-scope correspondence through TensorTypeBase.check." + CORR, "DESIGN.md 7 C03"),
    "C04": ("proof", "Finite theorem C04_tables (+ supersets, Int = Signed u Unsigned, same table on shared dtypes) re-proved on every run against DTYPES tuples reflected from the running code into coq/gen/GenDtypes.v; the model of `dtype in DTYPES` validated exhaustively against real check() for every class x library x dtype kind.", "DESIGN.md 7 C04"),
    "C05": ("proof", "Theorems C05_parse_eval / C05_parse_eval_named / C05_shape_level (whole shape strings: dimensions joined by spaces, one optional multi-axis marker) / C05_source_tables (operator semantics, precedence order, operator classes and strings, identifier pattern as translated from the source text on this run): every string of the stratified grammar is accepted, parsed to the grammar's postfix program and evaluates to the arithmetic value under every identifier-keyed scope (lexer round trip, count check, shunting-yard invariant, postfix evaluation; no bound on nesting or length)." + CORR, "DESIGN.md 7 C05"),
    "C06": ("proof", "Theorems C06_source_tables (parser tables as translated from the source text on this run) / C06_accept_sound / C06_only_syntax_error / C06_no_late_error for every string (AcceptSound, ShapeSound: an accepted string consists of documented dimension forms with the grammar's postfix program, a rejection is SyntaxError, later evaluation fails only for unbound names or undefined arithmetic). Correspondence: corpus, exhaustive alphabet strings, mutations, identifier positions, noise; reference = independent recogniser." + CORR, "DESIGN.md 7 C06"),
    "C07": ("proof", "Theorems C07_args_first / C07_return_checked / C07_value_only_after_both on the phase structure of run_call + correspondence with a side-effect log in the wrapped body: one fault in a single argument position or only in the return value (a changed provider value counts), 40% of the cases after an earlier conforming call of the same decorated function." + CORR, "DESIGN.md 7 C07"),
    "C08": ("proof", "Theorems C08_first_failing_tensor / C08_tensor_report / C08_axis_report / C08_only_dltype_or_arithmetic (Reports, NoCrash: what a rejection asserts is true of the named tensor under the bindings established before it; the only non-DLType exceptions are the arithmetic ones = known finding K1). Correspondence: single-fault reports field by field, multi-fault factuality." + CORR, "DESIGN.md 7 C08"),
    "C09": ("proof", "Theorems C09_history_isolated / C09_calls_commute / C09_decoration_order / C09_lazy_resolution_is_eager (hints resolved at the first call and kept per function: Lazy.v) / C09_nested_calls_isolated (bodies that make checked calls, recursion: Nested.v) over World.v (alias-shared annotation objects, provider-owned mappings) for the repaired semantics, machine-checked refutations for the legacy one. Correspondence: families sharing aliases and long-lived provider dicts, random decoration order, 8-thread runs, nested calls; thread interleavings are tested, not proved." + CORR, "DESIGN.md 7 C09"),
    "C10": ("proof", "Theorems C10_none_skipped / C10_non_optional_none / C10_present_value_as_under_T / C10_general_union / C10_union_refused_at_decoration / C10_optional_tuple_is_the_tuple + correspondence on contexts rich in optional hints (five spellings, Optional[tuple[...]] with a present value) and None patterns." + CORR, "DESIGN.md 7 C10"),
    "C11": ("proof", "Theorems C11_elementwise / C11_one_element_tuple / C11_plain_positions_ignored / C11_element_names + correspondence on tuple hints of length 1-3 with plain positions (holding opaque, iterable and tuple-valued objects), as parameter and return; reported element names compared." + CORR, "DESIGN.md 7 C11"),
    "C12": ("proof", "Theorems C12_prebind / C12_provided_sizes_belong_to_the_assignment / C12_bad_provider / C12_self_needs_method / C12_consulted_every_call + histories with changing provider values (fresh / long-lived dict, rebinding / in place), self providers, objects without the protocol." + CORR, "DESIGN.md 7 C12"),
    "C13": ("proof", "Theorems C13_identity / C13_explicit_wins / C13_environment for every environment string, enabled argument and decorator kind + every combination of DLTYPE_DISABLE x DLTYPE_DEBUG_MODE x logging level in fresh interpreters on a fixed corpus; pydantic-settings' bool table is trusted and probed.", "DESIGN.md 7 C13"),
    "C14": ("proof", "Theorems C14_class_forms_queue_like_functions / C14_pydantic_is_one_context / C14_field_validation_is_assert_one / C14_keyword_order_irrelevant_{function,class_forms,pydantic} + the same field list rendered as function, dataclass, NamedTuple and pydantic model with shuffled keyword order." + CORR, "DESIGN.md 7 C14"),
    "C15": ("proof", "Finite theorem C15_shared_dtypes_library_independent over the regenerated tables + structural theorems C15_relabelling_changes_nothing / C15_queue_level (Relabel.v: a checked call reads arrays only through shape and the class tables' answers). Correspondence: every context under three library assignments and once with arrays produced another way (layouts, strides, flags, subclasses, torch Parameter / meta, jax tracers) + exhaustive class x shared dtype x library sweep." + CORR, "DESIGN.md 7 C15"),
    "C16": ("proof", "PARTIAL. Proved: C16_exception_passthrough, C16_value_passthrough. Name/doc/signature, argument forwarding for 9 signature shapes, exception identity for every built-in exception class, method kinds, NamedTuple / 7 dataclass option sets (fields, equality, repr, isinstance, immutability, pickling) are CPython object-model behaviour without decision logic: compared against undecorated twins (a test, labelled as such).", "DESIGN.md 7 C16"),
    "C17": ("proof", "PARTIAL. Theorems C17_field_order / C17_fresh_context_per_validation / C17_optional_none_skipped / C17_class_definition / C17_assignment_refuted (= known finding K2) + histories of constructions / model_validate / assignments, nested models, validation context= dicts, 456 class definitions against the model of the class-definition dtype cross-check; model_dump / iteration / repr compared by the harness only." + CORR, "DESIGN.md 7 C17"),
    "C18": ("proof", "Theorems C18_symbolic, C18_shape, C18_constant_axes_refused (operand dispatch: TypeError exactly for ConstantAxis / AnonymousAxis operands), C18_source_tables (whole Shape[...] incl. ConstantAxis / AnonymousAxis: accepted by parse_shape, every dimension means what its axis means): for every tree Python's operators can build (constants of either sign; a negative one prints as (0-n)) the printed string is accepted and evaluates to the tree's own arithmetic value (SymbolicProof.embed_correct + decimal round trip + C05). Correspondence: trees built by Python's evaluation of generated source; demanded size vs plain integer evaluation." + CORR, "DESIGN.md 7 C18"),
    "C19": ("proof", "PARTIAL. Theorems C19_wrapper_transparent and C19_capture_equal (under the Section hypothesis capture_extensional about torch, named in the trusted base). torch.jit.trace / script / compile are runtime behaviour the model cannot exhibit: tested on 9 modules (three kinds of scope provider among them) against undecorated twins (quick: eager, trace, script; thorough adds torch.compile); a scripted module that is its own provider without exporting get_dltype_scope is the listed known finding K3.", "DESIGN.md 7 C19"),
    "C20": ("proof", "Finite theorem C20_config over coq/gen/GenConfig.v, regenerated on every run from fresh interpreters with a masking import hook (8 masks), against the hand model of the if/elif chains; plus one accepted / one rejected checked call per available library.", "DESIGN.md 7 C20"),
}
TECH = {p: "Coq 8.16 proof about a hand-written executable model + extracted-model/implementation correspondence (differential execution)" for p in LEVEL}
TECH["C05"] = TECH["C06"] = TECH["C18"] = "Coq 8.16 proof about a hand-written executable model + source-to-Coq translation of the operator tables and formulas (GenSrc.v, SourceTie.v) re-proved on every run + extracted-model/implementation correspondence (differential execution)"
TECH["C13"] = "Coq 8.16 theorems over the configuration model + exhaustive fresh-interpreter correspondence"
TECH["C15"] = "Coq 8.16 proof about a hand-written executable model (structural relabelling theorem) + finite theorem (vm_compute) over tables regenerated from the running code + extracted-model/implementation correspondence"
TECH["C04"] = TECH["C20"] = "Coq 8.16 finite theorem (vm_compute) over tables regenerated from the running code + exhaustive correspondence"
NOTE_SRC = "Trusted: Coq kernel; extraction (ExtrOcamlBasic/ExtrOcamlString) and ocaml/driver.ml; harness generators and canonicalisation; the source translator harness/srctie.py (fail-soft); apart from the translated tables and formulas the hand-written model is tied to /repo behaviourally (DESIGN.md 5, 9)."
NOTE = "Trusted: Coq kernel; extraction (ExtrOcamlBasic/ExtrOcamlString) and ocaml/driver.ml; harness generators and canonicalisation; the hand-written model is tied to /repo only behaviourally (DESIGN.md 5, 9)."


def main() -> None:
    props = [json.loads(l)["id"] for l in (V / "properties.jsonl").read_text().splitlines() if l.strip()]
    checks = []
    na = []
    for pid in props:
        if (V / "harness" / "props" / f"{pid.lower()}.py").exists() and pid in LEVEL:
            cat, text, ref = LEVEL[pid]
            checks.append({
                "property_id": pid,
                "quick_cmd": f"bin/vcheck {pid} --tier quick",
                "thorough_cmd": f"bin/vcheck {pid} --tier thorough",
                "evidence_file": f"/verif/evidence/{pid}.json",
                "replay_cmd_template": "bin/vcheck replay {path}",
                "engine": "coq+correspondence",
                "level_claimed": {"category": cat, "text": text, "design_ref": ref},
                "level_note": NOTE_SRC if pid in ("C05", "C06", "C18") else NOTE,
                "technique": TECH[pid],
            })
        else:
            na.append({"property_id": pid, "reason": "check not built yet in this round (planned: DESIGN.md 7); not a claim that the technique cannot apply"})
    m = {
        "version": 1,
        "setup_cmd": "bin/vcheck setup",
        "hooks": {"guard": "DLTYPE_VERIF", "enable": "no hooks are needed: every observation point is public API (DESIGN.md 11)", "baseline_off_cmd": "cd /repo && /venv/bin/python -m pytest -ra -q -p no:cacheprovider --timeout=900 --continue-on-collection-errors", "source_commits": [], "add_only": True},
        "engines": [{"name": "coq+correspondence", "path": "/verif/coq, /verif/ocaml, /verif/harness", "serves_properties": [c["property_id"] for c in checks], "kind_free_text": "Coq 8.16 model + theorems; model extracted to OCaml and run against the implementation on generated inputs"}],
        "checks": checks,
        "not_applicable": na,
        "notes": "See DESIGN.md. 15 genuine defects were repaired by fix: commits in /repo (known_findings.json lists them as fixed); K1, K2 and K3 are listed known findings. C16, C17, C19 are partial (DESIGN.md 7, 10).",
    }
    (V / "MANIFEST.json").write_text(json.dumps(m, indent=1) + "\n")
    print(f"{len(checks)} checks, {len(na)} not claimed")


if __name__ == "__main__":
    main()
