#!/usr/bin/env python3
"""Regenerates /verif/MANIFEST.json from the table below (claimed properties = those with a check module)."""
import json
from pathlib import Path

V = Path(__file__).resolve().parent.parent
CORR = " Model tied to /repo on every run by executing the extracted OCaml model and the implementation (public API, synthesised programs) on the same generated inputs and comparing canonical outcomes; an independent specification-level reference decides violations."
LEVEL = {
    "C01": ("proof", "Coq development on the model of DLTypeContext (binding-table soundness, props/C01.v) + correspondence on generated contexts (conforming / one fault / several / boundary corpus, exhaustive small scope in the thorough tier); an accepted context without a consistent assignment is the replay." + CORR, "DESIGN.md 7 C01"),
    "C02": ("proof", "Coq development (props/C02.v) + correspondence on conforming contexts in every call style; observes call count, identity of the returned object and of the received arguments." + CORR, "DESIGN.md 7 C02"),
    "C03": ("proof", "Coq theorems C03_check_iff / C03_error_factual / C03_no_other_exception for every annotation the model can construct and every shape (front/back alignment stated with rev, independent of the index arithmetic) + exhaustive small-scope correspondence through TensorTypeBase.check." + CORR, "DESIGN.md 7 C03"),
    "C04": ("proof", "Finite theorem C04_tables (+ supersets, Int = Signed u Unsigned, same table on shared dtypes) re-proved on every run against DTYPES tuples reflected from the running code into coq/gen/GenDtypes.v; the model of `dtype in DTYPES` validated exhaustively against real check() for every class x library x dtype kind.", "DESIGN.md 7 C04"),
    "C05": ("proof", "Coq theorem C05_parse_eval(+_named): every string of the stratified grammar is accepted by the model of expression_from_string, parsed to the grammar's postfix program and evaluates to the arithmetic value under every identifier-keyed scope (no bound on nesting or length)." + CORR, "DESIGN.md 7 C05"),
    "C06": ("proof", "Coq development on the model parser (props/C06.v) + correspondence over a corpus of formerly accepted malformed strings, all strings over a 19-token alphabet up to a length bound, token mutations of valid strings and printable noise, against an independent recursive-descent recogniser of the documented grammar." + CORR, "DESIGN.md 7 C06"),
    "C07": ("proof", "Model of the wrapper's phases (props/C07.v) + correspondence with a side-effect log in the wrapped body: one fault in a single argument position or only in the return value." + CORR, "DESIGN.md 7 C07"),
    "C08": ("proof", "Model reports are structured values (props/C08.v); single-fault inputs compared field by field, multi-fault inputs for DLTypeError-ness and direct factuality; arithmetic exceptions from undefined expressions are the listed known finding K1." + CORR, "DESIGN.md 7 C08"),
    "C10": ("proof", "Model of from_hint / DLTypeContext.add (props/C10.v) + correspondence on contexts rich in optional hints and None patterns; unions with non-None alternatives must be refused with TypeError at decoration." + CORR, "DESIGN.md 7 C10"),
    "C11": ("proof", "Model of tuple flattening (props/C11.v) + correspondence on tuple hints of length 1-3 with plain positions, as parameter and return; reported element names compared." + CORR, "DESIGN.md 7 C11"),
    "C14": ("proof", "Model of the four entry points (props/C14.v) + the same field list rendered as function, dataclass, NamedTuple and pydantic model with shuffled keyword order; the four outcomes must agree with each other and with the model." + CORR, "DESIGN.md 7 C14"),
    "C15": ("proof", "Finite theorem over the regenerated tables (shared dtypes: library-independent) + every context executed under three library assignments (numpy / torch / mixed incl. jax)." + CORR, "DESIGN.md 7 C15"),
    "C09": ("proof", "World model with the two channels the code used to have (annotation flag shared through aliases, provider mapping adopted as binding table): isolation proved for the repaired semantics, refuted for the legacy one (props/C09.v) + histories over families of functions sharing aliases and long-lived provider dicts, random decoration order, 8-thread runs and nested checked calls; thread interleavings are tested, not proved (GIL scheduling cannot be exhibited by the model)." + CORR, "DESIGN.md 7 C09"),
    "C12": ("proof", "Model of the provider protocol (props/C12.v: the provider value becomes the initial binding table of exactly this call) + histories with changing provider values (fresh / long-lived dict, rebinding / in-place), self providers on methods, objects without the protocol, self on plain functions." + CORR, "DESIGN.md 7 C12"),
    "C13": ("proof", "Theorems over Config.v for every environment string, enabled argument and decorator kind (C13_identity, C13_explicit_wins, C13_environment) + every combination of DLTYPE_DISABLE x DLTYPE_DEBUG_MODE x logging level in fresh interpreters x enabled argument x decorator kind on a fixed corpus; pydantic-settings' bool table is trusted and probed by the same runs.", "DESIGN.md 7 C13"),
    "C16": ("proof", "PARTIAL. Proved on the model: the body's value / exception reaches the caller unchanged once arguments are accepted. Name/doc/signature, argument forwarding for every parameter kind, exception identity, method kinds, and NamedTuple / dataclass fields, equality, repr, isinstance, immutability and pickling are CPython object-model behaviour without decision logic: compared against undecorated twins by the harness (a test, labelled as such in the evidence).", "DESIGN.md 7 C16"),
    "C17": ("proof", "PARTIAL. Model of the pydantic after-validator (per-validation context in field order, props/C17.v) + histories of constructions / model_validate / assignments, nested models, class-definition dtype cross-check for npt.NDArray; model_dump / iteration / repr are compared by the harness only; validate_assignment is the listed known finding K2." + CORR, "DESIGN.md 7 C17"),
    "C18": ("proof", "Model of the symbolic printer (Symbolic.v) tied to the grammar (props/C18.v) + random operator trees built by Python's own evaluation of generated source: printed string vs model, demanded axis size vs plain integer evaluation of the same Python expression; negative constants are the listed known finding K4." + CORR, "DESIGN.md 7 C18"),
    "C19": ("proof", "PARTIAL. Proved: the wrapper is extensionally the body on conforming inputs, hence (Section hypothesis about the capture mechanism, named in the trusted base) captured decorated = captured original. What torch.jit.trace / torch.jit.script / torch.compile really do is runtime behaviour the model cannot exhibit: tested on a module family against undecorated twins (quick: eager, trace, script; thorough adds torch.compile).", "DESIGN.md 7 C19"),
    "C20": ("proof", "Finite theorem C20_config over coq/gen/GenConfig.v, regenerated on every run from fresh interpreters with a masking import hook (8 masks), against the hand model of the if/elif chains; plus one accepted / one rejected checked call per available library in each interpreter.", "DESIGN.md 7 C20"),
}
TECH = {p: "Coq 8.16 proof about a hand-written executable model + extracted-model/implementation correspondence (differential execution)" for p in LEVEL}
TECH["C13"] = "Coq 8.16 theorems over the configuration model + exhaustive fresh-interpreter correspondence"
TECH["C04"] = TECH["C15"] = TECH["C20"] = "Coq 8.16 finite theorem (vm_compute) over tables regenerated from the running code + exhaustive correspondence"
NOTE = "Trusted: Coq kernel; extraction (ExtrOcamlBasic/ExtrOcamlString) and ocaml/driver.ml; harness generators and canonicalisation; the hand-written model is tied to /repo only behaviourally (DESIGN.md 5, 9)."


def main() -> None:
    props = [json.loads(l)["id"] for l in (V / "properties.jsonl").read_text().splitlines() if l.strip()]
    checks = []
    na = []
    for pid in props:
        if (V / "harness" / "props" / f"{pid.lower()}.py").exists() and pid in LEVEL:
            cat, text, ref = LEVEL[pid]
            checks.append({
                "property_id": pid,
                "quick_cmd": f"bin/vcheck {pid} --tier quick",
                "thorough_cmd": f"bin/vcheck {pid} --tier thorough",
                "evidence_file": f"/verif/evidence/{pid}.json",
                "replay_cmd_template": "bin/vcheck replay {path}",
                "engine": "coq+correspondence",
                "level_claimed": {"category": cat, "text": text, "design_ref": ref},
                "level_note": NOTE,
                "technique": TECH[pid],
            })
        else:
            na.append({"property_id": pid, "reason": "check not built yet in this round (planned: DESIGN.md 7); not a claim that the technique cannot apply"})
    m = {
        "version": 1,
        "setup_cmd": "bin/vcheck setup",
        "hooks": {"guard": "DLTYPE_VERIF", "enable": "no hooks are needed: every observation point is public API (DESIGN.md 11)", "baseline_off_cmd": "cd /repo && /venv/bin/python -m pytest -ra -q -p no:cacheprovider --timeout=900 --continue-on-collection-errors", "source_commits": [], "add_only": True},
        "engines": [{"name": "coq+correspondence", "path": "/verif/coq, /verif/ocaml, /verif/harness", "serves_properties": [c["property_id"] for c in checks], "kind_free_text": "Coq 8.16 model + theorems; model extracted to OCaml and run against the implementation on generated inputs"}],
        "checks": checks,
        "not_applicable": na,
        "notes": "See DESIGN.md. Genuine defects found are repaired by fix: commits in /repo or listed in known_findings.json.",
    }
    (V / "MANIFEST.json").write_text(json.dumps(m, indent=1) + "\n")
    print(f"{len(checks)} checks, {len(na)} not claimed")


if __name__ == "__main__":
    main()
