#!/usr/bin/env python3
"""tools/mk_baseline.py: record the content hashes of /repo/dltype/**/*.py (tests excluded) in source_baseline.json.
Run after a full clean pass on a tree whose state is committed (the repaired tree).  harness.common.depth() samples the
quick tier four times as deep when the working tree differs from this baseline."""
import hashlib, json, pathlib, subprocess
repo = pathlib.Path("/repo")
out = {}
for f in sorted((repo / "dltype").rglob("*.py")):
    rel = str(f.relative_to(repo))
    if "/tests/" in rel:
        continue
    out[rel] = hashlib.sha256(f.read_bytes()).hexdigest()
head = subprocess.run(["git", "-C", str(repo), "rev-parse", "HEAD"], capture_output=True, text=True).stdout.strip()
pathlib.Path("/verif/source_baseline.json").write_text(json.dumps(out, indent=1, sort_keys=True) + "\n")
print(len(out), "files at", head)
