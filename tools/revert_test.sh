#!/bin/bash
# tools/revert_test.sh <commit-ish in /repo> <property ids...> : reverse-apply a fix: commit to the working tree,
# run the given checks, restore the tree.  Used to confirm that a repaired defect is reported again if it returns.
c=$1; shift
cd /repo || exit 2
git diff --quiet || { echo "repo dirty"; exit 2; }
git show "$c" | git apply -R || { echo "cannot reverse-apply $c"; exit 2; }
echo "== reverted $(git log --format=%s -1 $c)"
for p in "$@"; do
  (cd /verif && timeout 900 bin/vcheck "$p" 2>&1 | grep -E "^(VIOLATION|KNOWN)" | cut -c1-160; echo "   -> $p rc=${PIPESTATUS[0]}")
done
git checkout -- .
