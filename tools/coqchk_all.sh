#!/bin/bash
# tools/coqchk_all.sh: re-check every compiled property file (and all it depends on) with Coq's independent checker and
# print the axioms the whole context relies on.  Needs a finished build (bin/vcheck setup).  Takes a few minutes.
cd /verif/coq || exit 2
mods=$(ls props/C*.v | sed 's|props/\(.*\)\.v|DL.props.\1|')
timeout 3600 coqchk -silent -o -Q . DL $mods 2>&1 | sed -n '/CONTEXT SUMMARY/,$p'
