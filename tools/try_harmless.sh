#!/bin/bash
# tools/try_harmless.sh <name> <out-dir-of-agent>
# A behaviour-preserving change written by a sub-agent: apply it to /repo, run the repository's tests and EVERY quick check,
# record what was reported under /verif/harmless/<name>/, restore /repo.  No alarm is wanted.
name=$1; out=$2
dst=/verif/harmless/$name; mkdir -p $dst
cp $out/patch.diff $dst/; cp $out/meta.json $dst/agent_meta.json 2>/dev/null
res=$dst/result.txt; : > $res
cd /repo && git diff --quiet || { echo "repo dirty"; exit 2; }
git apply $dst/patch.diff || { echo "patch does not apply" >> $res; cat $res; exit 2; }
/venv/bin/python -m pytest -q -p no:cacheprovider --no-cov dltype/tests 2>&1 | grep -E "passed|failed" | tail -1 | sed 's/^/tests_with_change: /' >> $res
for n in 01 02 03 04 05 06 07 08 09 10 11 12 13 14 15 16 17 18 19 20; do
  o=$(cd /verif && timeout 1500 bin/vcheck C$n 2>&1); rc=$?
  v=$(echo "$o" | grep -E "^VIOLATION" | head -1)
  echo "check C$n: rc=$rc ${v:-no violation reported}" >> $res
  rp=$(echo "$v" | sed -n 's/.*replay=\([^ ]*\).*/\1/p')
  [ -n "$rp" ] && [ -f "$rp" ] && python3 -c "
import json
d=json.load(open('$rp')); v=(d['violations'] or d['correspondence_disagreements'] or [{}])[0]
print('   first:', json.dumps(v)[:600])" >> $res
done
cd /repo && git checkout -- . ; git status --short | head -3
grep -c 'no violation reported' $res
