#!/usr/bin/env python3
"""tools/recheck_seeds.py [-j N] [--only REGEX]: re-run, for every seeded change under seeded/, the checks that are recorded as catching it
(confirm.txt) against a scratch copy of /repo with the patch applied (scratch copy of /verif, DLTYPE_REPO).  Prints one line per
seed; exit 1 if a seed is no longer caught by any of its checks."""
import json, os, re, shutil, subprocess, sys
from concurrent.futures import ThreadPoolExecutor
from pathlib import Path
from queue import Queue

SEEDED = Path("/verif/seeded")
jobs = int(sys.argv[sys.argv.index("-j") + 1]) if "-j" in sys.argv else 5


def checks_of(d: Path) -> list[str]:
    ids = []
    for l in (d / "confirm.txt").read_text().splitlines():
        m = re.search(r"check (C\d\d): VIOLATION", l)
        if m and m.group(1) not in ids:
            ids.append(m.group(1))
    return ids


def prepare(i: int) -> Path:
    root = Path(f"/tmp/rs{i}")
    shutil.rmtree(root, ignore_errors=True)
    root.mkdir(parents=True)
    subprocess.run(["rsync", "-a", "--exclude", ".git", "--exclude", "replays", "/verif/", str(root / "verif")], check=True)
    return root


def run(d: Path, root: Path) -> dict:
    repo = root / "repo"
    shutil.rmtree(repo, ignore_errors=True)
    subprocess.run(["rsync", "-a", "--exclude", ".git", "/repo/", str(repo)], check=True)
    r = subprocess.run(["patch", "-p1", "-s", "-i", str(d / "patch.diff")], cwd=repo, capture_output=True, text=True)
    if r.returncode != 0:
        return {"seed": d.name, "status": "patch does not apply", "detail": r.stdout[-200:]}
    caught, tried = [], []
    for pid in checks_of(d):
        tried.append(pid)
        p = subprocess.run([str(root / "verif" / "bin" / "vcheck"), pid], cwd=root / "verif", env=dict(os.environ, DLTYPE_REPO=str(repo)), capture_output=True, text=True, timeout=2400)
        line = next((l for l in p.stdout.splitlines() if l.startswith("VIOLATION")), None)
        if line:
            caught.append(pid + (" (no-failing-input-found)" if line.endswith("no-failing-input-found") else ""))
            if not line.endswith("no-failing-input-found"):
                break
    return {"seed": d.name, "status": "caught" if caught else "NOT CAUGHT", "by": caught, "tried": tried}


def main() -> int:
    seeds = sorted(d for d in SEEDED.iterdir() if (d / "patch.diff").exists() and (d / "confirm.txt").exists())
    if "--only" in sys.argv:   # --only <regex over the seed directory name>
        rx = re.compile(sys.argv[sys.argv.index("--only") + 1])
        seeds = [d for d in seeds if rx.search(d.name)]
    q: Queue = Queue()
    for i in range(jobs):
        q.put(prepare(i))

    def work(d):
        root = q.get()
        try:
            return run(d, root)
        except Exception as e:  # noqa: BLE001
            return {"seed": d.name, "status": "error", "detail": repr(e)}
        finally:
            q.put(root)

    with ThreadPoolExecutor(max_workers=jobs) as ex:
        res = list(ex.map(work, seeds))
    for i in range(jobs):
        shutil.rmtree(f"/tmp/rs{i}", ignore_errors=True)
    bad = 0
    for r in res:
        print(f"{r['seed']:36s} {r['status']:12s} {r.get('by') or r.get('detail') or ''}")
        bad += r["status"] != "caught"
    print(len(res), "seeds,", bad, "not caught")
    return 1 if bad else 0


if __name__ == "__main__":
    sys.exit(main())
