#!/usr/bin/env python3
"""tools/mutants.py - a mutation campaign against the checks (self-assessment, not part of any registered command).

Generates first-order mutants of /repo/dltype/_lib/*.py with the classical operators (comparison, arithmetic, boolean,
constant, continue/break, negated conditions, dropped `not`), keeps those the repository's own test suite does not
notice, and runs the checks anchored on the mutated file against each survivor.  Everything happens in scratch copies
(/tmp/mw<i>/repo, /tmp/mw<i>/verif); /repo and /verif are only read.

    tools/mutants.py gen  OUT.json [--files a.py b.py]     list mutants
    tools/mutants.py run  OUT.json RESULTS.jsonl [-j 6]    run them (resumable)
    tools/mutants.py report RESULTS.jsonl
"""

from __future__ import annotations

import argparse
import ast
import json
import os
import shutil
import subprocess
import sys
from concurrent.futures import ThreadPoolExecutor
from pathlib import Path
from queue import Queue

REPO = Path("/repo")
VERIF = Path("/verif")
FILES = ["_parser.py", "_dltype_context.py", "_core.py", "_tensor_type_base.py", "_symbolic_expressions.py", "_dtypes.py", "_errors.py",
         "_constants.py", "_dependency_utilities.py"]
PROPS = {
    "_parser.py": ["C05", "C06", "C01", "C18"],
    "_dltype_context.py": ["C01", "C02", "C08", "C11", "C10", "C07", "C09"],
    "_core.py": ["C02", "C07", "C09", "C10", "C11", "C12", "C13", "C14", "C16", "C01"],
    "_tensor_type_base.py": ["C03", "C17", "C06", "C04", "C01", "C14"],
    "_symbolic_expressions.py": ["C18"],
    "_dtypes.py": ["C04", "C15", "C20", "C02"],
    "_errors.py": ["C08", "C03", "C01"],
    "_constants.py": ["C13"],
    "_dependency_utilities.py": ["C20", "C04"],
}
CMP = {ast.Lt: "<=", ast.LtE: "<", ast.Gt: ">=", ast.GtE: ">", ast.Eq: "!=", ast.NotEq: "==", ast.Is: "is not", ast.IsNot: "is", ast.In: "not in", ast.NotIn: "in"}
CMP_SRC = {ast.Lt: "<", ast.LtE: "<=", ast.Gt: ">", ast.GtE: ">=", ast.Eq: "==", ast.NotEq: "!=", ast.Is: "is", ast.IsNot: "is not", ast.In: "in", ast.NotIn: "not in"}


def seg(src_lines, node):
    return ast.get_source_segment("\n".join(src_lines), node)


def replace_span(lines: list[str], l0: int, c0: int, l1: int, c1: int, new: str) -> str:
    out = list(lines)
    if l0 == l1:
        out[l0] = out[l0][:c0] + new + out[l0][c1:]
    else:
        out[l0] = out[l0][:c0] + new + out[l1][c1:]
        del out[l0 + 1 : l1 + 1]
    return "\n".join(out) + "\n"


def in_debug_call(node, parents) -> bool:
    p = parents.get(node)
    while p is not None:
        if isinstance(p, ast.Call) and isinstance(p.func, ast.Attribute) and isinstance(p.func.value, ast.Name) and p.func.value.id == "_logger":
            return True
        p = parents.get(p)
    return False


def gen_file(path: Path) -> list[dict]:
    src = path.read_text()
    lines = src.split("\n")
    if lines and lines[-1] == "":
        lines = lines[:-1]
    tree = ast.parse(src)
    parents = {}
    for n in ast.walk(tree):
        for c in ast.iter_child_nodes(n):
            parents[c] = n
    muts = []

    def add(kind, node, l0, c0, l1, c1, new, old):
        muts.append({"file": path.name, "kind": kind, "line": l0 + 1, "old": old, "new": new,
                     "text": replace_span(lines, l0, c0, l1, c1, new)})

    for n in ast.walk(tree):
        if in_debug_call(n, parents):
            continue
        if isinstance(n, ast.Compare) and len(n.ops) == 1:
            op = type(n.ops[0])
            if op in CMP:
                left_end = (n.left.end_lineno - 1, n.left.end_col_offset)
                right_start = (n.comparators[0].lineno - 1, n.comparators[0].col_offset)
                if left_end[0] == right_start[0]:
                    old = lines[left_end[0]][left_end[1] : right_start[1]]
                    if CMP_SRC[op] in old:
                        add("cmp", n, left_end[0], left_end[1], right_start[0], right_start[1], old.replace(CMP_SRC[op], CMP[op], 1), old.strip())
        elif isinstance(n, ast.BinOp) and isinstance(n.op, (ast.Add, ast.Sub, ast.Mult, ast.FloorDiv)):
            le = (n.left.end_lineno - 1, n.left.end_col_offset)
            rs = (n.right.lineno - 1, n.right.col_offset)
            if le[0] == rs[0]:
                old = lines[le[0]][le[1] : rs[1]]
                sym = {ast.Add: "+", ast.Sub: "-", ast.Mult: "*", ast.FloorDiv: "//"}[type(n.op)]
                new = {ast.Add: "-", ast.Sub: "+", ast.Mult: "+", ast.FloorDiv: "*"}[type(n.op)]
                if sym in old and not isinstance(n.left, ast.Constant) or (isinstance(n.left, ast.Constant) and not isinstance(n.left.value, str)):
                    if sym in old:
                        add("arith", n, le[0], le[1], rs[0], rs[1], old.replace(sym, new, 1), old.strip())
        elif isinstance(n, ast.BoolOp):
            for a, b in zip(n.values, n.values[1:]):
                le = (a.end_lineno - 1, a.end_col_offset)
                rs = (b.lineno - 1, b.col_offset)
                if le[0] == rs[0]:
                    old = lines[le[0]][le[1] : rs[1]]
                    w = "and" if isinstance(n.op, ast.And) else "or"
                    if f" {w} " in old:
                        add("bool", n, le[0], le[1], rs[0], rs[1], old.replace(w, "or" if w == "and" else "and", 1), old.strip())
        elif isinstance(n, ast.UnaryOp) and isinstance(n.op, ast.Not):
            s = seg(lines, n)
            if s and s.startswith("not "):
                add("dropnot", n, n.lineno - 1, n.col_offset, n.end_lineno - 1, n.end_col_offset, "(" + s[4:] + ")", s)
        elif isinstance(n, ast.Constant) and type(n.value) is int and n.value in (0, 1, 2) and not isinstance(parents.get(n), ast.Subscript.__mro__[0] if False else ()):
            add("const", n, n.lineno - 1, n.col_offset, n.end_lineno - 1, n.end_col_offset, str({0: 1, 1: 0, 2: 1}[n.value]), str(n.value))
        elif isinstance(n, ast.Constant) and type(n.value) is bool:
            add("boolconst", n, n.lineno - 1, n.col_offset, n.end_lineno - 1, n.end_col_offset, str(not n.value), str(n.value))
        elif isinstance(n, ast.Continue):
            add("continue->break", n, n.lineno - 1, n.col_offset, n.end_lineno - 1, n.end_col_offset, "break", "continue")
        elif isinstance(n, ast.Break):
            add("break->continue", n, n.lineno - 1, n.col_offset, n.end_lineno - 1, n.end_col_offset, "continue", "break")
        elif isinstance(n, (ast.If, ast.While)) and not isinstance(n.test, ast.UnaryOp):
            t = n.test
            s = seg(lines, t)
            if s and t.lineno == t.end_lineno:
                add("negcond", n, t.lineno - 1, t.col_offset, t.end_lineno - 1, t.end_col_offset, f"not ({s})", s)
    # statement deletion: a call, an assignment, a raise or a return-with-value inside a function becomes `pass` / `return None`
    for fn in ast.walk(tree):
        if not isinstance(fn, (ast.FunctionDef, ast.AsyncFunctionDef)):
            continue
        for n in ast.walk(fn):
            if in_debug_call(n, parents) or not hasattr(n, "lineno"):
                continue
            if isinstance(n, ast.Expr) and isinstance(n.value, ast.Call):
                f = n.value.func
                if isinstance(f, ast.Attribute) and isinstance(f.value, ast.Name) and f.value.id in ("_logger", "warnings"):
                    continue
                add("delstmt", n, n.lineno - 1, n.col_offset, n.end_lineno - 1, n.end_col_offset, "pass", (seg(lines, n) or "")[:60])
            elif isinstance(n, (ast.Assign, ast.AugAssign)) and n.lineno == n.end_lineno:
                add("delstmt", n, n.lineno - 1, n.col_offset, n.end_lineno - 1, n.end_col_offset, "pass", (seg(lines, n) or "")[:60])
            elif isinstance(n, ast.Raise):
                add("delraise", n, n.lineno - 1, n.col_offset, n.end_lineno - 1, n.end_col_offset, "pass", (seg(lines, n) or "")[:60])
    # every mutant must still compile
    ok = []
    for m in muts:
        try:
            compile(m["text"], m["file"], "exec")
        except SyntaxError:
            continue
        if m["text"] != src:
            ok.append(m)
    return ok


def cmd_gen(a) -> None:
    files = a.files or FILES
    out = []
    for f in files:
        ms = gen_file(REPO / "dltype" / "_lib" / f)
        for i, m in enumerate(ms):
            m["id"] = f"{f[:-3]}#{i}"
        out += ms
    Path(a.out).write_text(json.dumps(out))
    print(len(out), "mutants;", {f: sum(1 for m in out if m["file"] == f) for f in files})


def prepare_worker(i: int) -> Path:
    root = Path(f"/tmp/mw{i}")
    if root.exists():
        shutil.rmtree(root)
    root.mkdir(parents=True)
    subprocess.run(["rsync", "-a", "--exclude", ".git", "--exclude", "replays", str(VERIF) + "/", str(root / "verif")], check=True)
    subprocess.run(["rsync", "-a", "--exclude", ".git", str(REPO) + "/", str(root / "repo")], check=True)
    return root


def run_one(m: dict, root: Path) -> dict:
    repo, verif = root / "repo", root / "verif"
    target = repo / "dltype" / "_lib" / m["file"]
    orig = (REPO / "dltype" / "_lib" / m["file"]).read_text()
    target.write_text(m["text"])
    res = {"id": m["id"], "file": m["file"], "kind": m["kind"], "line": m["line"], "old": m["old"], "new": m["new"]}
    env = dict(os.environ, PYTHONPATH=str(repo), PYTHONDONTWRITEBYTECODE="1", JAX_PLATFORMS="cpu")
    try:
        try:
            t = subprocess.run(["/venv/bin/python", "-m", "pytest", "-q", "-x", "-p", "no:cacheprovider", "--no-cov", "dltype/tests"], cwd=repo, env=env,
                               capture_output=True, text=True, timeout=240)
            tests_pass = t.returncode == 0
        except subprocess.TimeoutExpired:
            tests_pass = False
        res["tests_pass"] = tests_pass
        if not tests_pass:
            res["status"] = "killed_by_tests"
            return res
        caught = []
        env2 = dict(os.environ, DLTYPE_REPO=str(repo))
        for pid in PROPS[m["file"]]:
            try:
                r = subprocess.run([str(verif / "bin" / "vcheck"), pid], cwd=verif, env=env2, capture_output=True, text=True, timeout=1500)
                line = next((l for l in r.stdout.splitlines() if l.startswith("VIOLATION")), None)
            except subprocess.TimeoutExpired:
                line = "VIOLATION (check timed out)"
            if line:
                caught.append((pid, "no-failing-input-found" in line))
                if not line.endswith("no-failing-input-found"):
                    break
        res["caught_by"] = caught
        res["status"] = "caught" if caught else "survived"
        return res
    finally:
        target.write_text(orig)


def cmd_run(a) -> None:
    muts = json.loads(Path(a.muts).read_text())
    done = set()
    outp = Path(a.results)
    if outp.exists():
        for l in outp.read_text().splitlines():
            done.add(json.loads(l)["id"])
    todo = [m for m in muts if m["id"] not in done]
    if a.limit:
        todo = todo[: a.limit]
    print(len(todo), "to run")
    q: Queue = Queue()
    for i in range(a.jobs):
        q.put(prepare_worker(i))

    def work(m):
        root = q.get()
        try:
            r = run_one(m, root)
        except Exception as e:  # noqa: BLE001
            r = {"id": m["id"], "status": "error", "error": repr(e)}
        finally:
            q.put(root)
        with open(outp, "a") as f:
            f.write(json.dumps(r) + "\n")
        print(r["id"], r["status"], r.get("caught_by", ""), flush=True)

    with ThreadPoolExecutor(max_workers=a.jobs) as ex:
        list(ex.map(work, todo))
    for i in range(a.jobs):
        shutil.rmtree(f"/tmp/mw{i}", ignore_errors=True)


def cmd_report(a) -> None:
    rs = [json.loads(l) for l in Path(a.results).read_text().splitlines()]
    from collections import Counter

    print(Counter(r["status"] for r in rs))
    for r in rs:
        if r["status"] == "survived":
            print(f"SURVIVED {r['id']:28s} {r['file']}:{r['line']:<4d} {r['kind']:10s} {r['old']!r} -> {r['new']!r}")
    for r in rs:
        if r["status"] == "caught" and all(nf for _, nf in r["caught_by"]):
            print(f"ONLY-NO-INPUT {r['id']:24s} {r['file']}:{r['line']:<4d} {r['kind']:10s} {r['old']!r} -> {r['new']!r} {r['caught_by']}")


if __name__ == "__main__":
    ap = argparse.ArgumentParser()
    sub = ap.add_subparsers(dest="cmd", required=True)
    g = sub.add_parser("gen")
    g.add_argument("out")
    g.add_argument("--files", nargs="*")
    r = sub.add_parser("run")
    r.add_argument("muts")
    r.add_argument("results")
    r.add_argument("-j", "--jobs", type=int, default=6)
    r.add_argument("--limit", type=int, default=0)
    p = sub.add_parser("report")
    p.add_argument("results")
    a = ap.parse_args()
    {"gen": cmd_gen, "run": cmd_run, "report": cmd_report}[a.cmd](a)
