#!/usr/bin/env python3
"""tools/seed_meta.py <seed-name> <history text>: write seeded/<name>/meta.json from the agent's meta and confirm.txt."""
import json, sys, pathlib
name, history = sys.argv[1], sys.argv[2]
d = pathlib.Path("/verif/seeded") / name
am = json.loads((d / "agent_meta.json").read_text())
conf = [l.rstrip() for l in (d / "confirm.txt").read_text().splitlines() if l.strip() and not l.startswith("   first:")]
meta = {
    "property": am.get("property"),
    "breaks": am.get("summary") or am.get("breaks"),
    "needs_to_manifest": am.get("needs") or am.get("needs_to_manifest"),
    "why_existing_tests_pass": am.get("why_tests_pass") or am.get("why_existing_tests_pass"),
    "origin": "fresh sub-agent given only the property text and a scratch worktree of /repo (nothing from /verif)",
    "confirmed_by_me": conf,
    "what_i_ran": "tools/try_seed.sh: demo on the original tree (rc 0), git apply patch.diff in /repo, full test suite (179 pass), demo with the change (rc 1), bin/vcheck <ids>, git checkout -- .",
    "history": history,
}
(d / "meta.json").write_text(json.dumps(meta, indent=1) + "\n")
