(* driver.ml - line protocol around the extracted model (Dlmodel).
   One request per input line, an s-expression; one answer line per request.
   Atoms: s<hex> = string, decimal = integer, T/F = bool.  Trusted glue: parsing and printing only. *)
open Dlmodel

type sx = A of string | L of sx list

let parse_sx (s : string) : sx =
  let n = String.length s in
  let pos = ref 0 in
  let rec skip () = if !pos < n && (s.[!pos] = ' ' || s.[!pos] = '\t') then (incr pos; skip ()) in
  let rec item () =
    skip ();
    if !pos >= n then failwith "eof"
    else if s.[!pos] = '(' then begin
      incr pos;
      let rec items acc =
        skip ();
        if !pos >= n then failwith "unclosed"
        else if s.[!pos] = ')' then (incr pos; L (List.rev acc))
        else items (item () :: acc) in
      items []
    end else begin
      let st = !pos in
      while !pos < n && s.[!pos] <> ' ' && s.[!pos] <> '(' && s.[!pos] <> ')' && s.[!pos] <> '\t' do incr pos done;
      A (String.sub s st (!pos - st))
    end in
  item ()

(* ---- conversions ---- *)
let explode s = List.init (String.length s) (String.get s)
let implode l = String.of_seq (List.to_seq l)
let rec nat_of_int n = if n <= 0 then O else S (nat_of_int (n - 1))
let rec int_of_nat = function O -> 0 | S n -> 1 + int_of_nat n
let rec pos_of_bits (bits : string) (i : int) (acc : positive) : positive =
  if i >= String.length bits then acc
  else pos_of_bits bits (i + 1) (if bits.[i] = '1' then XI acc else XO acc)
(* integers travel in binary: [-]1010 *)
let z_of_bin (s : string) : z =
  let neg = String.length s > 0 && s.[0] = '-' in
  let b = if neg then String.sub s 1 (String.length s - 1) else s in
  (* strip leading zeros *)
  let k = ref 0 in
  while !k < String.length b && b.[!k] = '0' do incr k done;
  if !k >= String.length b then Z0
  else
    let p = pos_of_bits b (!k + 1) XH in
    if neg then Zneg p else Zpos p
let rec pos_bits p = match p with XH -> "1" | XO q -> pos_bits q ^ "0" | XI q -> pos_bits q ^ "1"
let z_bin z = match z with Z0 -> "0" | Zpos p -> pos_bits p | Zneg p -> "-" ^ pos_bits p
let hex_decode (h : string) : string =
  String.init (String.length h / 2) (fun i -> Char.chr (int_of_string ("0x" ^ String.sub h (2 * i) 2)))
let hex_encode (s : string) : string =
  String.concat "" (List.map (fun c -> Printf.sprintf "%02x" (Char.code c)) (explode s))
let str_of = function
  | A a when String.length a >= 1 && a.[0] = 's' -> explode (hex_decode (String.sub a 1 (String.length a - 1)))
  | _ -> failwith "string atom expected"
let hx (cl : char list) = "s" ^ hex_encode (implode cl)
let z_of = function A a -> z_of_bin a | _ -> failwith "int atom expected"
let nat_of = function A a -> nat_of_int (int_of_string a) | _ -> failwith "nat atom expected"
let bool_of = function A "T" -> true | A "F" -> false | _ -> failwith "bool atom expected"
let list_of f = function L l -> List.map f l | _ -> failwith "list expected"
let opt_of f = function A "none" -> None | x -> Some (f x)

let lib_of = function A "np" -> LNumpy | A "torch" -> LTorch | A "jax" -> LJax | _ -> failwith "lib"
let adtype_names = [ "bool", KBool; "i8", KI8; "i16", KI16; "i32", KI32; "i64", KI64; "u8", KU8; "u16", KU16;
  "u32", KU32; "u64", KU64; "f16", KF16; "bf16", KBF16; "f32", KF32; "f64", KF64; "longdouble", KLongDouble;
  "c64", KC64; "c128", KC128; "f8e4m3", KF8E4M3; "f8e5m2", KF8E5M2; "other", KOther ]
let adtype_of = function A a -> (try List.assoc a adtype_names with Not_found -> failwith ("adtype " ^ a)) | _ -> failwith "adtype"
let dtok_of = function
  | A a when String.length a > 2 && a.[1] = ':' ->
      let k = adtype_of (A (String.sub a 2 (String.length a - 2))) in
      if a.[0] = 'N' then NP k else TO k
  | _ -> failwith "dtok"
let scope_of sx = list_of (function L [k; v] -> (str_of k, z_of v) | _ -> failwith "scope entry") sx
let tensor_of = function
  | L [l; d; sh] -> { x_lib = lib_of l; x_dt = adtype_of d; x_shape = list_of z_of sh }
  | _ -> failwith "tensor"

exception Annot_error of exn
(* (shape|none (dtoks) opt) ; the shape string goes through the model's own parser *)
let annot_of = function
  | L [sh; dts; o] ->
      let ty = match sh with
        | A "none" -> scalar_type
        | s -> (match parse_shape (str_of s) with Ok t -> t | Err e -> raise (Annot_error e)) in
      { a_ty = ty; a_dtypes = list_of dtok_of dts; a_opt = bool_of o }
  | _ -> failwith "annot"
let rec value_of = function
  | A "none" -> VNone
  | A "other" -> VOther
  | L [A "arr"; t] -> VArr (tensor_of t)
  | L (A "tup" :: vs) -> VTuple (List.map value_of vs)
  | _ -> failwith "value"
let rec hint_of = function
  | A "plain" -> HPlain
  | A "annother" -> HAnnOther
  | L [A "ann"; A "sup"; a] -> HAnn (BSupported, annot_of a)
  | L [A "ann"; A "unsup"; a] -> HAnn (BUnsupported, annot_of a)
  | L (A "union" :: hs) -> HUnion (List.map hint_of hs)
  | L (A "tuple" :: hs) -> HTuple (List.map hint_of hs)
  | _ -> failwith "hint"
let named f = function L [n; x] -> (str_of n, f x) | _ -> failwith "named pair"
let pspec_of = function A "none" -> PNone | A "self" -> PSelf | A "free" -> PFree | _ -> failwith "pspec"
let pstatus_of = function A "bad" -> PSBad | L [A "ok"; sc] -> PSOk (scope_of sc) | _ -> failwith "pstatus"
let op_names = [ "+", ADD; "-", SUB; "*", MUL; "^", EXP; "/", DIV; "min", MIN; "max", MAX; "isqrt", ISQRT ]
let op_of = function A a -> List.assoc a op_names | _ -> failwith "op"
let rec sym_of = function
  | L [A "lit"; z] -> SLit (z_of z)
  | L [A "var"; s] -> SVar (str_of s)
  | L [A "bin"; o; l; r] -> SBin (op_of o, sym_of l, sym_of r)
  | L [A "isqrt"; a] -> SIsqrt (sym_of a)
  | L [A "fun2"; o; a; b] -> SFun2 (op_of o, sym_of a, sym_of b)
  | L [A "group"; a] -> SGroup (sym_of a)
  | _ -> failwith "sym"

(* ---- printers ---- *)
let exn_str = function
  | SyntaxErr -> "SyntaxError" | ValueErr -> "ValueError" | IndexErr -> "IndexError"
  | KeyErr k -> "KeyError:" ^ hx k | ZeroDivErr -> "ZeroDivisionError" | OverflowErr -> "OverflowError"
  | TypeErr -> "TypeError" | RecursionErr -> "RecursionError" | Unmodelled -> "Unmodelled"
let op_str o = fst (List.find (fun (_, x) -> x = o) op_names)
let ptok_str = function PInt z -> "i" ^ z_bin z | PName s -> "n" ^ implode s | POp o -> "o" ^ op_str o
let b x = if x then "1" else "0"
let dlerr_str = function
  | ENDims (n, e, a) -> Printf.sprintf "NDims name=%s expected=%d actual=%d" (hx n) (int_of_nat e) (int_of_nat a)
  | EDtype n -> Printf.sprintf "Dtype name=%s" (hx n)
  | EShape (n, i, e, a) -> Printf.sprintf "Shape name=%s idx=%d expected=%s actual=%s" (hx n) (int_of_nat i) (z_bin e) (z_bin a)
  | EInvalidRef (n, m, v) -> Printf.sprintf "InvalidRef name=%s missing=%s valid=%s" (hx n) (hx m) (String.concat "," (List.map hx v))
  | EUnsupported -> "Unsupported"
  | EDuplicate n -> Printf.sprintf "Duplicate name=%s" (hx n)
  | EScopeProvider -> "ScopeProvider"
let table_str (sc : scope) = String.concat "," (List.map (fun (k, v) -> hx k ^ ":" ^ z_bin v) sc)
let dres_str pr = function DOk a -> "ACCEPT" ^ pr a | DRej e -> "REJECT " ^ dlerr_str e | DCrash x -> "CRASH " ^ exn_str x
let ctx_tail (c : ctx) = " table=" ^ table_str c.table
let ttype_str (t : ttype) =
  let d (x : dimexpr) = "[" ^ implode x.d_ident ^ "|" ^ String.concat " " (List.map ptok_str x.d_post) ^ "|"
    ^ b x.d_literal ^ b x.d_identifier ^ b x.d_expression ^ b x.d_mlit ^ b x.d_anon ^ b x.d_named ^ "]" in
  "OK " ^ String.concat "" (List.map d t.t_shape)
  ^ " mi=" ^ (match t.t_mindex with None -> "None" | Some n -> string_of_int (int_of_nat n))
  ^ " mn=" ^ (match t.t_mname with None -> "-" | Some s -> implode s)   (* "-" is no identifier; a group may be called None *)
  ^ " an=" ^ b t.t_anon
  ^ " lits=" ^ String.concat "," (List.map (fun (i, z) -> string_of_int (int_of_nat i) ^ ":" ^ z_bin z) t.t_lits)
let rec value_str = function
  | VNone -> "none" | VOther -> "other" | VArr _ -> "arr" | VTuple vs -> "(" ^ String.concat " " (List.map value_str vs) ^ ")"
let outcome_str (called, o) =
  "called=" ^ b called ^ " " ^ (match o with
    | CReturned v -> "RETURNED " ^ value_str v
    | CRejected e -> "REJECT " ^ dlerr_str e
    | CCrashed x -> "CRASH " ^ exn_str x
    | CBodyRaised -> "BODYRAISED")

let fn_of = function
  | L [ps; r; p; m] ->
      { f_params = list_of (named hint_of) ps; f_ret = opt_of hint_of r; f_provider = pspec_of p; f_is_method = bool_of m }
  | _ -> failwith "fn"

let handle (req : sx) : string =
  match req with
  | L [A "parse"; s] -> (match parse_shape (str_of s) with Ok t -> ttype_str t | Err e -> "ERR " ^ exn_str e)
  | L [A "expr"; s; sc] ->
      (match expression_from_string (str_of s) with
       | Err e -> "PARSE_ERR " ^ exn_str e
       | Ok d -> (match evaluate d (scope_of sc) true with Ok v -> "OK " ^ z_bin v | Err e -> "ERR " ^ exn_str e))
  | L [A "check"; a; t; n] -> dres_str (fun () -> "") (check (annot_of a) (tensor_of t) (str_of n))
  | L [A "ctx"; sc; items] ->
      let item = function
        | L [n; vs; anns] -> ((str_of n, list_of value_of vs), opt_of (list_of (opt_of annot_of)) anns)
        | _ -> failwith "item" in
      dres_str ctx_tail (run_ctx (ctx0 (scope_of sc)) (list_of item items))
  | L [A "call"; en; f; ps; args; body] ->
      (match decorate (bool_of en) (fn_of f) with
       | DecIdentity -> "IDENTITY"
       | DecError x -> "DEC_ERR " ^ exn_str x
       | DecWrapped w ->
           let body = (match body with A "raise" -> BRaise | L [A "return"; v] -> BReturn (value_of v) | _ -> failwith "body") in
           outcome_str (run_call w (pstatus_of ps) (list_of (named value_of) args) body))
  | L [A "construct"; en; fields; vals] ->
      (match decorate_class (bool_of en) (list_of (named hint_of) fields) with
       | DecIdentity -> "IDENTITY"
       | DecError x -> "DEC_ERR " ^ exn_str x
       | DecWrapped w -> dres_str (fun _ -> "") (run_construct w.w_params (list_of (named value_of) vals)))
  | L [A "pydantic"; fields; ops] ->
      (* ops: (validate vals) starts from a fresh context; (assign name value) continues with the context of
         the last successful validation *)
      let fields = list_of (named annot_of) fields in
      let cur = ref None in
      let one = function
        | L [A "validate"; vals] ->
            let r = run_pydantic_from (ctx0 []) fields (list_of (named value_of) vals) in
            (match r with DOk c -> cur := Some c | _ -> cur := None);
            dres_str (fun _ -> "") r
        | L [A "assign"; n; v] ->
            (match !cur, value_of v with
             | Some c, VArr x ->
                 let name = str_of n in
                 let a = List.assoc name fields in
                 dres_str (fun _ -> "") (validate_field c name a x)
             | _ -> "SKIP")
        | _ -> failwith "pydantic op" in
      String.concat " ; " (List.map one (match ops with L l -> l | _ -> failwith "ops"))
  | L [A "sym"; t; sc] ->
      let t = sym_of t in
      (match sprint t with
       | Err e -> "PRINT_ERR " ^ exn_str e
       | Ok s -> "OK " ^ hx s ^ " den=" ^ (match pyden t (scope_of sc) with Ok v -> z_bin v | Err e -> exn_str e))
  | L [A "sshape"; L axes] ->
      let axis_of = function
        | L [A "expr"; t] -> SAExpr (sym_of t)
        | L [A "const"; n; v] -> SAConst (str_of n, z_of v)
        | A "anon" -> SAAnon
        | L [A "star"; n] -> SAStar (str_of n)
        | _ -> failwith "axis" in
      (match print_sshape (List.map axis_of axes) with
       | Err e -> "PRINT_ERR " ^ exn_str e
       | Ok s -> "OK " ^ hx s)
  | L (A "mk" :: what :: args) ->
      let opnd_of = function
        | L [A "int"; z] -> OInt (z_of z)
        | L [A "sym"; t] -> OSym (sym_of t)
        | L [A "const"; n; v] -> OConst (str_of n, z_of v)
        | A "anon" -> OAnon
        | L [A "star"; n] -> OStar (str_of n)
        | _ -> failwith "operand" in
      let r = (match what, args with
        | A "isqrt", [a] -> mk_isqrt (opnd_of a)
        | A "min", [a; b] -> mk_fun2 MIN (opnd_of a) (opnd_of b)
        | A "max", [a; b] -> mk_fun2 MAX (opnd_of a) (opnd_of b)
        | o, [a; b] -> mk_bin (op_of o) (opnd_of a) (opnd_of b)
        | _ -> failwith "mk") in
      (match r with
       | Err e -> "BUILD_ERR " ^ exn_str e
       | Ok t -> (match sprint t with Err e -> "PRINT_ERR " ^ exn_str e | Ok s -> "OK " ^ hx s))
  | L [A "env"; d; g] ->
      (match read_env (opt_of str_of d) (opt_of str_of g) with
       | ImportFails -> "IMPORT_FAILS" | ImportOk (x, y) -> "OK disable=" ^ b x ^ " debug=" ^ b y)
  | L [A "enabled"; gd; arg] -> b (effective_enabled (bool_of gd) (opt_of bool_of arg))
  | L [A "orig"; k; scripting; en] ->
      let k = (match k with A "fn" -> KFunction | A "nt" -> KNamedTuple | A "dc" -> KDataclass | _ -> failwith "kind") in
      b (returns_original k (bool_of scripting) (bool_of en))
  | L [A "classdef"; dts; scalars] -> b (class_def_refused (list_of dtok_of dts) (list_of adtype_of scalars))
  | L [A "dtype"; dts; l; d] -> b (dtype_accepted (list_of dtok_of dts) (lib_of l) (adtype_of d))
  | _ -> failwith "unknown request"

let () =
  try
    while true do
      let line = input_line stdin in
      let out =
        try handle (parse_sx line) with
        | Annot_error e -> "ANNOT_ERR " ^ exn_str e
        | Failure m -> "DRIVER_ERROR " ^ m
        | Not_found -> "DRIVER_ERROR not_found"
        | Stack_overflow -> "DRIVER_ERROR stack_overflow" in
      print_string out; print_newline ()
    done
  with End_of_file -> ()
